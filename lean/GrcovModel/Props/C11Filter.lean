/-
C11, part `Filter` — selection WITH exclusion markers (second review, item 7).

In `rewrite_paths` (src/path_rewriting.rs 365-404) the loop over `file_filter.create(&abs_path)`
(377-390: the `--excl-*` markers of the source file delete lines and branches of the record) runs
AFTER the `--ignore` / `--keep-only` / `--ignore-not-existing` tests and BEFORE
`match filter_option` (392-404): `--filter covered|uncovered` judges the record the markers have
reduced, and that reduced record is what is reported. `Rewrite.selectRec` has no marker step (its
statements are the case "no `--excl-*` option": `flt = fun _ => []`); the model of the closure in
the code's order is `Cli.RunAll.selectRecF` / `rewriteKeyF` / `rewritePathsF` (package H,
GrcovModel/Cli/RunAll.lean), parameterised by `flt : Bytes → List FT`, the filter list of the file
at an absolute path (`FileFilter.createSrc` of its text; `RunAll.filterList`). The theorems below
are C11's selection, membership, status, data and partition clauses for EVERY such `flt`; those of
Props/C11.lean about `rewritePaths` are the instance `flt = fun _ => []`
(`C11_no_markers_is_plain`). Tied to the real code by harness/c11/src/filter.rs (`rewrite_paths`
with a real `FileFilter`, driver op `c11.filter.rewrite`).
-/
import GrcovModel.Lemmas.CliRunAll
namespace Grcov.Props.C11
open Grcov Grcov.UPath Grcov.Glob Grcov.Rewrite Grcov.FileFilter Grcov.Cli.RunAll

/-- **Selection, in the order of the code.** A key is reported iff its rewritten relative path
matches no ignore glob, matches some keep-only glob when any is given, exists on disk when
ignore-not-existing is set, and THE RECORD THE EXCLUSION MARKERS OF THAT FILE LEAVE
(`applyFilters (flt abs) cov`) has the requested covered/uncovered status; the reported record
carries that path and that reduced record. -/
theorem C11_selection_iff (cfg : Cfg) (fs : FS) (flt : Bytes → List FT) (kc : Bytes × Cov) (r : Rec) :
    rewriteKeyF cfg fs flt kc = .ok (some r) ↔
      ∃ abs rel, resolveKey cfg fs kc.1 = .ok (some (abs, rel)) ∧
        setMatch cfg.ignore rel = false ∧
        (cfg.keep = [] ∨ setMatch cfg.keep rel = true) ∧
        (cfg.ignoreNotExisting = true → fs.exists abs = true) ∧
        filterOk cfg.filter (applyFilters (flt abs) kc.2) = true ∧
        r = ⟨abs, rel, applyFilters (flt abs) kc.2⟩ := by
  unfold rewriteKeyF
  cases hr : resolveKey cfg fs kc.1 with
  | panic s => simp
  | ok o =>
    cases o with
    | none => simp
    | some ar =>
      obtain ⟨a, rl⟩ := ar
      simp only [Res.ok.injEq, Option.some.injEq, Prod.mk.injEq, selectRecF_eq]
      rw [selectRec_some_iff]
      constructor
      · intro h; exact ⟨a, rl, ⟨rfl, rfl⟩, h⟩
      · rintro ⟨a', rl', ⟨rfl, rfl⟩, h⟩; exact h

/-- without any `--excl-*` option (no file has a filter list) this is the selection of
`Rewrite.rewriteKey`, the record is the key's own data -/
theorem C11_no_markers_is_plain (cfg : Cfg) (fs : FS) (m : List (Bytes × Cov)) (kc : Bytes × Cov) :
    rewritePathsF cfg fs (fun _ => []) m = rewritePaths cfg fs m ∧
    rewriteKeyF cfg fs (fun _ => []) kc = rewriteKey cfg fs kc := by
  refine ⟨rewritePathsF_nil cfg fs m, ?_⟩
  rw [rewriteKeyF_eq, exclude_nil]

/-- The report consists exactly of the records that the per-key pipeline retains. -/
theorem C11_report_members_markers (cfg : Cfg) (fs : FS) (flt : Bytes → List FT)
    (m : List (Bytes × Cov)) (rep : List Rec) (h : rewritePathsF cfg fs flt m = .ok rep) (r : Rec) :
    r ∈ rep ↔ ∃ kc ∈ m, rewriteKeyF cfg fs flt kc = .ok (some r) := by
  obtain ⟨_, hok, e⟩ := (rewritePathsF_eq_ok cfg fs flt m rep).1 h
  subst e
  simp only [List.mem_filterMap, keyRecF]
  constructor
  · rintro ⟨kc, hkc, hk⟩
    refine ⟨kc, hkc, ?_⟩
    cases hq : rewriteKeyF cfg fs flt kc with
    | panic s => rw [hq] at hk; simp [okPart] at hk
    | ok o => rw [hq] at hk; simp only [okPart] at hk; rw [hk]
  · rintro ⟨kc, hkc, hk⟩
    exact ⟨kc, hkc, by rw [hk]; rfl⟩

/-- **Status requested by `--filter`, with markers.** Every record of a `--filter covered` report
is covered AS REPORTED (after the markers): some remaining line is hit and, with more than one
function, a function other than "top-level" is executed; every record of a `--filter uncovered`
report is not. In particular a file whose only hit lines carry an exclusion marker is in the
uncovered report, with its remaining lines, and not in the covered one. -/
theorem C11_filter_status_markers (cfg : Cfg) (fs : FS) (flt : Bytes → List FT)
    (m : List (Bytes × Cov)) (rep : List Rec) (h : rewritePathsF cfg fs flt m = .ok rep) :
    (cfg.filter = some true → ∀ r ∈ rep, isCovered r.cov = true) ∧
    (cfg.filter = some false → ∀ r ∈ rep, isCovered r.cov = false) := by
  constructor
  · intro hf r hr
    obtain ⟨kc, _, hk⟩ := (C11_report_members_markers cfg fs flt m rep h r).1 hr
    obtain ⟨a, rl, _, _, _, _, h4, e⟩ := (C11_selection_iff cfg fs flt kc r).1 hk
    rw [e]; simpa [hf, filterOk] using h4
  · intro hf r hr
    obtain ⟨kc, _, hk⟩ := (C11_report_members_markers cfg fs flt m rep h r).1 hr
    obtain ⟨a, rl, _, _, _, _, h4, e⟩ := (C11_selection_iff cfg fs flt kc r).1 hk
    rw [e]; simpa [hf, filterOk] using h4

/-- Data of a retained file: what the markers of ITS source file (the file at the reported
absolute path) leave of the map entry it comes from – nothing else is changed, and no entry
yields more than one record. -/
theorem C11_data_passthrough_markers (cfg : Cfg) (fs : FS) (flt : Bytes → List FT)
    (m : List (Bytes × Cov)) (rep : List Rec) (h : rewritePathsF cfg fs flt m = .ok rep) :
    (∀ r ∈ rep, ∃ kc ∈ m, rewriteKeyF cfg fs flt kc = .ok (some r) ∧
        r.cov = applyFilters (flt r.abs) kc.2) ∧ rep.length ≤ m.length := by
  constructor
  · intro r hr
    obtain ⟨kc, hkc, hk⟩ := (C11_report_members_markers cfg fs flt m rep h r).1 hr
    refine ⟨kc, hkc, hk, ?_⟩
    obtain ⟨_, _, _, _, _, _, _, e⟩ := (C11_selection_iff cfg fs flt kc r).1 hk
    rw [e]
  · obtain ⟨_, _, e⟩ := (rewritePathsF_eq_ok cfg fs flt m rep).1 h
    rw [e]; exact List.length_filterMap_le _ _

/-- The markers never touch the PATHS: a record reported with markers is, path for path, the
record the same key gives without markers and without `--filter` – so every path clause of
Props/C11.lean (normal form, no backslash, `..` escape, prefix, source dir; all stated on
`rewriteKey`) holds of every report with markers. -/
theorem C11_markers_same_paths (cfg : Cfg) (fs : FS) (flt : Bytes → List FT) (kc : Bytes × Cov) (r : Rec)
    (h : rewriteKeyF cfg fs flt kc = .ok (some r)) :
    rewriteKey { cfg with filter := none } fs kc = .ok (some ⟨r.abs, r.rel, kc.2⟩) := by
  obtain ⟨a, rl, h1, h2, h3, h4, _, e⟩ := (C11_selection_iff cfg fs flt kc r).1 h
  rw [rewriteKey_some_iff]
  refine ⟨a, rl, by rw [← h1]; exact resolveKey_congr rfl rfl rfl fs _, ?_⟩
  rw [selectRec_some_iff]
  subst e
  exact ⟨h2, h3, h4, rfl, rfl⟩

/-! ### partitions, with markers -/

namespace FilterAux
/-- the marker step does not look at the selection options -/
theorem exclude_congr {c c' : Cfg} (h1 : c.sourceDir = c'.sourceDir) (h2 : c.prefixDir = c'.prefixDir)
    (h3 : c.mapping = c'.mapping) (fs : FS) (flt : Bytes → List FT) (kc : Bytes × Cov) :
    exclude c fs flt kc = exclude c' fs flt kc := by
  unfold exclude; rw [resolveKey_congr h1 h2 h3]
end FilterAux
open FilterAux

/-- **`--filter covered` and `--filter uncovered` partition the unfiltered report, with any
exclusion markers**: both are taken of the records the markers leave. -/
theorem C11_covered_uncovered_partition_markers (cfg : Cfg) (hf : cfg.filter = none) (fs : FS)
    (flt : Bytes → List FT) (m : List (Bytes × Cov)) (rep : List Rec)
    (h : rewritePathsF cfg fs flt m = .ok rep) :
    ∃ rc ru, rewritePathsF { cfg with filter := some true } fs flt m = .ok rc ∧
      rewritePathsF { cfg with filter := some false } fs flt m = .ok ru ∧ (rc ++ ru).Perm rep ∧
      (∀ r ∈ rc, isCovered r.cov = true) ∧ (∀ r ∈ ru, isCovered r.cov = false) := by
  have eT : m.map (exclude { cfg with filter := some true } fs flt) = m.map (exclude cfg fs flt) :=
    List.map_congr_left fun kc _ => exclude_congr rfl rfl rfl fs flt kc
  have eF : m.map (exclude { cfg with filter := some false } fs flt) = m.map (exclude cfg fs flt) :=
    List.map_congr_left fun kc _ => exclude_congr rfl rfl rfl fs flt kc
  rw [rewritePathsF_eq] at h
  obtain ⟨rc, ru, h1, h2, hp⟩ :=
    partition_reports cfg { cfg with filter := some true } { cfg with filter := some false } fs
      (m.map (exclude cfg fs flt)) ⟨rfl, rfl⟩ (fun kc _ => rewriteKey_filter cfg hf fs kc) rep h
  have h1' : rewritePathsF { cfg with filter := some true } fs flt m = .ok rc := by
    rw [rewritePathsF_eq, eT]; exact h1
  have h2' : rewritePathsF { cfg with filter := some false } fs flt m = .ok ru := by
    rw [rewritePathsF_eq, eF]; exact h2
  exact ⟨rc, ru, h1', h2', hp,
    (C11_filter_status_markers _ fs flt m rc h1').1 rfl,
    (C11_filter_status_markers _ fs flt m ru h2').2 rfl⟩

/-- `--ignore G` and `--keep-only G` partition the unfiltered report, with any exclusion markers. -/
theorem C11_ignore_keep_partition_markers (cfg : Cfg) (hk : cfg.keep = []) (G : GlobSet) (hG : G ≠ [])
    (fs : FS) (flt : Bytes → List FT) (m : List (Bytes × Cov)) (rep : List Rec)
    (h : rewritePathsF cfg fs flt m = .ok rep) :
    ∃ ri rk, rewritePathsF { cfg with ignore := cfg.ignore ++ G } fs flt m = .ok ri ∧
      rewritePathsF { cfg with keep := G } fs flt m = .ok rk ∧ (ri ++ rk).Perm rep := by
  have eI : m.map (exclude { cfg with ignore := cfg.ignore ++ G } fs flt) = m.map (exclude cfg fs flt) :=
    List.map_congr_left fun kc _ => exclude_congr rfl rfl rfl fs flt kc
  have eK : m.map (exclude { cfg with keep := G } fs flt) = m.map (exclude cfg fs flt) :=
    List.map_congr_left fun kc _ => exclude_congr rfl rfl rfl fs flt kc
  rw [rewritePathsF_eq] at h
  obtain ⟨ri, rk, h1, h2, hp⟩ :=
    partition_reports cfg { cfg with ignore := cfg.ignore ++ G } { cfg with keep := G } fs
      (m.map (exclude cfg fs flt)) ⟨rfl, rfl⟩
      (fun kc _ => rewriteKey_ignore_keep cfg hk G hG fs kc) rep h
  exact ⟨ri, rk, by rw [rewritePathsF_eq, eI]; exact h1, by rw [rewritePathsF_eq, eK]; exact h2, hp⟩

/-! ### the order matters: a closed witness (probe `paths/markers_then_filter.sh`)

`a.c` has `DA:1,5`, `DA:2,0`; line 1 of the source carries the `--excl-line` marker. -/

/-- source dir `/s` holding `a.c` -/
def mfFS : FS := { files := [[[115], [97, 46, 99]]], dirs := [[[115]]], cwd := [[115]] }
def mfCfg (f : Option Bool) : Cfg := { sourceDir := some [47, 115], prefixDir := some [47, 115], filter := f }
/-- `file_filter.create("/s/a.c")`: line 1 is excluded -/
def mfFlt : Bytes → List FT := fun abs => if abs = [47, 115, 47, 97, 46, 99] then [FT.both 1] else []
def mfMap : List (Bytes × Cov) := [([97, 46, 99], { lines := [(1, 5), (2, 0)] })]

/-- **Markers first, then `--filter`.** `--filter covered --excl-line EXCL`: `a.c` is NOT reported
(its only hit line is excluded); `--filter uncovered --excl-line EXCL`: it IS, with `DA:2,0` only;
whereas judging the raw data first (the order the model had before the second review) would put
it into the covered report. -/
theorem C11_markers_before_filter_witness :
    rewritePathsF (mfCfg (some true)) mfFS mfFlt mfMap = .ok [] ∧
    rewritePathsF (mfCfg (some false)) mfFS mfFlt mfMap
      = .ok [⟨[47, 115, 47, 97, 46, 99], [97, 46, 99], { lines := [(2, 0)] }⟩] ∧
    rewritePaths (mfCfg (some true)) mfFS mfMap
      = .ok [⟨[47, 115, 47, 97, 46, 99], [97, 46, 99], { lines := [(1, 5), (2, 0)] }⟩] := by
  decide

end Grcov.Props.C11
