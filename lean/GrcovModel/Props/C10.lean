/-
C10 — JaCoCo report fidelity. Property theorems about `Jacoco.parseCap` / `Jacoco.parse`, the
event-level model of `parse_jacoco_xml_report` (model: GrcovModel/Jacoco.lean; what a report means
and which event sequences serialise it: GrcovModel/Spec/Jacoco.lean; helper lemmas:
GrcovModel/Lemmas/Jacoco.lean).

Quantifiers. A serialisation is an `XReport`: the abstract report together with every choice the
writer is free to make – order of `<class>`/`<sourcefile>` elements, the complete attribute list
of each element in any order with any extra attributes, the escaping of names and the spelling of
numbers (anything the attribute reader accepts), empty-element vs start/end tags, namespace
prefixes, and arbitrary ignorable events (text, comments, declaration, doctype, session info,
group wrappers, counters of other types, unknown elements) between the elements the parser uses.
A `<method>` may lack its `line` attribute (report.dtd: `#IMPLIED`), a `<class>` its
`sourcefilename`.

* `wfSrc x`: the serialisation is well formed (distinct attribute keys – XML demands it; since /repo
  ae885a6 the parser itself no longer checks it, see `C10_repeated_attribute_first_match` and
  `C10_line_repeated_attribute_last_wins` for what it does with a repeated key –, no attribute
  syntax error, required attributes present and readable), line numbers are unique within a source
  file and source-file names within a package.
  Nothing is asked of method names: overloads (`<init>` twice) are allowed.
* `wf x` = `wfSrc x` + method names unique within their class and `Class#method` unique within a
  file. THIS IS THE QUANTIFIER OF THE PROPERTY TEXT ("methods with names unique within their class"):
  the property really restricts to unique names, and `C10_fidelity` carries that guard. What the
  code does without it is `C10_fidelity_overloads` + `C10_repeated_method_last_wins` (unguarded),
  and `C10_fidelity_without_name_guard_false` shows the guard cannot be dropped.
* `good cap x`: the two conditions under which the parser returns `Ok` at all on such input:
  every `<method>` has a `line` attribute (`C10_method_without_line_rejects_the_report`: otherwise
  `Err(InvalidRecord)` for the WHOLE report), and no
  `<line>` has `cb + mb > cap` (`C10_oversized_branch_vector_crashes`: otherwise the outcome is
  `alloc` = "capacity overflow" panic or allocation abort; `cap` ≤ `allocMax` = isize::MAX is the
  longest vector the machine builds; `parse = parseCap allocMax`).

All theorems hold for every such `x`, of any size, every `cap`, and every fuel from `enoughFuel`
upwards (`enoughFuel evs = 2·|evs| + 1`).

Observations outside the property's quantifier. The property quantifies over "methods with names
unique within their class" and its statement presumes "the method's line attribute"; two kinds of
report lie outside it. They are NOT violations of C10 and not findings; the theorems below say
exactly what the code does with them, and the harness keeps generating them (tied to the model,
counted as `observation.overload` / `observation.noline`, not judged by the property oracle).
* Overloaded methods collapse. The parser keys the functions of a file by `Class#name` and never
  reads `desc`, so methods that share a name (several `<init>`, `equals(Object)`/`equals(T)`: every
  real Java report has them) become ONE function carrying the line and executed flag of the LAST
  of them in document order (`C10_fidelity_overloads`, `C10_repeated_method_last_wins`,
  `C10_fidelity_without_name_guard_false`). Witness `exOverload` = harness corpus case `overload`:
  `<class name="p/A" sourcefilename="A.java">` with `<method name="&lt;init&gt;" desc="(I)V"
  line="3">` (METHOD counter covered="1") followed by `<method name="&lt;init&gt;" desc="()V"
  line="7">` (covered="0") is reported as the single function `A#<init>`, line 7, not executed.
* A `<method>` without `line` rejects the report. report.dtd declares `line` `#IMPLIED` (JaCoCo
  omits it for classes compiled without debug information); `get_xml_attribute(.., "line")?` turns
  its absence into `Err(InvalidRecord)` for the WHOLE report
  (`C10_method_without_line_rejects_the_report`, `C10_missing_attribute_outcomes`). Witness
  `exNoLine` = harness corpus case `noline`: `<class name="p/A" sourcefilename="A.java"><method
  name="m" desc="()V"/></class>` gives `err InvalidRecord`.

Byte level: Props/C10Bytes.lean (imported here) carries fidelity down to the bytes of the report
file through a model of quick-xml's `Reader` and attribute iterator (`Jacoco.Bytes.events`):
`C10_tokenizer_reads_back`, `C10_events_of_bytes`, `C10_fidelity_bytes`. `is_jacoco` is byte-level
already (`C10_is_jacoco_marker_in_first_256_bytes`).

Not part of the model (exercised by the correspondence run only): UTF-8 validation of names and
values, `BufReader` chunking, the `FxHashMap` iteration order inside one package (results are
compared as sorted lists), memory used up by many lines each below `cap`.
-/
import GrcovModel.Lemmas.Jacoco
import GrcovModel.Props.C10Bytes
namespace Grcov.Props.C10
open Grcov AList Grcov.Jacoco Grcov.Jacoco.Spec

/-- Fidelity (the property's quantifier: method names unique within their class): for every
well-formed serialisation `x` of a well-formed report – any interleaving of class and sourcefile
elements, any attribute order, any extra attributes and ignorable elements, either tag form – in
which every method has a `line` and every branch vector fits `cap`, the parser returns exactly the
records the report denotes (`sem (abs x)`: one record `package/file` per source file, `cb` taken
then `mb` not-taken entries for a branch line, count 1/0 for a statement line, `Class#method`
functions on the class's source file), with any fuel ≥ `enoughFuel`. -/
theorem C10_fidelity (cap : Nat) (x : XReport) (h : wf x = true) (hg : good cap x = true)
    (fuel : Nat) (hf : fuel ≥ enoughFuel (events x)) :
    parseCap cap (events x) fuel = .ok (sem (abs x)) :=
  parse_events cap x h hg fuel (by have := enoughFuel_gt (events x); omega)

/-- Fidelity WITHOUT any condition on method names (overloads allowed): the parser returns
`semL (abs x)`, which is `sem` except that the functions of a file are the pairs
`(Class#name, ⟨line, executed⟩)` of all its classes' methods in document order INSERTED one after
the other – a repeated name keeps one entry (`C10_repeated_method_last_wins`). -/
theorem C10_fidelity_overloads (cap : Nat) (x : XReport) (h : wfSrc x = true)
    (hg : good cap x = true) (fuel : Nat) (hf : fuel ≥ enoughFuel (events x)) :
    parseCap cap (events x) fuel = .ok (semL (abs x)) :=
  parse_eventsL cap x h hg fuel (by have := enoughFuel_gt (events x); omega)

/-- What the code does for repeated names, exactly: in the record of file `f` the function `k`
(= `Class#name`) carries the start line and executed flag of the LAST `<method>` with that name,
in document order, over all `<class>` elements mapped to `f` (`Item.funsFor f` lists, class by
class and method by method, the pairs `(Class#name, ⟨line, executed⟩)`; `lastVal` is the value of
the last pair with key `k`); the descriptor plays no role. No hypothesis. -/
theorem C10_repeated_method_last_wins (items : List Item) (f k : Name) :
    get? (covForL items f).functions k = lastVal (items.flatMap (Item.funsFor f)) k :=
  get?_insertAll _ k

/-- With unique names (the property's quantifier) nothing collapses: `semL = sem`. -/
theorem C10_unique_names_nothing_collapses (r : Report) (h : r.wf = true) : semL r = sem r :=
  semL_eq_sem r h

/-- Lines and branches do not depend on the methods: without any condition on method names the
parser's records carry exactly the paths, lines and branch vectors of `sem (abs x)`. -/
theorem C10_fidelity_lines_and_branches (cap : Nat) (x : XReport) (h : wfSrc x = true)
    (hg : good cap x = true) (fuel : Nat) (hf : fuel ≥ enoughFuel (events x)) :
    ∃ res, parseCap cap (events x) fuel = .ok res ∧ res.map lbOf = (sem (abs x)).map lbOf :=
  ⟨_, C10_fidelity_overloads cap x h hg fuel hf, semL_lines_branches _⟩

/-- `C10_fidelity` without the unique-name guard (every `<method>` yields its own function) -/
def C10_fidelity_without_name_guard_stmt : Prop :=
  ∀ (x : XReport), wfSrc x = true → good allocMax x = true →
    parse (events x) (enoughFuel (events x)) = .ok (sem (abs x))

/-- … is false of the code: two `<init>` in one class (line 3 executed, line 7 not executed) give
ONE function `A#<init>`, line 7, not executed (`exOverload`; the harness replays it on the real
parser: corpus case `overload`, an observation outside the property's quantifier). -/
theorem C10_fidelity_without_name_guard_false : ¬ C10_fidelity_without_name_guard_stmt := by
  intro h
  have := h exOverload (by decide +kernel) (by decide +kernel)
  revert this
  decide +kernel

/-- `enoughFuel` (2·events + 1) exceeds the number of events after empty-element expansion, which
is all the fuel a terminating run needs. -/
theorem C10_fuel_bound (evs : List XmlEvent) :
    enoughFuel evs = 2 * evs.length + 1 ∧ enoughFuel evs > (expand evs).length :=
  ⟨rfl, enoughFuel_gt evs⟩

/-- Ignored elements and attributes do not matter, nor do attribute order, tag form or escaping:
two well-formed serialisations that denote the same abstract report (method names may repeat)
parse to the same result. -/
theorem C10_ignored_do_not_matter (cap : Nat) (x y : XReport) (hx : wfSrc x = true)
    (hy : wfSrc y = true) (gx : good cap x = true) (h : abs x = abs y) :
    parseCap cap (events x) (enoughFuel (events x))
      = parseCap cap (events y) (enoughFuel (events y)) := by
  have gy : good cap y = true := by unfold good at gx ⊢; rw [← h]; exact gx
  rw [C10_fidelity_overloads cap x hx gx _ (Nat.le_refl _),
    C10_fidelity_overloads cap y hy gy _ (Nat.le_refl _), h]

/-- Attribute order does not matter to `get_xml_attribute` (every outcome, errors included), as
long as the keys are distinct, which XML requires, and the start tag has no attribute syntax error
(`NoErr`: no empty-key marker). With a repeated key the order does matter: the first one is
returned (`C10_repeated_attribute_first_match`). -/
theorem C10_attribute_order_irrelevant (key : Name) (attrs attrs' : List Attr)
    (nd : (attrs.map (·.1)).Nodup) (ne : NoErr attrs) (p : attrs.Perm attrs') :
    getAttr key attrs = getAttr key attrs' :=
  getAttr_perm key nd ne p

/-- Repeated attribute (since /repo ae885a6 the attributes are iterated `with_checks(false)`: a
repeated name is no longer `ParserError::Parse`): `get_xml_attribute` returns the FIRST attribute
with the key – its unescaped value, or `Parse` when its value has a bad entity – whatever follows
it: further attributes with the same key, even an attribute syntax error further to the right. -/
theorem C10_repeated_attribute_first_match (key raw : Name) (pre post : List Attr)
    (hp : NoErr pre) (hk : ∀ a ∈ pre, a.1 ≠ key) (hne : key ≠ []) :
    getAttr key (pre ++ (key, raw) :: post)
      = match unescape raw with
        | some s => .ok s
        | none => .error .parse :=
  getAttr_first_match key raw pre post hp hk hne

/-- An attribute SYNTAX error (no `=`, no quotes, unterminated value: the empty-key marker) that
the iteration reaches before it finds the key is `ParserError::Parse` – the check that was
switched off concerns repeated names only. -/
theorem C10_attribute_syntax_error_is_parse (key : Name) (pre post : List Attr) (hp : NoErr pre)
    (hk : ∀ a ∈ pre, a.1 ≠ key) (v : Name) :
    getAttr key (pre ++ ([], v) :: post) = .error .parse :=
  getAttr_error_before key pre post hp hk v

/-- `<line>`: the loop visits every attribute, so of a repeated `ci` / `cb` / `mb` / `nr` the LAST
one wins – appending one more of them to any attribute list that is read without error replaces
the value read so far (before ae885a6: `Parse`). -/
theorem C10_line_repeated_attribute_last_wins (attrs : List Attr) (acc acc' : LineAcc) (v : Name)
    (n : Nat) (h : lineAttrs attrs acc = .ok acc') :
    (parseUnsigned U64MAX v = some n →
      lineAttrs (attrs ++ [(sCi, v)]) acc = .ok { acc' with ci := some n }
      ∧ lineAttrs (attrs ++ [(sCb, v)]) acc = .ok { acc' with cb := some n }
      ∧ lineAttrs (attrs ++ [(sMb, v)]) acc = .ok { acc' with mb := some n })
    ∧ (parseUnsigned U32MAX v = some n →
      lineAttrs (attrs ++ [(sNr, v)]) acc = .ok { acc' with nr := some n }) := by
  refine ⟨fun hv => ⟨?_, ?_, ?_⟩, fun hv => ?_⟩ <;>
    (rw [lineAttrs_append, h]; simp [lineAttrs, hv, sCi, sCb, sMb, sNr])

/-- Review item 11 (the cost of the removed check was quadratic in the attributes of ONE element):
in the model the attribute work of an element is linear. `getAttrWork key a` / `lineAttrsWork a`
count the attributes the iterator yields during one `get_xml_attribute` call / the `<line>` loop;
each is at most the number of attributes, and an element is asked for at most two keys
(`<class>`: name, sourcefilename; `<method>`: name, line; `<counter>`: type, covered; `<package>`,
`<sourcefile>`: name), so the work per element is at most look-ups × attributes ≤ 2·|attrs|.
(Model-level statement; the running time itself is measured by C14's scaling stream and by the
c10 witness `many_attributes`.) -/
theorem C10_attribute_work_linear (keys : List Name) (attrs : List Attr) :
    attrWork keys attrs ≤ keys.length * attrs.length
    ∧ (∀ k, getAttrWork k attrs ≤ attrs.length)
    ∧ lineAttrsWork attrs ≤ attrs.length
    ∧ attrWork [sName, sSourcefilename] attrs ≤ 2 * attrs.length
    ∧ attrWork [sName, sLine] attrs ≤ 2 * attrs.length
    ∧ attrWork [sType, sCovered] attrs ≤ 2 * attrs.length :=
  ⟨attrWork_le keys attrs, fun k => getAttrWork_le k attrs, lineAttrsWork_le attrs,
   attrWork_le _ attrs, attrWork_le _ attrs, attrWork_le _ attrs⟩

/-- The order of `<class>` and `<sourcefile>` elements inside a package does not change what the
package denotes: the same files, for each file the same lines and branches and the same set of
functions (with `C10_fidelity`: the same records from the parser, up to order). -/
theorem C10_element_order_irrelevant (items items' : List Item) (p : items.Perm items')
    (nd : (items.filterMap Item.srcName?).Nodup) (f : Name) :
    (f ∈ fileNames items ↔ f ∈ fileNames items') ∧
    (covFor items f).lines = (covFor items' f).lines ∧
    (covFor items f).branches = (covFor items' f).branches ∧
    ((covFor items f).functions).Perm (covFor items' f).functions := by
  refine ⟨mem_fileNames_perm p f, ?_, ?_, ?_⟩
  · simp only [covFor, linesFor_perm p nd f]
  · simp only [covFor, linesFor_perm p nd f]
  · exact p.flatMap_right _

/-- What a `<line>` means, entry by entry: in a source file with distinct line numbers, a line
with `mb + cb > 0` is a branch line – its vector is `cb` taken entries followed by `mb` not-taken
entries and it has no line count – and any other line has count 1 if `ci > 0`, else 0, and no
branch vector. -/
theorem C10_line_meaning (ls : List Line) (nd : (ls.map (·.nr)).Nodup) (l : Line) (hl : l ∈ ls) :
    if l.isBranch then
      get? (branchCov ls) l.nr = some (List.replicate l.cb true ++ List.replicate l.mb false)
        ∧ get? (lineCov ls) l.nr = none
    else
      get? (lineCov ls) l.nr = some (if l.ci > 0 then 1 else 0)
        ∧ get? (branchCov ls) l.nr = none :=
  line_meaning ls nd l hl

/-- What a `<method>` means when `Class#method` is unique within the file (`nd`, the property's
quantifier): every method `m` of every class `c` of a package is the function `Class#method`
(simple, `$`-qualified class name) on the record of the class's source file, starting at the
method's `line`, executed iff its METHOD counter has `covered > 0`. For repeated names see
`C10_repeated_method_last_wins`. -/
theorem C10_method_meaning (items : List Item) (c : Class) (m : Method) (hc : Item.cls c ∈ items)
    (hm : m ∈ c.methods) (nd : ((items.flatMap (Item.funsFor c.file)).map (·.1)).Nodup) :
    get? (covFor items c.file).functions (c.simple ++ cHash :: m.name)
      = some ⟨m.line.getD 0, m.executed⟩ :=
  method_meaning items c m hc hm nd

/-- Termination, for EVERY event sequence (well nested or not, truncated anywhere, with tokenizer
errors, any element names): with fuel `enoughFuel evs` or more the parser returns – a result or an
error; `diverge` never occurs. (This is what C14/C07 need from the JaCoCo reader.) -/
theorem C10_always_terminates (evs : List XmlEvent) (fuel : Nat) (hf : fuel ≥ enoughFuel evs) :
    parse evs fuel ≠ .diverge :=
  parse_terminates evs fuel hf

/-- … and so for every `cap` (`parse = parseCap allocMax`). -/
theorem C10_always_terminates_any_cap (cap : Nat) (evs : List XmlEvent) (fuel : Nat)
    (hf : fuel ≥ enoughFuel evs) : parseCap cap evs fuel ≠ .diverge :=
  parseCap_terminates cap evs fuel hf

/-- The one crash site: a `<line>` with all four attributes crashes (`alloc`: "capacity overflow"
panic above isize::MAX, allocation abort below) exactly when `cb + mb > cap`; and in a
`<sourcefile>` whose earlier content is well formed and fits, the first well-formed `<line>` that
does not fit ends the run with `alloc`, whatever follows it. -/
theorem C10_oversized_branch_vector_crashes (cap : Nat) :
    (∀ acc ci cb mb nr, commitLine cap acc ⟨some ci, some cb, some mb, some nr⟩ = .alloc
        ↔ cb + mb > cap) ∧
    (∀ (pre : List SSeg) (bad : SSeg), (∀ s ∈ pre, s.wf = true) → (∀ s ∈ pre, s.fits cap = true) →
      bad.wf = true → bad.fits cap = false →
      ∀ (fuel : Nat) (rest : List XmlEvent) (acc : SrcAcc),
        fuel > (expand (pre.flatMap SSeg.events)).length →
        sourcefileLoop cap fuel
          (expand (pre.flatMap SSeg.events) ++ (expand bad.events ++ rest)) acc = .alloc) :=
  ⟨commitLine_alloc_iff cap, src_body_alloc cap⟩

/-- A `<method>` without a `line` attribute rejects the report: inside a `<class>` whose earlier
content is well formed (methods with `line`), the first well-formed `<method>` that has no `line`
attribute ends the run with `Err(InvalidRecord)`, whatever follows it. -/
theorem C10_method_without_line_rejects_the_report (cls : Name) (pre : List CSeg) (bad : CSeg)
    (hb : ∀ s ∈ pre, s.wf = true) (hl : ∀ s ∈ pre, s.lined = true)
    (hbad : bad.wf = true) (hnl : bad.lined = false)
    (fuel : Nat) (rest : List XmlEvent) (fns : List (Name × Fn))
    (hf : fuel > (expand (pre.flatMap CSeg.events)).length) :
    classLoop cls fuel (expand (pre.flatMap CSeg.events) ++ (expand bad.events ++ rest)) fns
      = .err .invalidRecord :=
  class_body_noline cls pre bad hb hl hbad hnl fuel rest fns hf

/-- Which missing attributes reject the report and which have a default. On an element whose
attribute keys are distinct: `<method>` without `line` or without `name`, `<counter>` (inside a
method) without `type`, a METHOD counter without `covered`, `<class>`/`<sourcefile>` without
`name` ⇒ `Err(InvalidRecord)` (for `<line>` see `C10_line_attribute_error_kinds`: `ci`, `cb`,
`mb`, `nr` are all required, `mi` is not read; for `<package>`
`C10_missing_package_name_is_invalid_record`). Defaults: a `<class>` without `sourcefilename` is
mapped to `<top-level class>.java`; a method without METHOD counter is not executed; `desc`,
`missed` and every other attribute are never read. -/
theorem C10_missing_attribute_outcomes (n : Name) (a : List Attr) (rest : List XmlEvent)
    (fuel : Nat) (nd : keysOk a = true) :
    (localName n = sMethod → (∃ nm, hasAttr a sName nm = true) → hasNoKey a sLine = true →
      ∀ cls fns, classLoop cls (fuel + 1) (.start n a :: rest) fns = .err .invalidRecord) ∧
    (localName n = sMethod → hasNoKey a sName = true →
      ∀ cls fns, classLoop cls (fuel + 1) (.start n a :: rest) fns = .err .invalidRecord) ∧
    (localName n = sCounter → hasNoKey a sType = true →
      ∀ ex, methodLoop (fuel + 1) (.start n a :: rest) ex = .err .invalidRecord) ∧
    (localName n = sCounter → hasAttr a sType sMETHOD = true → hasNoKey a sCovered = true →
      ∀ ex, methodLoop (fuel + 1) (.start n a :: rest) ex = .err .invalidRecord) ∧
    (localName n = sClass ∨ localName n = sSourcefile → hasNoKey a sName = true →
      ∀ cap pkg m, packageLoop cap pkg (fuel + 1) (.start n a :: rest) m = .err .invalidRecord) ∧
    (hasNoKey a sSourcefilename = true → ∀ top, sourceFileOf a top = .ok (top ++ sDotJava)) ∧
    (∀ m : XMethod, m.body.filterMap MSeg.covered? = [] → m.abs.executed = false) :=
  ⟨fun hn ⟨nm, h1⟩ h2 cls fns => method_without_line cls n a nm rest fuel fns hn nd h1 h2,
   fun hn h1 cls fns => method_without_name cls n a rest fuel fns hn nd h1,
   fun hn h1 ex => counter_without_type n a rest fuel ex hn nd h1,
   fun hn h1 h2 ex => method_counter_without_covered n a rest fuel ex hn nd h1 h2,
   fun hn h1 cap pkg m => class_or_sourcefile_without_name cap pkg n a rest fuel m hn nd h1,
   fun h top => class_without_sourcefilename a top nd h,
   fun m h => method_without_counter m h⟩

/-- `sourcefilename` (since /repo 276971e; former finding C10-undecodable-sourcefilename-falls-back:
`.unwrap_or(..)` swallowed every error of the look-up, so a class whose `sourcefilename` could not be
read – a bad entity, an attribute syntax error before it, in the real code also a value that is not
valid UTF-8 as in an ISO-8859-1 report – was silently filed under `<TopLevelClass>.java`):
* a `<class>` whose `sourcefilename` is PRESENT BUT UNREADABLE (the look-up fails with anything but
  "no such attribute") makes the reader return that error for the whole report, before the class
  body is read;
* the look-up fails with "no such attribute" (`InvalidRecord`) only when no attribute has that key,
  and then – and only then – the fallback `<TopLevelClass>.java` is used;
* a readable `sourcefilename` is used as it is. -/
theorem C10_unreadable_sourcefilename_rejects_the_report (cap : Nat) (pkg n : Name) (a : List Attr)
    (rest : List XmlEvent) (fuel : Nat) (m : List (Name × Cov)) (fq top f : Name) (k : ErrKind) :
    (localName n = sClass → getAttr sName a = .ok fq → getAttr sSourcefilename a = .error k →
      k ≠ .invalidRecord → packageLoop cap pkg (fuel + 1) (.start n a :: rest) m = .err k)
    ∧ (getAttr sSourcefilename a = .error .invalidRecord →
        (∀ x ∈ a, x.1 ≠ sSourcefilename) ∧ sourceFileOf a top = .ok (top ++ sDotJava))
    ∧ (keysOk a = true → hasNoKey a sSourcefilename = true → sourceFileOf a top = .ok (top ++ sDotJava))
    ∧ (getAttr sSourcefilename a = .ok f → sourceFileOf a top = .ok f) :=
  ⟨fun hn h1 h2 hk => class_unreadable_sourcefilename cap pkg n a rest fuel m fq k hn h1 h2 hk,
   fun h => ⟨getAttrAux_invalidRecord sSourcefilename a h, by unfold sourceFileOf; rw [h]⟩,
   fun nd h => class_without_sourcefilename a top nd h,
   fun h => by unfold sourceFileOf; rw [h]⟩

/-- End of input inside a `<package>`, `<class>`, `<method>` or `<sourcefile>` element is
`ParserError::Parse` (every nested loop has an `Eof` arm since 34e25d5). -/
theorem C10_eof_inside_element_is_parse_error (fuel : Nat) :
    (∀ cap pkg m, packageLoop cap pkg (fuel + 1) [] m = .err .parse) ∧
    (∀ cls fns, classLoop cls (fuel + 1) [] fns = .err .parse) ∧
    (∀ ex, methodLoop (fuel + 1) [] ex = .err .parse) ∧
    (∀ cap acc, sourcefileLoop cap (fuel + 1) [] acc = .err .parse) :=
  ⟨fun cap pkg m => packageLoop_eof cap pkg fuel m, fun cls fns => classLoop_eof cls fuel fns,
   fun ex => methodLoop_eof fuel ex, fun cap acc => sourcefileLoop_eof cap fuel acc⟩

/-- The former hang witness: the report
`<report><package name="p"><class name="p/A"><method name="m" line="1">` cut at that point is a
`Parse` error with any fuel ≥ 5 (its `enoughFuel` is 9). -/
theorem C10_truncated_report_is_parse_error (fuel : Nat) :
    parse exTruncated (fuel + 5) = .err .parse :=
  exTruncated_parse_error fuel

/-- A `<package>` without a `name` attribute is `ParserError::InvalidRecord`. -/
theorem C10_missing_package_name_is_invalid_record (n : Name) (a : List Attr)
    (rest : List XmlEvent) (fuel : Nat) (hn : localName n = sPackage)
    (nd : keysOk a = true) (h : hasNoKey a sName = true) :
    parse (.start n a :: rest) (fuel + 1) = .err .invalidRecord :=
  parse_package_without_name n a rest fuel hn nd h

/-- `<line>` attributes: whatever fails while the attributes are read (an attribute syntax error,
a value that is not an unsigned number of the right width) is `ParserError::Parse`; a missing
`ci`/`cb`/`mb`/`nr` is `ParserError::InvalidRecord`. -/
theorem C10_line_attribute_error_kinds (cap : Nat) (attrs : List Attr) (acc : SrcAcc) (la : LineAcc)
    (k : ErrKind) :
    (lineAttrs attrs {} = .error k → k = .parse) ∧
    (commitLine cap acc la = .err k →
      k = .invalidRecord ∧ (la.ci = none ∨ la.cb = none ∨ la.mb = none ∨ la.nr = none)) :=
  ⟨lineAttrs_error_kind attrs {} k, commitLine_error_kind cap acc la k⟩

/-- The conditions of `wf` on names and numbers are met by ordinary XML: the minimally escaped
form of any name unescapes to it, and the plain decimal numeral of any number within the bound is
read back as that number. -/
theorem C10_canonical_renderings_are_read_back (s : Name) (bound n : Nat) (h : n ≤ bound) :
    unescape (escape s) = some s ∧ parseUnsigned bound (decimal n) = some n :=
  ⟨unescape_escape s, parseUnsigned_decimal bound n h⟩

/-- Class-name helpers: the simple name is what follows the last `/` (`$`-qualified nested names
are kept), the fallback file name uses what precedes the first `$`. -/
theorem C10_class_name_parts (p t : Name) :
    (cSlash ∉ t → afterLast cSlash (p ++ cSlash :: t) = t) ∧
    (cSlash ∉ t → afterLast cSlash t = t) ∧
    (cDollar ∉ p → beforeFirst cDollar (p ++ cDollar :: t) = p) ∧
    (cDollar ∉ t → beforeFirst cDollar t = t) :=
  ⟨afterLast_append cSlash p t, afterLast_no_sep cSlash t, beforeFirst_append cDollar p t,
   beforeFirst_no_sep cDollar t⟩

/-- `is_jacoco` (since 82d1c8b): a file is taken for a JaCoCo report iff the DTD marker (dash,
two slashes, JACOCO, two slashes, DTD) occurs as a contiguous byte string within its first
min(256, length) bytes – a shorter file is read whole, nothing else is required (no UTF-8 check) –
and only the first 256 bytes matter. -/
theorem C10_is_jacoco_marker_in_first_256_bytes (file : List Nat) :
    (isJacoco file = true ↔ ∃ pre post, file.take 256 = pre ++ jacocoMarker ++ post) ∧
    isJacoco file = isJacoco (file.take 256) :=
  ⟨isJacoco_iff file, isJacoco_take file⟩

/-! ### non-vacuity -/

/-- `exNoisy` (declaration, doctype, `<report>`, session info, a `<group>` wrapper, counters of
other types, text, shuffled and extra attributes, `&lt;init&gt;`, `&#53;`, `+1`, `005`, `j:line`,
source file before its classes, nested class, class without `sourcefilename`, default package) and
`exPlain` are well-formed serialisations of the same report … -/
example : wf exNoisy = true ∧ wf exPlain = true ∧ abs exNoisy = abs exPlain
    ∧ exNoisy ≠ exPlain ∧ good 3 exNoisy = true ∧ good 2 exNoisy = false := by decide +kernel

/-- the overload witness: well formed apart from the repeated name; the parser returns ONE function
`A#<init>` (line 7, not executed) where the report has two (`sem`: line 3 executed, line 7 not) -/
example : wfSrc exOverload = true ∧ wf exOverload = false ∧ good allocMax exOverload = true
    ∧ parse (events exOverload) (enoughFuel (events exOverload))
        = .ok [(exOverloadPath, { functions := [(exOverloadInit, ⟨7, false⟩)] })]
    ∧ sem (abs exOverload)
        = [(exOverloadPath, { functions := [(exOverloadInit, ⟨3, true⟩), (exOverloadInit, ⟨7, false⟩)] })]
    ∧ lastVal [(exOverloadInit, ⟨3, true⟩), (exOverloadInit, ⟨7, false⟩)] exOverloadInit = some ⟨7, false⟩ := by
  decide +kernel

/-- a DTD-valid report with a `<method>` without `line` is rejected as a whole; the
2^64-1-entry branch vector is the `alloc` outcome (with `cap = allocMax`: the capacity-overflow
panic), although both serialisations are well formed -/
example : wf exNoLine = true ∧ good allocMax exNoLine = false
    ∧ parse (events exNoLine) (enoughFuel (events exNoLine)) = .err .invalidRecord
    ∧ wf exBig = true ∧ good allocMax exBig = false
    ∧ parse (events exBig) (enoughFuel (events exBig)) = .alloc := by decide +kernel

/-- … the model run on the 42 events of the noisy one returns the two records the report denotes -/
example : parse (events exNoisy) (enoughFuel (events exNoisy)) = .ok exExpected
    ∧ sem (abs exNoisy) = exExpected := by decide +kernel

/-- the truncated witness at its `enoughFuel` -/
example : enoughFuel exTruncated = 9 ∧ parse exTruncated (enoughFuel exTruncated) = .err .parse := by
  decide +kernel

/-- error kinds on concrete malformed elements: `<package>` without name; `<line nr="x" …>`;
`<line>` without `nr`; an attribute syntax error (the empty-key marker) before the wanted one -/
example :
    parse [.start sPackage []] 3 = .err .invalidRecord
    ∧ parse [.start sPackage [(sName, [112])], .start sSourcefile [(sName, [115])],
        .empty sLine [(sNr, [120]), (sCi, [49]), (sCb, [48]), (sMb, [48])]] 9 = .err .parse
    ∧ parse [.start sPackage [(sName, [112])], .start sSourcefile [(sName, [115])],
        .empty sLine [(sCi, [49]), (sCb, [48]), (sMb, [48])]] 9 = .err .invalidRecord
    ∧ parse [.start sPackage [([97], [49]), ([], []), (sName, [112])], .end_ sPackage] 5 = .err .parse := by
  decide +kernel

/-- repeated attributes since /repo ae885a6 (before: `Err(Parse)` for each of these reports):
`<package a="1" a="2" name="p" name="q">` is the package `p` (first `name`);
`<line nr="1" ci="0" mb="0" cb="0" ci="5" nr="7"/>` is line 7 with count 1 (last `ci`, last `nr`);
an attribute syntax error AFTER the wanted attribute of a `<package>` is never reached;
`<class name="p/A" sourcefilename="&x;">` (unreadable: bad entity) rejects the report (since
/repo 276971e; before, `A#m` was reported on `p/A.java`), without the attribute the fallback is used -/
example :
    parse [.start sPackage [([97], [49]), ([97], [50]), (sName, [112]), (sName, [113])],
        .start sSourcefile [(sName, [65])],
        .empty sLine [(sNr, [49]), (sCi, [48]), (sMb, [48]), (sCb, [48]), (sCi, [53]), (sNr, [55])],
        .end_ sSourcefile, .end_ sPackage] 13
      = .ok [([112, 47, 65], { lines := [(7, 1)] })]
    ∧ parse [.start sPackage [(sName, [112]), ([], [])], .end_ sPackage] 5 = .ok []
    ∧ parse [.start sPackage [(sName, [112])],
        .start sClass [(sName, [112, 47, 65]), (sSourcefilename, [38, 120, 59])],
        .empty sMethod [(sName, [109]), (sLine, [49])], .end_ sClass, .end_ sPackage] 11 = .err .parse
    ∧ parse [.start sPackage [(sName, [112])], .start sClass [(sName, [112, 47, 65])],
        .empty sMethod [(sName, [109]), (sLine, [49])], .end_ sClass, .end_ sPackage] 11
      = .ok [([112, 47, 65, 46, 106, 97, 118, 97], { functions := [([65, 35, 109], ⟨1, false⟩)] })]
    ∧ getAttrWork sName [([97], [49]), ([97], [50]), (sName, [112]), (sName, [113])] = 3
    ∧ lineAttrsWork [(sNr, [49]), (sCi, [48]), (sMb, [48]), (sCb, [48]), (sCi, [53]), (sNr, [55])] = 6 := by
  decide +kernel

/-- the hypotheses of `C10_repeated_attribute_first_match` / `C10_attribute_order_irrelevant` on the
attribute list above -/
example : NoErr [([97], [49]), ([97], [50])] ∧ (∀ a ∈ [(([97], [49]) : Attr), ([97], [50])], a.1 ≠ sName)
    ∧ sName ≠ [] := by
  refine ⟨?_, ?_, by decide⟩ <;> intro a ha <;> simp at ha <;> rcases ha with rfl | rfl <;> decide

/-- `is_jacoco` on short inputs: the bare marker is accepted, the marker minus its last byte is not -/
example : isJacoco jacocoMarker = true ∧ isJacoco (jacocoMarker.take 13) = false := by
  decide +kernel

end Grcov.Props.C10
