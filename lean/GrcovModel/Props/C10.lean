/-
C10 — JaCoCo report fidelity. Property theorems about `Jacoco.parse`, the event-level model of
`parse_jacoco_xml_report` (model: GrcovModel/Jacoco.lean; what a report means and which event
sequences serialise it: GrcovModel/Spec/Jacoco.lean; helper lemmas: GrcovModel/Lemmas/Jacoco.lean).

Quantifiers. A serialisation is an `XReport`: the abstract report together with every choice the
writer is free to make – order of `<class>`/`<sourcefile>` elements, the complete attribute list
of each element in any order with any extra attributes, the escaping of names and the spelling of
numbers (anything the attribute reader accepts), empty-element vs start/end tags, namespace
prefixes, and arbitrary ignorable events (text, comments, declaration, doctype, session info,
group wrappers, counters of other types, unknown elements) between the elements the parser uses.
`wf x` is the well-formedness of that serialisation and of the report it denotes (`abs x`):
distinct attribute keys, method names unique within their class, line numbers unique within a
source file, source-file names unique within a package, `Class#method` unique within a file.
All theorems hold for every such `x`, of any size, and for every fuel from `enoughFuel` upwards
(`enoughFuel evs = 2·|evs| + 1`).

Not part of the model (exercised by the correspondence run only): the quick-xml tokenizer
(bytes ↔ events), UTF-8 validation of names, the `FxHashMap` iteration order inside one package
(results are compared as sorted lists).
-/
import GrcovModel.Lemmas.Jacoco
namespace Grcov.Props.C10
open Grcov AList Grcov.Jacoco Grcov.Jacoco.Spec

/-- Fidelity: for every well-formed serialisation `x` of a well-formed report – any interleaving
of class and sourcefile elements, any attribute order, any extra attributes and ignorable elements,
either tag form – the parser returns exactly the records the report denotes (`sem (abs x)`:
one record `package/file` per source file, `cb` taken then `mb` not-taken entries for a branch
line, count 1/0 for a statement line, `Class#method` functions on the class's source file),
with any fuel ≥ `enoughFuel`. -/
theorem C10_fidelity (x : XReport) (h : wf x = true) (fuel : Nat)
    (hf : fuel ≥ enoughFuel (events x)) : parse (events x) fuel = .ok (sem (abs x)) :=
  parse_events x h fuel (by have := enoughFuel_gt (events x); omega)

/-- `enoughFuel` (2·events + 1) exceeds the number of events after empty-element expansion, which
is all the fuel a terminating run needs. -/
theorem C10_fuel_bound (evs : List XmlEvent) :
    enoughFuel evs = 2 * evs.length + 1 ∧ enoughFuel evs > (expand evs).length :=
  ⟨rfl, enoughFuel_gt evs⟩

/-- Ignored elements and attributes do not matter, nor do attribute order, tag form or escaping:
two well-formed serialisations that denote the same abstract report parse to the same result. -/
theorem C10_ignored_do_not_matter (x y : XReport) (hx : wf x = true) (hy : wf y = true)
    (h : abs x = abs y) :
    parse (events x) (enoughFuel (events x)) = parse (events y) (enoughFuel (events y)) := by
  rw [C10_fidelity x hx _ (Nat.le_refl _), C10_fidelity y hy _ (Nat.le_refl _), h]

/-- Attribute order does not matter to `get_xml_attribute` (every outcome, errors included), as
long as the keys are distinct, which XML requires. -/
theorem C10_attribute_order_irrelevant (key : Name) (attrs attrs' : List Attr)
    (nd : (attrs.map (·.1)).Nodup) (p : attrs.Perm attrs') :
    getAttr key attrs = getAttr key attrs' :=
  getAttr_perm key nd p

/-- The order of `<class>` and `<sourcefile>` elements inside a package does not change what the
package denotes: the same files, for each file the same lines and branches and the same set of
functions (with `C10_fidelity`: the same records from the parser, up to order). -/
theorem C10_element_order_irrelevant (items items' : List Item) (p : items.Perm items')
    (nd : (items.filterMap Item.srcName?).Nodup) (f : Name) :
    (f ∈ fileNames items ↔ f ∈ fileNames items') ∧
    (covFor items f).lines = (covFor items' f).lines ∧
    (covFor items f).branches = (covFor items' f).branches ∧
    ((covFor items f).functions).Perm (covFor items' f).functions := by
  refine ⟨mem_fileNames_perm p f, ?_, ?_, ?_⟩
  · simp only [covFor, linesFor_perm p nd f]
  · simp only [covFor, linesFor_perm p nd f]
  · exact p.flatMap_right _

/-- What a `<line>` means, entry by entry: in a source file with distinct line numbers, a line
with `mb + cb > 0` is a branch line – its vector is `cb` taken entries followed by `mb` not-taken
entries and it has no line count – and any other line has count 1 if `ci > 0`, else 0, and no
branch vector. -/
theorem C10_line_meaning (ls : List Line) (nd : (ls.map (·.nr)).Nodup) (l : Line) (hl : l ∈ ls) :
    if l.isBranch then
      get? (branchCov ls) l.nr = some (List.replicate l.cb true ++ List.replicate l.mb false)
        ∧ get? (lineCov ls) l.nr = none
    else
      get? (lineCov ls) l.nr = some (if l.ci > 0 then 1 else 0)
        ∧ get? (branchCov ls) l.nr = none :=
  line_meaning ls nd l hl

/-- What a `<method>` means: every method `m` of every class `c` of a package is the function
`Class#method` (simple, `$`-qualified class name) on the record of the class's source file,
starting at the method's `line`, executed iff its METHOD counter has `covered > 0`. -/
theorem C10_method_meaning (items : List Item) (c : Class) (m : Method) (hc : Item.cls c ∈ items)
    (hm : m ∈ c.methods) (nd : ((items.flatMap (Item.funsFor c.file)).map (·.1)).Nodup) :
    get? (covFor items c.file).functions (c.simple ++ cHash :: m.name)
      = some ⟨m.line, m.executed⟩ :=
  method_meaning items c m hc hm nd

/-- Termination, for EVERY event sequence (well nested or not, truncated anywhere, with tokenizer
errors, any element names): with fuel `enoughFuel evs` or more the parser returns – a result or an
error; `diverge` never occurs. (This is what C14/C07 need from the JaCoCo reader.) -/
theorem C10_always_terminates (evs : List XmlEvent) (fuel : Nat) (hf : fuel ≥ enoughFuel evs) :
    parse evs fuel ≠ .diverge :=
  parse_terminates evs fuel hf

/-- End of input inside a `<package>`, `<class>`, `<method>` or `<sourcefile>` element is
`ParserError::Parse` (every nested loop has an `Eof` arm since 34e25d5). -/
theorem C10_eof_inside_element_is_parse_error (fuel : Nat) :
    (∀ pkg m, packageLoop pkg (fuel + 1) [] m = .err .parse) ∧
    (∀ cls fns, classLoop cls (fuel + 1) [] fns = .err .parse) ∧
    (∀ ex, methodLoop (fuel + 1) [] ex = .err .parse) ∧
    (∀ acc, sourcefileLoop (fuel + 1) [] acc = .err .parse) :=
  ⟨fun pkg m => packageLoop_eof pkg fuel m, fun cls fns => classLoop_eof cls fuel fns,
   fun ex => methodLoop_eof fuel ex, fun acc => sourcefileLoop_eof fuel acc⟩

/-- The former hang witness: the report
`<report><package name="p"><class name="p/A"><method name="m" line="1">` cut at that point is a
`Parse` error with any fuel ≥ 5 (its `enoughFuel` is 9). -/
theorem C10_truncated_report_is_parse_error (fuel : Nat) :
    parse exTruncated (fuel + 5) = .err .parse :=
  exTruncated_parse_error fuel

/-- A `<package>` without a `name` attribute is `ParserError::InvalidRecord`. -/
theorem C10_missing_package_name_is_invalid_record (n : Name) (a : List Attr)
    (rest : List XmlEvent) (fuel : Nat) (hn : localName n = sPackage)
    (nd : nodupKeys a = true) (h : hasNoKey a sName = true) :
    parse (.start n a :: rest) (fuel + 1) = .err .invalidRecord :=
  parse_package_without_name n a rest fuel hn nd h

/-- `<line>` attributes: whatever fails while the attributes are read (a repeated key, a value
that is not an unsigned number of the right width) is `ParserError::Parse`; a missing
`ci`/`cb`/`mb`/`nr` is `ParserError::InvalidRecord`. -/
theorem C10_line_attribute_error_kinds (attrs : List Attr) (acc : SrcAcc) (la : LineAcc)
    (k : ErrKind) :
    (lineAttrs [] attrs {} = .error k → k = .parse) ∧
    (commitLine acc la = .error k →
      k = .invalidRecord ∧ (la.ci = none ∨ la.cb = none ∨ la.mb = none ∨ la.nr = none)) :=
  ⟨lineAttrs_error_kind attrs [] {} k, commitLine_error_kind acc la k⟩

/-- The conditions of `wf` on names and numbers are met by ordinary XML: the minimally escaped
form of any name unescapes to it, and the plain decimal numeral of any number within the bound is
read back as that number. -/
theorem C10_canonical_renderings_are_read_back (s : Name) (bound n : Nat) (h : n ≤ bound) :
    unescape (escape s) = some s ∧ parseUnsigned bound (decimal n) = some n :=
  ⟨unescape_escape s, parseUnsigned_decimal bound n h⟩

/-- Class-name helpers: the simple name is what follows the last `/` (`$`-qualified nested names
are kept), the fallback file name uses what precedes the first `$`. -/
theorem C10_class_name_parts (p t : Name) :
    (cSlash ∉ t → afterLast cSlash (p ++ cSlash :: t) = t) ∧
    (cSlash ∉ t → afterLast cSlash t = t) ∧
    (cDollar ∉ p → beforeFirst cDollar (p ++ cDollar :: t) = p) ∧
    (cDollar ∉ t → beforeFirst cDollar t = t) :=
  ⟨afterLast_append cSlash p t, afterLast_no_sep cSlash t, beforeFirst_append cDollar p t,
   beforeFirst_no_sep cDollar t⟩

/-- `is_jacoco` (since 82d1c8b): a file is taken for a JaCoCo report iff the DTD marker (dash,
two slashes, JACOCO, two slashes, DTD) occurs as a contiguous byte string within its first
min(256, length) bytes – a shorter file is read whole, nothing else is required (no UTF-8 check) –
and only the first 256 bytes matter. -/
theorem C10_is_jacoco_marker_in_first_256_bytes (file : List Nat) :
    (isJacoco file = true ↔ ∃ pre post, file.take 256 = pre ++ jacocoMarker ++ post) ∧
    isJacoco file = isJacoco (file.take 256) :=
  ⟨isJacoco_iff file, isJacoco_take file⟩

/-! ### non-vacuity -/

/-- `exNoisy` (declaration, doctype, `<report>`, session info, a `<group>` wrapper, counters of
other types, text, shuffled and extra attributes, `&lt;init&gt;`, `&#53;`, `+1`, `005`, `j:line`,
source file before its classes, nested class, class without `sourcefilename`, default package) and
`exPlain` are well-formed serialisations of the same report … -/
example : wf exNoisy = true ∧ wf exPlain = true ∧ abs exNoisy = abs exPlain
    ∧ exNoisy ≠ exPlain := by decide +kernel

/-- … the model run on the 42 events of the noisy one returns the two records the report denotes -/
example : parse (events exNoisy) (enoughFuel (events exNoisy)) = .ok exExpected
    ∧ sem (abs exNoisy) = exExpected := by decide +kernel

/-- the truncated witness at its `enoughFuel` -/
example : enoughFuel exTruncated = 9 ∧ parse exTruncated (enoughFuel exTruncated) = .err .parse := by
  decide +kernel

/-- error kinds on concrete malformed elements: `<package>` without name; `<line nr="x" …>`;
`<line>` without `nr`; a repeated attribute before the wanted one -/
example :
    parse [.start sPackage []] 3 = .err .invalidRecord
    ∧ parse [.start sPackage [(sName, [112])], .start sSourcefile [(sName, [115])],
        .empty sLine [(sNr, [120]), (sCi, [49]), (sCb, [48]), (sMb, [48])]] 9 = .err .parse
    ∧ parse [.start sPackage [(sName, [112])], .start sSourcefile [(sName, [115])],
        .empty sLine [(sCi, [49]), (sCb, [48]), (sMb, [48])]] 9 = .err .invalidRecord
    ∧ parse [.start sPackage [([97], [49]), ([97], [50]), (sName, [112])]] 3 = .err .parse := by
  decide +kernel

/-- `is_jacoco` on short inputs: the bare marker is accepted, the marker minus its last byte is not -/
example : isJacoco jacocoMarker = true ∧ isJacoco (jacocoMarker.take 13) = false := by
  decide +kernel

end Grcov.Props.C10
