/-
C03 — report fidelity, part Html: the HTML report byte for byte (`Writers/HtmlBytes.lean`: Tera's
rendering of base/file/index/macros.html for the contexts `gen_html`, `gen_index` and
`gen_dir_index` build; floats `Writers/HtmlF64.lean`; template text `Writers/HtmlConsts.lean`).

`parseFilePage` / `parseIndexPage` are STRICT readers of a page: every byte of template text is
checked, every interpolated value is read back (names and source text by resolving Tera's
entities, numbers as decimals, figures as printed), and the redundant copies on a page (three line
numbers per row, colour words, aria-label and count cell; repeated severities and percentages of an
index row) must agree. The theorems say that for EVERY context – any names, any source bytes
(invalid UTF-8, CR LF, control characters: the rows are `Docs.htmlRows`), any counts (the model's
counts are naturals: 2^64-1 is read back exactly), any statistics, any precision, with and without
`--branch`, `--abs-link-prefix`, date, bundled resources – the reader returns exactly what went
in: every line number, count (`none` = not instrumented, never confused with 0), source text,
name, link and covered/total pair.

What is NOT proved here: that the printed percentages are close to covered/total (they are, bit for
bit, Rust's `f64` figures – `HtmlF64` is tied on every run; their distance to the exact rational is
C13's `printedOK`, judged in the harness), and that the model IS the code (the tie: every `.html`
file of generated sites byte for byte).
-/
import GrcovModel.Lemmas.WritersHtmlBytes
import GrcovModel.Lemmas.WritersDocs
namespace Grcov.Props.C03
open Grcov AList Grcov.Writers Grcov.Writers.Docs Grcov.Writers.HtmlBytes
open Grcov.Stats (HStats htmlStats)

/-- File page: the strict reader returns title, stylesheet link, breadcrumb (links and labels),
the summary figures, every row (line number, count or "not instrumented", source text) and the
date – for every context. -/
theorem C03_htmlb_file_page_read_back (fc : FileCtx) : parseFilePage (filePage fc) = some (fileViewOf fc) :=
  parseFilePage_filePage fc

/-- Index page (global or directory): the reader returns the kind, the summary, and for every row
its link, its name, the unrounded line percentage and the (severity, printed percentage, covered,
total) cells – for every context. -/
theorem C03_htmlb_index_page_read_back (ic : IndexCtx) : parseIndexPage (indexPage ic) = some (indexViewOf ic) :=
  parseIndexPage_indexPage ic

/-- The page of a result, read back: one row per line of the (lossily decoded) source, numbered
from 1 in order; row `i` carries the count of line `i+1` exactly when that line is instrumented
and "not instrumented" otherwise, and the text of that line. Nothing added, dropped, renumbered;
a count is never altered, whatever its size. -/
theorem C03_htmlb_page_rows (o : Opts) (rel : Path) (cov : Cov) (src parent fname : List Nat) (fc : FileCtx)
    (h : fileCtx o rel cov src = some (parent, fname, fc)) :
    ∃ v, parseFilePage (filePage fc) = some v ∧ v.rows.length = (lossyLines src).length ∧
      ∀ i, v.rows[i]? = ((lossyLines src)[i]?).map fun t => (⟨i + 1, get? cov.lines (i + 1), t⟩ : RowView) := by
  refine ⟨fileViewOf fc, parseFilePage_filePage fc, ?_, ?_⟩
  all_goals
    unfold fileCtx at h
    split at h
    · simp only [Option.some.injEq, Prod.mk.injEq] at h
      obtain ⟨_, _, rfl⟩ := h
      simp only [fileViewOf, htmlRows, List.length_map, rowsFrom_length, List.getElem?_map, rowsFrom_getElem?]
      try intro i
      try cases (lossyLines src)[i]? <;> simp [rowView_entry, Nat.add_comm]
    · simp at h

/-- An instrumented line inside the source is shown with its exact count … -/
theorem C03_htmlb_instrumented_line_shown (o : Opts) (rel : Path) (cov : Cov) (src parent fname : List Nat)
    (fc : FileCtx) (h : fileCtx o rel cov src = some (parent, fname, fc)) (l c : Nat) (t : List Nat) (hl : 1 ≤ l)
    (hc : get? cov.lines l = some c) (ht : (lossyLines src)[l - 1]? = some t) :
    ∃ v, parseFilePage (filePage fc) = some v ∧ v.rows[l - 1]? = some ⟨l, some c, t⟩ := by
  obtain ⟨v, hv, _, hr⟩ := C03_htmlb_page_rows o rel cov src parent fname fc h
  refine ⟨v, hv, ?_⟩
  have e : l - 1 + 1 = l := by omega
  rw [hr (l - 1), ht, e, hc]; rfl

/-- … and a line that is not instrumented is shown as such (never as a count, not even 0), and
conversely: the count cell of row `l` is empty of a count iff line `l` has no entry. -/
theorem C03_htmlb_uninstrumented_iff (o : Opts) (rel : Path) (cov : Cov) (src parent fname : List Nat)
    (fc : FileCtx) (h : fileCtx o rel cov src = some (parent, fname, fc)) (l : Nat) (t : List Nat) (hl : 1 ≤ l)
    (ht : (lossyLines src)[l - 1]? = some t) :
    ∃ v r, parseFilePage (filePage fc) = some v ∧ v.rows[l - 1]? = some r ∧
      (r.count = none ↔ get? cov.lines l = none) := by
  obtain ⟨v, hv, _, hr⟩ := C03_htmlb_page_rows o rel cov src parent fname fc h
  have e : l - 1 + 1 = l := by omega
  refine ⟨v, ⟨l, get? cov.lines l, t⟩, hv, ?_, Iff.rfl⟩
  rw [hr (l - 1), ht, e]; rfl

/-- The names on the page of a result: title and active breadcrumb are the file name, the
breadcrumb labels are `top_level` and the parent directory, unaltered whatever they contain. -/
theorem C03_htmlb_page_names (o : Opts) (rel : Path) (cov : Cov) (src parent fname : List Nat) (fc : FileCtx)
    (h : fileCtx o rel cov src = some (parent, fname, fc)) :
    ∃ v, parseFilePage (filePage fc) = some v ∧ v.title = fname ∧ v.summary.current = fname ∧
      v.summary.crumbs.map (·.2) = [topLabel, parent] := by
  refine ⟨fileViewOf fc, parseFilePage_filePage fc, ?_⟩
  unfold fileCtx at h
  split at h
  · simp only [Option.some.injEq, Prod.mk.injEq] at h
    obtain ⟨rfl, rfl, rfl⟩ := h
    simp [fileViewOf, summaryOf]
  · simp at h

/-- the covered / total pairs a summary shows -/
def figurePairs (s : Summary) : List (Nat × Nat) := s.figures.map fun f => (f.covered, f.total)

/-- The summary figures of every page are the statistics of its context: lines, functions and,
with `--branch`, branches – as numbers, exactly (C13's totals reach the page unaltered). -/
theorem C03_htmlb_summary_numbers (pc : PageCtx) :
    figurePairs (summaryOf pc) =
      [(pc.stats.coveredLines, pc.stats.totalLines), (pc.stats.coveredFuns, pc.stats.totalFuns)] ++
        (if pc.conf.branch then [(pc.stats.coveredBranches, pc.stats.totalBranches)] else []) := by
  unfold figurePairs summaryOf figureOf
  cases hb : pc.conf.branch <;> simp [hb]

/-- … and on the page of a result those statistics are `get_stats` of that result. -/
theorem C03_htmlb_page_summary_is_get_stats (o : Opts) (rel : Path) (cov : Cov) (src parent fname : List Nat)
    (fc : FileCtx) (h : fileCtx o rel cov src = some (parent, fname, fc)) :
    ∃ v, parseFilePage (filePage fc) = some v ∧
      figurePairs v.summary =
        [((htmlStats cov).coveredLines, (htmlStats cov).totalLines), ((htmlStats cov).coveredFuns, (htmlStats cov).totalFuns)] ++
          (if o.conf.branch then [((htmlStats cov).coveredBranches, (htmlStats cov).totalBranches)] else []) := by
  refine ⟨fileViewOf fc, parseFilePage_filePage fc, ?_⟩
  unfold fileCtx at h
  split at h
  · simp only [Option.some.injEq, Prod.mk.injEq] at h
    obtain ⟨_, _, rfl⟩ := h
    exact C03_htmlb_summary_numbers _
  · simp at h

/-- the name, link and covered / total pairs a row of an index shows -/
def idxNumbers (v : IdxView) : List Nat × List Nat × List (Nat × Nat) :=
  (v.name, v.url, v.cells.map fun c => (c.2.2.1, c.2.2.2))

/-- Index page: one row per entry, in order, each with its name, the link the template builds for
it and the covered / total pairs of ITS statistics – none added, dropped, reordered or attributed
to another entry. -/
theorem C03_htmlb_index_rows (ic : IndexCtx) :
    ∃ v, parseIndexPage (indexPage ic) = some v ∧
      v.rows.map idxNumbers = ic.rows.map fun r =>
        (r.name, rowUrl ic.listsDirs r,
          [(r.stats.coveredLines, r.stats.totalLines), (r.stats.coveredFuns, r.stats.totalFuns)] ++
            (if ic.page.conf.branch then [(r.stats.coveredBranches, r.stats.totalBranches)] else [])) := by
  refine ⟨indexViewOf ic, parseIndexPage_indexPage ic, ?_⟩
  simp only [indexViewOf, List.map_map]
  apply List.map_congr_left
  intro r _
  simp only [Function.comp, idxNumbers, idxViewOf, cellOf]
  cases hb : ic.page.conf.branch <;> simp [hb]

/-- `gen_html`: when a page is written for a job, it is the page of that job's context: its rows
are the job's source lines with the job's counts (through `C03_htmlb_page_rows`), and it is written
where `Docs.htmlDest` says. -/
theorem C03_htmlb_gen_html_page (o : Opts) (r : Res) (src : List Nat) (g g' : Global) (w : Written)
    (h : genHtml o r (some src) g = some (g', some w)) :
    ∃ parent fname fc, fileCtx o r.rel r.cov src = some (parent, fname, fc) ∧ htmlDest r.rel = some w.1 ∧
      w.2 = filePage fc ∧ g' = getDirsResult g parent fname (htmlStats r.cov) := by
  unfold genHtml at h
  split at h
  · simp at h
  · simp only at h
    split at h
    · rename_i parent fname fc dest hfc hd
      simp only [Option.some.injEq, Prod.mk.injEq] at h
      obtain ⟨rfl, rfl⟩ := h
      refine ⟨parent, fname, fc, hfc, hd, rfl, ?_⟩
      unfold fileCtx at hfc
      split at hfc
      · simp only [Option.some.injEq, Prod.mk.injEq] at hfc
        obtain ⟨_, _, rfl⟩ := hfc
        rfl
      · simp at hfc
    · simp at h

/-- The whole report: every `.html` file that `output_html` leaves below the output directory is
accepted by one of the two strict readers (and what they return is what the theorems above say). -/
theorem C03_htmlb_site_pages_readable (o : Opts) (jobs : List (Res × Option (List Nat)))
    (files : List (List Name × List Nat)) (h : site o jobs = some files) :
    ∀ f ∈ files, (parseFilePage f.2).isSome = true ∨ (parseIndexPage f.2).isSome = true := by
  intro f hf
  rcases site_files o jobs files h f hf with ⟨fc, e⟩ | ⟨ic, e⟩
  · left; rw [e, parseFilePage_filePage]; rfl
  · right; rw [e, parseIndexPage_indexPage]; rfl

/-! Non-vacuity: a concrete job with a hostile name, CR LF, an invalid byte, the largest count, an
uninstrumented and a zero line; its page is read back as stated. -/

def exOpts : Opts := ⟨{ branch := true, precision := 2, date := some [50, 48, 50, 54], bundled := true }, none⟩
/-- `s/<a>&.c` -/
def exRel : Path := [115, 47, 60, 97, 62, 38, 46, 99]
def exCov : Cov := { lines := [(1, 18446744073709551615), (3, 0)], branches := [(1, [true, false])], functions := [] }
/-- `a<b\r\n\xff\nz` -/
def exSrc : List Nat := [97, 60, 98, 13, 10, 255, 10, 122]

example : ∃ p f fc, fileCtx exOpts exRel exCov exSrc = some (p, f, fc) ∧
    (parseFilePage (filePage fc)).map (·.rows) =
      some [⟨1, some 18446744073709551615, [97, 60, 98]⟩, ⟨2, none, [239, 191, 189]⟩, ⟨3, some 0, [122]⟩] :=
  ⟨_, _, _, rfl, by decide +kernel⟩

example : (parseIndexPage (indexPage (globalIndexCtx exOpts.conf
    ⟨[([115], ⟨[], ⟨2, 1, 0, 0, 2, 1⟩, none⟩)], ⟨2, 1, 0, 0, 2, 1⟩, none⟩))).map (fun v => v.rows.map idxNumbers) =
      some [([115], [46, 47, 115, 47, 105, 110, 100, 101, 120, 46, 104, 116, 109, 108], [(1, 2), (0, 0), (1, 2)])] := by
  decide +kernel

end Grcov.Props.C03
