/-
C16 — exclusion markers remove exactly the marked lines and branches.
Property theorems about `FileFilter.create` (model of src/file_filter.rs 39-109) and
`FileFilter.applyFilters` (model of the loop at src/path_rewriting.rs 373-386).
Helper lemmas: GrcovModel/Lemmas/FileFilter.lean.

Quantification: all option subsets `o`, all source texts – represented by the list `ms` of the
six regex match bits of every piece of `file.split('\n')` (regex matching is a trusted parameter,
computed independently by the harness; any placement of markers, nested, repeated, unterminated,
start and stop on one line, overlapping line and branch regions, is some `ms`) – all line numbers
`n` and all coverage records `c`. Line splitting is modelled (`splitLF`, `stripCR`, `sourceBits`,
`createSrc` with the six regexes as predicates): section "Line splitting" below. The hypothesis `ms.length ≤ U32MAX` is the
type of the line number (`(number + 1) as u32`): a source of 2^32 or more lines is out of scope.

Status. Every statement is proved at full strength, with no guard: `C16_lines`, `C16_branches`
(removed iff own marker or own region), `C16_independent` (each dimension depends only on its own
three options and three marker bits), the coverage effect of the filter list, nothing else
changes, no options / unreadable source ⇒ identity, only lines of the file are touched, each at
most once and in order.
The piece after a final newline. `split('\n')` yields one more piece than the text has lines when
the text ends with LF (and one empty piece for the empty text); the pass numbers it `n+1` and
treats it like an empty source line (`C16_phantom_line`): a coverage key `n+1` – data about a line
the source does not have – is removed iff an empty line would be (marker matching the empty
string, or a region left open at the end of the text). "Only lines of the file are touched"
therefore holds for the PIECES (`C16_only_source_lines`, `C16_only_pieces`) and, read strictly
(lines as every other reader counts them, `realLines`), is false by exactly this one key
(`C16_only_real_lines_false`, `…_partial` for texts without final newline; finding candidate
C16-line-after-final-newline).
History: on the tree before /repo commit c7806a2 the first three were false (a single-line marker
on a line lying only in a region of the other kind was ignored: the region flags were tested
first and the single-line markers were an `else` of both flags). `witnessA` / `witnessB` below
are the former counter-examples; they are now examples of the theorems and corpus cases of the
harness.
-/
import GrcovModel.Lemmas.FileFilter
namespace Grcov.Props.C16
open Grcov AList Grcov.FileFilter

/-! ## The exclusion rule -/

/-- Line coverage of source line `n` is removed iff `n` matches the line marker or lies in a
region from a start-marker line (inclusive) to the next later stop-marker line (exclusive). -/
theorem C16_lines (o : Opts) (ms : List Bits) (n : Nat) (hlen : ms.length ≤ U32MAX)
    (h1 : 1 ≤ n) (h2 : n ≤ ms.length) :
    removesLine (create o true ms) n ↔ lineMarker o ms n ∨ inLineRegion o ms n :=
  removesLine_iff o ms hlen n h1 h2

/-- The same rule for branch coverage, with the three branch markers. -/
theorem C16_branches (o : Opts) (ms : List Bits) (n : Nat) (hlen : ms.length ≤ U32MAX)
    (h1 : 1 ≤ n) (h2 : n ≤ ms.length) :
    removesBranch (create o true ms) n ↔ brMarker o ms n ∨ inBrRegion o ms n :=
  removesBranch_iff o ms hlen n h1 h2

/-- The two dimensions act independently: what happens to the line data of any `n` depends only
on the three line options and the three line-marker bits of every source line – the branch
options and branch markers may differ arbitrarily – and symmetrically for the branch data. -/
theorem C16_independent (o o' : Opts) (ms ms' : List Bits) (n : Nat) (hlen : ms.length ≤ U32MAX) :
    ((o.line = o'.line ∧ o.start = o'.start ∧ o.stop = o'.stop) → ms.map lineDim = ms'.map lineDim →
      (removesLine (create o true ms) n ↔ removesLine (create o' true ms') n)) ∧
    ((o.brLine = o'.brLine ∧ o.brStart = o'.brStart ∧ o.brStop = o'.brStop) →
      ms.map brDim = ms'.map brDim →
      (removesBranch (create o true ms) n ↔ removesBranch (create o' true ms') n)) := by
  constructor
  · intro ho hm
    have hl : ms'.length = ms.length := by
      have := congrArg List.length hm; simpa using this.symm
    by_cases hn : 1 ≤ n ∧ n ≤ ms.length
    · rw [removesLine_iff o ms hlen n hn.1 hn.2,
        removesLine_iff o' ms' (by omega) n hn.1 (by omega)]
      exact lineSpec_congr o o' ms ms' ho hm n
    · constructor
      · intro h; exact absurd (removes_range o ms hlen true n (Or.inl h)) hn
      · intro h
        have := removes_range o' ms' (by omega) true n (Or.inl h)
        exact absurd (by omega) hn
  · intro ho hm
    have hl : ms'.length = ms.length := by
      have := congrArg List.length hm; simpa using this.symm
    by_cases hn : 1 ≤ n ∧ n ≤ ms.length
    · rw [removesBranch_iff o ms hlen n hn.1 hn.2,
        removesBranch_iff o' ms' (by omega) n hn.1 (by omega)]
      exact brSpec_congr o o' ms ms' ho hm n
    · constructor
      · intro h; exact absurd (removes_range o ms hlen true n (Or.inr h)) hn
      · intro h
        have := removes_range o' ms' (by omega) true n (Or.inr h)
        exact absurd (by omega) hn

/-- All four outcomes occur and are decided dimension by dimension: a line loses its line data,
its branch data, both or neither exactly as `C16_lines` and `C16_branches` say. -/
theorem C16_four_outcomes (o : Opts) (ms : List Bits) (n : Nat) (hlen : ms.length ≤ U32MAX)
    (h1 : 1 ≤ n) (h2 : n ≤ ms.length) :
    (FT.both n ∈ create o true ms ↔
      (lineMarker o ms n ∨ inLineRegion o ms n) ∧ (brMarker o ms n ∨ inBrRegion o ms n)) ∧
    (FT.line n ∈ create o true ms ↔
      (lineMarker o ms n ∨ inLineRegion o ms n) ∧ ¬ (brMarker o ms n ∨ inBrRegion o ms n)) ∧
    (FT.branch n ∈ create o true ms ↔
      ¬ (lineMarker o ms n ∨ inLineRegion o ms n) ∧ (brMarker o ms n ∨ inBrRegion o ms n)) :=
  four_outcomes o ms hlen n h1 h2

/-! ## Effect on the coverage record (full strength) -/

/-- `rewrite_paths` removes the line count of exactly the lines named by a `Line`/`Both` entry;
every other line keeps its count. -/
theorem C16_coverage_lines (o : Opts) (r : Bool) (ms : List Bits) (c : Cov) (n : Nat) :
    get? (rewrite o r ms c).lines n
      = if removesLine (create o r ms) n then none else get? c.lines n :=
  applyFilters_lines _ c n

/-- … and the branch vector of exactly the lines named by a `Branch`/`Both` entry. -/
theorem C16_coverage_branches (o : Opts) (r : Bool) (ms : List Bits) (c : Cov) (n : Nat) :
    get? (rewrite o r ms c).branches n
      = if removesBranch (create o r ms) n then none else get? c.branches n :=
  applyFilters_branches _ c n

/-- Nothing else in the record changes: the functions are untouched. -/
theorem C16_functions_unchanged (o : Opts) (r : Bool) (ms : List Bits) (c : Cov) :
    (rewrite o r ms c).functions = c.functions :=
  applyFilters_functions _ c

/-- Only pieces of the file are touched: a key that is 0 or beyond the number of pieces of
`split('\n')` is never removed, whatever the markers (an unterminated region ends with the file).
`ms.length` is the number of PIECES: for a text that ends with a line feed that is one more than
its number of lines – see `C16_phantom_line`, `C16_only_real_lines_false`. -/
theorem C16_only_source_lines (o : Opts) (r : Bool) (ms : List Bits) (n : Nat)
    (hlen : ms.length ≤ U32MAX)
    (h : removesLine (create o r ms) n ∨ removesBranch (create o r ms) n) :
    1 ≤ n ∧ n ≤ ms.length :=
  removes_range o ms hlen r n h

/-- The filter list is in increasing line order and names every line at most once (so `Line n`,
`Branch n` and `Both n` are mutually exclusive for one `n`). -/
theorem C16_filter_list_sorted (o : Opts) (r : Bool) (ms : List Bits) (hlen : ms.length ≤ U32MAX) :
    ((create o r ms).map FT.num).Pairwise (· < ·) :=
  create_sorted o r ms hlen

/-- No `--excl-line`, `--excl-start`, `--excl-br-line`, `--excl-br-start` option (stop markers
alone exclude nothing): the record is returned unchanged, whatever the source. -/
theorem C16_no_options_identity (o : Opts) (h : o.inert = true) (r : Bool) (ms : List Bits)
    (c : Cov) : rewrite o r ms c = c := by
  unfold rewrite; rw [create_inert o h]; rfl

/-- Unreadable source (missing, a directory, not UTF-8): the record is returned unchanged. -/
theorem C16_unreadable_identity (o : Opts) (ms : List Bits) (c : Cov) :
    rewrite o false ms c = c := by
  unfold rewrite; rw [create_unreadable]; rfl

/-- The early return of `create` is only an optimisation: without the four options the pass
itself would emit nothing. -/
theorem C16_early_return_redundant (o : Opts) (ms : List Bits) :
    create o true ms = emit 0 (scan o Flags.init ms) :=
  create_readable o ms

/-- Region semantics, spelled out: a line that matches both the start and the stop marker is in
the region it (re)opens; the line after an open region's stop line is outside. -/
theorem C16_region_step (start stop : Nat → Prop) (n : Nat) :
    inRegion start stop (n + 1) ↔ start (n + 1) ∨ (inRegion start stop n ∧ ¬ stop (n + 1)) :=
  inRegion_succ start stop n

/-! ## Line splitting, and the piece after a final newline -/

/-- `file.split('\n')` on a text that ends with a line feed: the pieces of the text before that
line feed, then one empty piece; the match bits follow; the text has as many lines as the part
before the final line feed has pieces. -/
theorem C16_final_newline_pieces (rx : Rx) (body : List Nat) :
    splitLF (body ++ [10]) = splitLF body ++ [[]] ∧
    sourceBits rx (body ++ [10]) = sourceBits rx body ++ [rx.bits []] ∧
    realLines (body ++ [10]) = (sourceBits rx body).length := by
  refine ⟨splitLF_snoc_lf body, sourceBits_snoc_lf rx body, ?_⟩
  rw [realLines_snoc_lf, sourceBits_length]

/-- For a source that ends with LF (`body ++ "\n"`, `n` = number of its lines): the final newline
changes nothing for the lines `1..n`, and key `n+1` is treated as an empty source line – its line
data is removed iff the line marker matches the empty string, or the start marker does, or the
line region is still open after line `n` and the stop marker does not match the empty string; the
same for branch data with the branch markers. -/
theorem C16_phantom_line (o : Opts) (rx : Rx) (body : List Nat)
    (hlen : (sourceBits rx body).length + 1 ≤ U32MAX) :
    (∀ n, n ≤ (sourceBits rx body).length →
      (removesLine (createSrc o rx (some (body ++ [10]))) n
        ↔ removesLine (createSrc o rx (some body)) n) ∧
      (removesBranch (createSrc o rx (some (body ++ [10]))) n
        ↔ removesBranch (createSrc o rx (some body)) n)) ∧
    (removesLine (createSrc o rx (some (body ++ [10]))) ((sourceBits rx body).length + 1) ↔
      hit o.line (rx.line []) = true ∨ hit o.start (rx.start []) = true ∨
        (inLineRegion o (sourceBits rx body) (sourceBits rx body).length
          ∧ hit o.stop (rx.stop []) = false)) ∧
    (removesBranch (createSrc o rx (some (body ++ [10]))) ((sourceBits rx body).length + 1) ↔
      hit o.brLine (rx.brLine []) = true ∨ hit o.brStart (rx.brStart []) = true ∨
        (inBrRegion o (sourceBits rx body) (sourceBits rx body).length
          ∧ hit o.brStop (rx.brStop []) = false)) := by
  simp only [createSrc, sourceBits_snoc_lf]
  exact ⟨fun n hn => ⟨removesLine_append_le o _ _ n hlen hn, removesBranch_append_le o _ _ n hlen hn⟩,
    removesLine_append_last o _ _ hlen, removesBranch_append_last o _ _ hlen⟩

/-- With markers that do not match an empty line (every literal marker): key `n+1` is removed iff
the region is left open at the end of the text. -/
theorem C16_phantom_line_open_region (o : Opts) (rx : Rx) (body : List Nat)
    (hlen : (sourceBits rx body).length + 1 ≤ U32MAX)
    (he : rx.bits [] = ⟨false, false, false, false, false, false⟩) :
    (removesLine (createSrc o rx (some (body ++ [10]))) ((sourceBits rx body).length + 1) ↔
      inLineRegion o (sourceBits rx body) (sourceBits rx body).length) ∧
    (removesBranch (createSrc o rx (some (body ++ [10]))) ((sourceBits rx body).length + 1) ↔
      inBrRegion o (sourceBits rx body) (sourceBits rx body).length) := by
  have h := C16_phantom_line o rx body hlen
  simp only [Rx.bits, Bits.mk.injEq] at he
  obtain ⟨e1, e2, e3, e4, e5, e6⟩ := he
  rw [h.2.1, h.2.2, e1, e2, e3, e4, e5, e6]
  simp [hit]

/-- On source level: whatever is removed is a piece of the source, i.e. at most one past its last
line; nothing is removed when the source cannot be read. -/
theorem C16_only_pieces (o : Opts) (rx : Rx) (src : Option (List Nat)) (n : Nat)
    (hlen : ∀ s, src = some s → (splitLF s).length ≤ U32MAX)
    (h : removesLine (createSrc o rx src) n ∨ removesBranch (createSrc o rx src) n) :
    ∃ s, src = some s ∧ 1 ≤ n ∧ n ≤ realLines s + 1 :=
  removes_range_src o rx src n hlen h

/-- The strict reading of "nothing else in the file's data changes": only keys that are lines of
the source (as every other reader counts them) are ever removed. -/
def C16_only_real_lines_stmt : Prop :=
  ∀ (o : Opts) (rx : Rx) (src : List Nat) (n : Nat), (splitLF src).length ≤ U32MAX →
    removesLine (createSrc o rx (some src)) n ∨ removesBranch (createSrc o rx (some src)) n →
    1 ≤ n ∧ n ≤ realLines src

/-- the start marker `S`, nothing else configured -/
def witnessRx : Rx :=
  ⟨fun _ => false, fun l => l == [83], fun _ => false, fun _ => false, fun _ => false, fun _ => false⟩

/-- It is false of the code: the one-line source `S\n` with `--excl-start S` removes key 2. -/
theorem C16_only_real_lines_false : ¬ C16_only_real_lines_stmt := by
  intro h
  have := h ⟨false, true, false, false, false, false⟩ witnessRx [83, 10] 2 (by decide)
    (Or.inl (by decide))
  revert this
  decide

/-- It holds for every text that does not end with a line feed (and is not empty): exactly the
guard the witness violates. -/
theorem C16_only_real_lines_partial (o : Opts) (rx : Rx) (src : List Nat) (n : Nat)
    (hlen : (splitLF src).length ≤ U32MAX) (h1 : src ≠ []) (h2 : src.getLast? ≠ some 10)
    (h : removesLine (createSrc o rx (some src)) n ∨ removesBranch (createSrc o rx (some src)) n) :
    1 ≤ n ∧ n ≤ realLines src := by
  rw [realLines_no_final_lf src h1 h2, ← sourceBits_length rx]
  exact removes_range o (sourceBits rx src) (by rw [sourceBits_length]; exact hlen) true n h

/-! ## Non-vacuity: concrete sources that satisfy the hypotheses and exercise every branch -/

/-- all six options configured -/
def allOpts : Opts := ⟨true, true, true, true, true, true⟩
/-- a line on which no regex matches -/
def plain : Bits := ⟨false, false, false, false, false, false⟩
/-- former counter-example A: line 1 starts a branch region, line 2 carries the line marker -/
def witnessA : List Bits := [{ plain with brStart := true }, { plain with line := true }]
/-- former counter-example B: line 1 starts a line region, line 2 carries the branch-line marker -/
def witnessB : List Bits := [{ plain with start := true }, { plain with brLine := true }]
/-- former counter-example C: one line with the start marker and the branch-line marker -/
def witnessC : List Bits := [{ plain with start := true, brLine := true }]

/-- the marker inside the region of the other kind is honoured (before c7806a2: `B1,B2`,
`L1,L2`, `L1`) -/
example : create allOpts true witnessA = [.branch 1, .both 2] ∧
    create allOpts true witnessB = [.line 1, .both 2] ∧
    create allOpts true witnessC = [.both 1] := by decide

example : rewrite allOpts true witnessA
        { lines := [(1, 3), (2, 5)], branches := [(2, [true, false])], functions := [] }
      = { lines := [(1, 3)], branches := [], functions := [] } := by decide

/-- nine lines: line marker; start; plain; stop+start on one line of an open region (closes and
reopens); stop+brStart; line marker inside the branch region; brStop+line+brLine (both
single-line markers); start (never terminated); brLine inside the line region -/
def exSrc : List Bits :=
  [ { plain with line := true },
    { plain with start := true },
    plain,
    { plain with stop := true, start := true },
    { plain with stop := true, brStart := true },
    { plain with line := true },
    { plain with brStop := true, line := true, brLine := true },
    { plain with start := true },
    { plain with brLine := true } ]

example : create allOpts true exSrc
    = [.line 1, .line 2, .line 3, .line 4, .branch 5, .both 6, .both 7, .line 8, .both 9] := by
  decide

/-- the hypotheses of `C16_lines` hold for line 6 of `exSrc` and its right-hand side is true
there through the marker alone (line 6 is in no line region: line 5 stops it) -/
example : exSrc.length ≤ U32MAX ∧ 1 ≤ 6 ∧ 6 ≤ exSrc.length ∧ lineMarker allOpts exSrc 6 :=
  ⟨by decide, by decide, by decide, rfl, _, rfl, rfl⟩

/-- the hypotheses of `C16_independent`: `exSrc` and a copy without any branch marker agree on
the line dimension -/
example : exSrc.map lineDim
    = (exSrc.map fun m => { m with brLine := false, brStart := false, brStop := false }).map lineDim := by
  decide

/-- partial option sets: only `--excl-br-start` ⇒ an unterminated branch region to the end -/
example : create ⟨false, false, false, false, true, false⟩ true exSrc
    = [.branch 5, .branch 6, .branch 7, .branch 8, .branch 9] := by decide

/-- only stop options ⇒ nothing; unreadable ⇒ nothing -/
example : create ⟨false, false, true, false, false, true⟩ true exSrc = [] ∧
    create allOpts false exSrc = [] := by decide

/-- a record with keys inside and beyond the file: exactly the listed keys go -/
example : rewrite allOpts true exSrc
      { lines := [(1, 1), (4, 2), (5, 0), (7, 3), (8, 9), (10, 7)],
        branches := [(1, [true]), (5, [false]), (6, [true]), (7, [true, false]), (10, [true])],
        functions := [([102], ⟨1, true⟩)] }
    = { lines := [(5, 0), (10, 7)], branches := [(1, [true]), (10, [true])],
        functions := [([102], ⟨1, true⟩)] } := by decide

/-- line splitting: `a\r\n` + `b` + LF + LF  is  `a`, `b`, ``, `` (CR of CRLF removed, two empty
pieces); `S\n` with `--excl-start S`: `L1,L2` – key 2 is the piece after the final newline; without
the final newline: `L1` -/
example : (splitLF [97, 13, 10, 98, 10, 10]).map stripCR = [[97], [98], [], []] ∧
    realLines [97, 13, 10, 98, 10, 10] = 3 ∧ realLines [] = 0 ∧ realLines [97] = 1 ∧
    createSrc ⟨false, true, false, false, false, false⟩ witnessRx (some [83, 10]) = [.line 1, .line 2] ∧
    createSrc ⟨false, true, false, false, false, false⟩ witnessRx (some [83]) = [.line 1] := by
  decide

/-- the hypotheses of `C16_phantom_line_open_region` hold for the witness -/
example : (sourceBits witnessRx [83]).length + 1 ≤ U32MAX ∧
    witnessRx.bits [] = ⟨false, false, false, false, false, false⟩ := by decide

end Grcov.Props.C16
