/-
C16 — exclusion markers remove exactly the marked lines and branches.
Property theorems about `FileFilter.create` (model of src/file_filter.rs 39-109) and
`FileFilter.applyFilters` (model of the loop at src/path_rewriting.rs 373-386).
Helper lemmas: GrcovModel/Lemmas/FileFilter.lean.

Quantification: all option subsets `o`, all source texts – represented by the list `ms` of the
six regex match bits of every piece of `file.split('\n')` (regex matching is a trusted parameter,
computed independently by the harness; any placement of markers, nested, repeated, unterminated,
start and stop on one line, overlapping line and branch regions, is some `ms`) – all line numbers
`n` and all coverage records `c`. Line splitting is modelled (`splitLF`, `stripCR`, `sourceBits`,
`createSrc` with the six regexes as predicates): section "Line splitting" below. The hypothesis `ms.length ≤ U32MAX` is the
type of the line number (`(number + 1) as u32`): a source of 2^32 or more lines is out of scope.

Status. Every statement is proved at full strength, with no guard: `C16_lines`, `C16_branches`
(removed iff own marker or own region), `C16_independent` (each dimension depends only on its own
three options and three marker bits), the coverage effect of the filter list, nothing else
changes, no options / unreadable source ⇒ identity, only lines of the file are touched, each at
most once and in order.
The piece after a final newline. Until /repo f854858 the pass split with the plain `split('\n')`,
which yields one more piece than the text has lines when the text ends with LF; the pass numbered
it `n+1` and treated it like an empty source line, so a coverage key `n+1` – data about a line the
source does not have – was removed when a region was left open at the end of the text (former
finding C16-line-after-final-newline, fixed; witness `S\n` with `--excl-start S`: corpus/C16). Now
exactly one final LF is dropped before splitting (`stripFinalLF`, `splitSrc`): for every NON-EMPTY
text the pieces are exactly its lines as every other reader counts them (`C16_phantom_line`:
there is none; `C16_final_newline_pieces`; `C16_only_real_lines`, full for non-empty texts). A text
ending in two newlines has an empty last LINE (it is a line: `realLines` counts it). What remains
is the empty text: it has no line but still one empty piece, so key 1 is removed iff the line or
start marker matches the empty string (`C16_empty_file`); hence the statement over ALL texts is
still false by exactly that case (`C16_only_real_lines_false`).
Parts. `Props/C16Run.lean`: the markers in a whole run (`Cli.RunAll.run`, tied to the real binary byte
for byte). `Props/C16Filter.lean`: the markers and `--filter covered|uncovered` – the decision is taken
on the record AFTER exclusion (`C16_then_filter*`, review 2 item 7) – and the wiring of the three
`--excl-br-*` options, which does not look at `--branch` (`C16_main_branch_flag_irrelevant`,
`C16_run_jacoco_branch_flag_irrelevant`: JaCoCo reports carry branch data with and without it);
the documentation observation of review item 36 (stop line "part of this section") is recorded there.
`Props/C16Regex.lean`: the six options as PATTERNS of the `regex` crate – parser, specification and matcher of a stated subset of its syntax in the model (`C16_regex_*`), the rule above restated with patterns instead of bits, literal / anchored / `LCOV_EXCL_*` markers, invalid values (exit 2).
Specification vocabulary (review 2 item 33): `lineAt`, `Marks`, `inRegion`, `lineMarker` … `inBrRegion`,
`removesLine`, `removesBranch`, `lineDim`, `brDim` occur in the statements and are run by no driver op –
on purpose: they are the property text written down (quantifier form), not mirrors of Rust code. Their
independent counterpart in the harness is `spec_of` / `in_region` (harness/c16/src/main.rs), evaluated on
the implementation's own output for every case. Every executable mirror of the code (`create`, `scan`,
`emit`, `applyFilters`, `rewrite`, `splitSrc`, `stripCR`, `createSrc`, `realLines`, `thenFilter`) is a
driver op of `gm_c16`.
History: on the tree before /repo commit c7806a2 the first three were false (a single-line marker
on a line lying only in a region of the other kind was ignored: the region flags were tested
first and the single-line markers were an `else` of both flags). `witnessA` / `witnessB` below
are the former counter-examples; they are now examples of the theorems and corpus cases of the
harness.
-/
import GrcovModel.Lemmas.FileFilter
import GrcovModel.Props.C16Run
import GrcovModel.Props.C16Filter
import GrcovModel.Props.C16Regex
namespace Grcov.Props.C16
open Grcov AList Grcov.FileFilter

/-! ## The exclusion rule -/

/-- Line coverage of source line `n` is removed iff `n` matches the line marker or lies in a
region from a start-marker line (inclusive) to the next later stop-marker line (exclusive). -/
theorem C16_lines (o : Opts) (ms : List Bits) (n : Nat) (hlen : ms.length ≤ U32MAX)
    (h1 : 1 ≤ n) (h2 : n ≤ ms.length) :
    removesLine (create o true ms) n ↔ lineMarker o ms n ∨ inLineRegion o ms n :=
  removesLine_iff o ms hlen n h1 h2

/-- The same rule for branch coverage, with the three branch markers. -/
theorem C16_branches (o : Opts) (ms : List Bits) (n : Nat) (hlen : ms.length ≤ U32MAX)
    (h1 : 1 ≤ n) (h2 : n ≤ ms.length) :
    removesBranch (create o true ms) n ↔ brMarker o ms n ∨ inBrRegion o ms n :=
  removesBranch_iff o ms hlen n h1 h2

/-- The two dimensions act independently: what happens to the line data of any `n` depends only
on the three line options and the three line-marker bits of every source line – the branch
options and branch markers may differ arbitrarily – and symmetrically for the branch data. -/
theorem C16_independent (o o' : Opts) (ms ms' : List Bits) (n : Nat) (hlen : ms.length ≤ U32MAX) :
    ((o.line = o'.line ∧ o.start = o'.start ∧ o.stop = o'.stop) → ms.map lineDim = ms'.map lineDim →
      (removesLine (create o true ms) n ↔ removesLine (create o' true ms') n)) ∧
    ((o.brLine = o'.brLine ∧ o.brStart = o'.brStart ∧ o.brStop = o'.brStop) →
      ms.map brDim = ms'.map brDim →
      (removesBranch (create o true ms) n ↔ removesBranch (create o' true ms') n)) := by
  constructor
  · intro ho hm
    have hl : ms'.length = ms.length := by
      have := congrArg List.length hm; simpa using this.symm
    by_cases hn : 1 ≤ n ∧ n ≤ ms.length
    · rw [removesLine_iff o ms hlen n hn.1 hn.2,
        removesLine_iff o' ms' (by omega) n hn.1 (by omega)]
      exact lineSpec_congr o o' ms ms' ho hm n
    · constructor
      · intro h; exact absurd (removes_range o ms hlen true n (Or.inl h)) hn
      · intro h
        have := removes_range o' ms' (by omega) true n (Or.inl h)
        exact absurd (by omega) hn
  · intro ho hm
    have hl : ms'.length = ms.length := by
      have := congrArg List.length hm; simpa using this.symm
    by_cases hn : 1 ≤ n ∧ n ≤ ms.length
    · rw [removesBranch_iff o ms hlen n hn.1 hn.2,
        removesBranch_iff o' ms' (by omega) n hn.1 (by omega)]
      exact brSpec_congr o o' ms ms' ho hm n
    · constructor
      · intro h; exact absurd (removes_range o ms hlen true n (Or.inr h)) hn
      · intro h
        have := removes_range o' ms' (by omega) true n (Or.inr h)
        exact absurd (by omega) hn

/-- All four outcomes occur and are decided dimension by dimension: a line loses its line data,
its branch data, both or neither exactly as `C16_lines` and `C16_branches` say. -/
theorem C16_four_outcomes (o : Opts) (ms : List Bits) (n : Nat) (hlen : ms.length ≤ U32MAX)
    (h1 : 1 ≤ n) (h2 : n ≤ ms.length) :
    (FT.both n ∈ create o true ms ↔
      (lineMarker o ms n ∨ inLineRegion o ms n) ∧ (brMarker o ms n ∨ inBrRegion o ms n)) ∧
    (FT.line n ∈ create o true ms ↔
      (lineMarker o ms n ∨ inLineRegion o ms n) ∧ ¬ (brMarker o ms n ∨ inBrRegion o ms n)) ∧
    (FT.branch n ∈ create o true ms ↔
      ¬ (lineMarker o ms n ∨ inLineRegion o ms n) ∧ (brMarker o ms n ∨ inBrRegion o ms n)) :=
  four_outcomes o ms hlen n h1 h2

/-! ## Effect on the coverage record (full strength) -/

/-- `rewrite_paths` removes the line count of exactly the lines named by a `Line`/`Both` entry;
every other line keeps its count. -/
theorem C16_coverage_lines (o : Opts) (r : Bool) (ms : List Bits) (c : Cov) (n : Nat) :
    get? (rewrite o r ms c).lines n
      = if removesLine (create o r ms) n then none else get? c.lines n :=
  applyFilters_lines _ c n

/-- … and the branch vector of exactly the lines named by a `Branch`/`Both` entry. -/
theorem C16_coverage_branches (o : Opts) (r : Bool) (ms : List Bits) (c : Cov) (n : Nat) :
    get? (rewrite o r ms c).branches n
      = if removesBranch (create o r ms) n then none else get? c.branches n :=
  applyFilters_branches _ c n

/-- Nothing else in the record changes: the functions are untouched. -/
theorem C16_functions_unchanged (o : Opts) (r : Bool) (ms : List Bits) (c : Cov) :
    (rewrite o r ms c).functions = c.functions :=
  applyFilters_functions _ c

/-- Only pieces of the file are touched: a key that is 0 or beyond the number of pieces of
`split('\n')` is never removed, whatever the markers (an unterminated region ends with the file).
`ms.length` is the number of PIECES; on source level that is the number of lines of every non-empty
text – see `C16_phantom_line`, `C16_only_real_lines`. -/
theorem C16_only_source_lines (o : Opts) (r : Bool) (ms : List Bits) (n : Nat)
    (hlen : ms.length ≤ U32MAX)
    (h : removesLine (create o r ms) n ∨ removesBranch (create o r ms) n) :
    1 ≤ n ∧ n ≤ ms.length :=
  removes_range o ms hlen r n h

/-- The filter list is in increasing line order and names every line at most once (so `Line n`,
`Branch n` and `Both n` are mutually exclusive for one `n`). -/
theorem C16_filter_list_sorted (o : Opts) (r : Bool) (ms : List Bits) (hlen : ms.length ≤ U32MAX) :
    ((create o r ms).map FT.num).Pairwise (· < ·) :=
  create_sorted o r ms hlen

/-- No `--excl-line`, `--excl-start`, `--excl-br-line`, `--excl-br-start` option (stop markers
alone exclude nothing): the record is returned unchanged, whatever the source. -/
theorem C16_no_options_identity (o : Opts) (h : o.inert = true) (r : Bool) (ms : List Bits)
    (c : Cov) : rewrite o r ms c = c := by
  unfold rewrite; rw [create_inert o h]; rfl

/-- Unreadable source (missing, a directory, not UTF-8): the record is returned unchanged. -/
theorem C16_unreadable_identity (o : Opts) (ms : List Bits) (c : Cov) :
    rewrite o false ms c = c := by
  unfold rewrite; rw [create_unreadable]; rfl

/-- The early return of `create` is only an optimisation: without the four options the pass
itself would emit nothing. -/
theorem C16_early_return_redundant (o : Opts) (ms : List Bits) :
    create o true ms = emit 0 (scan o Flags.init ms) :=
  create_readable o ms

/-- Region semantics, spelled out: a line that matches both the start and the stop marker is in
the region it (re)opens; the line after an open region's stop line is outside. -/
theorem C16_region_step (start stop : Nat → Prop) (n : Nat) :
    inRegion start stop (n + 1) ↔ start (n + 1) ∨ (inRegion start stop n ∧ ¬ stop (n + 1)) :=
  inRegion_succ start stop n

/-! ## Line splitting, and the piece after a final newline -/

/-- `file.strip_suffix('\n').unwrap_or(&file).split('\n')` on a text that ends with a line feed:
exactly the pieces of the text before that line feed – the final newline adds no piece – and that
is the number of lines of the text; when the part before does not itself end with a line feed the
match bits, hence everything `create` does, are those of the text without the final newline. -/
theorem C16_final_newline_pieces (rx : Rx) (body : List Nat) :
    splitSrc (body ++ [10]) = splitLF body ∧
    realLines (body ++ [10]) = (splitSrc (body ++ [10])).length ∧
    (body.getLast? ≠ some 10 → sourceBits rx (body ++ [10]) = sourceBits rx body) := by
  refine ⟨splitSrc_snoc_lf body, ?_, sourceBits_snoc_lf rx body⟩
  rw [realLines_snoc_lf, splitSrc_snoc_lf]

/-- There is no phantom line: for every non-empty source the pass enumerates exactly the lines of
the text (as `str::lines`, `wc -l`, gcov and html.rs count them), so for a source ending with LF
(`n` lines) the key `n+1` is never removed, whatever the markers and however many regions are left
open; and a single final newline is invisible – the filter list of `body ++ "\n"` is that of
`body`. -/
theorem C16_phantom_line (o : Opts) (rx : Rx) (body : List Nat)
    (hlen : (splitLF body).length ≤ U32MAX) :
    (sourceBits rx (body ++ [10])).length = realLines (body ++ [10]) ∧
    ¬ removesLine (createSrc o rx (some (body ++ [10]))) (realLines (body ++ [10]) + 1) ∧
    ¬ removesBranch (createSrc o rx (some (body ++ [10]))) (realLines (body ++ [10]) + 1) ∧
    (body.getLast? ≠ some 10 →
      createSrc o rx (some (body ++ [10])) = createSrc o rx (some body)) := by
  have hl : (sourceBits rx (body ++ [10])).length = realLines (body ++ [10]) := by
    rw [sourceBits_length, splitSrc_length _ (by simp)]
  have hr : ∀ n, removesLine (createSrc o rx (some (body ++ [10]))) n ∨
      removesBranch (createSrc o rx (some (body ++ [10]))) n → n ≤ realLines (body ++ [10]) := by
    intro n h
    have := removes_range o (sourceBits rx (body ++ [10]))
      (by rw [sourceBits_length, splitSrc_snoc_lf]; exact hlen) true n h
    omega
  refine ⟨hl, fun h => ?_, fun h => ?_, fun h => ?_⟩
  · have := hr _ (Or.inl h); omega
  · have := hr _ (Or.inr h); omega
  · simp only [createSrc, sourceBits_snoc_lf rx body h]

/-- Whatever is removed is a piece of the source; nothing is removed when the source cannot be
read. -/
theorem C16_only_pieces (o : Opts) (rx : Rx) (src : Option (List Nat)) (n : Nat)
    (hlen : ∀ s, src = some s → (splitSrc s).length ≤ U32MAX)
    (h : removesLine (createSrc o rx src) n ∨ removesBranch (createSrc o rx src) n) :
    ∃ s, src = some s ∧ 1 ≤ n ∧ n ≤ (splitSrc s).length :=
  removes_range_src o rx src n hlen h

/-- "Nothing else in the file's data changes", read strictly, for every non-empty source text
(LF or CRLF, with or without final newline, also ending in several newlines): only keys that are
lines of the source – as every other reader counts them – are ever removed. -/
theorem C16_only_real_lines (o : Opts) (rx : Rx) (src : List Nat) (n : Nat)
    (hlen : (splitSrc src).length ≤ U32MAX) (hne : src ≠ [])
    (h : removesLine (createSrc o rx (some src)) n ∨ removesBranch (createSrc o rx (some src)) n) :
    1 ≤ n ∧ n ≤ realLines src := by
  rw [← splitSrc_length src hne, ← sourceBits_length rx]
  exact removes_range o (sourceBits rx src) (by rw [sourceBits_length]; exact hlen) true n h

/-- What remains: the EMPTY text has no line, but `"".split('\n')` still yields one empty piece, so
key 1 is treated as an empty source line – removed iff the line marker or the start marker matches
the empty string (no region can be open before it); the same for branches. -/
theorem C16_empty_file (o : Opts) (rx : Rx) :
    realLines [] = 0 ∧ createSrc o rx (some []) = create o true [rx.bits []] ∧
    (removesLine (createSrc o rx (some [])) 1 ↔
      hit o.line (rx.line []) = true ∨ hit o.start (rx.start []) = true) ∧
    (removesBranch (createSrc o rx (some [])) 1 ↔
      hit o.brLine (rx.brLine []) = true ∨ hit o.brStart (rx.brStart []) = true) := by
  refine ⟨realLines_nil, createSrc_nil o rx, ?_, ?_⟩
  · rw [createSrc_nil]
    have := removesLine_append_last o [] (rx.bits []) (by decide)
    simp only [List.nil_append, List.length_nil, Nat.zero_add] at this
    rw [this]
    simp [inLineRegion_nil_zero, Rx.bits]
  · rw [createSrc_nil]
    have := removesBranch_append_last o [] (rx.bits []) (by decide)
    simp only [List.nil_append, List.length_nil, Nat.zero_add] at this
    rw [this]
    simp [inBrRegion_nil_zero, Rx.bits]

/-- The statement over ALL texts, the empty one included. -/
def C16_only_real_lines_stmt : Prop :=
  ∀ (o : Opts) (rx : Rx) (src : List Nat) (n : Nat), (splitSrc src).length ≤ U32MAX →
    removesLine (createSrc o rx (some src)) n ∨ removesBranch (createSrc o rx (some src)) n →
    1 ≤ n ∧ n ≤ realLines src

/-- a line marker that matches the empty line (`^$`), nothing else configured -/
def emptyLineRx : Rx :=
  ⟨fun l => l == [], fun _ => false, fun _ => false, fun _ => false, fun _ => false, fun _ => false⟩

/-- the start marker `S` (the witness of the former finding C16-line-after-final-newline) -/
def witnessRx : Rx :=
  ⟨fun _ => false, fun l => l == [83], fun _ => false, fun _ => false, fun _ => false, fun _ => false⟩

/-- It is false only through the empty text (`C16_empty_file`): an empty source with
`--excl-line '^$'` removes key 1 although the source has no line. `C16_only_real_lines` is the
statement under exactly the guard this witness violates. -/
theorem C16_only_real_lines_false : ¬ C16_only_real_lines_stmt := by
  intro h
  have := h ⟨true, false, false, false, false, false⟩ emptyLineRx [] 1 (by decide)
    (Or.inl (by decide))
  revert this
  decide

/-! ## Non-vacuity: concrete sources that satisfy the hypotheses and exercise every branch -/

/-- all six options configured -/
def allOpts : Opts := ⟨true, true, true, true, true, true⟩
/-- a line on which no regex matches -/
def plain : Bits := ⟨false, false, false, false, false, false⟩
/-- former counter-example A: line 1 starts a branch region, line 2 carries the line marker -/
def witnessA : List Bits := [{ plain with brStart := true }, { plain with line := true }]
/-- former counter-example B: line 1 starts a line region, line 2 carries the branch-line marker -/
def witnessB : List Bits := [{ plain with start := true }, { plain with brLine := true }]
/-- former counter-example C: one line with the start marker and the branch-line marker -/
def witnessC : List Bits := [{ plain with start := true, brLine := true }]

/-- the marker inside the region of the other kind is honoured (before c7806a2: `B1,B2`,
`L1,L2`, `L1`) -/
example : create allOpts true witnessA = [.branch 1, .both 2] ∧
    create allOpts true witnessB = [.line 1, .both 2] ∧
    create allOpts true witnessC = [.both 1] := by decide

example : rewrite allOpts true witnessA
        { lines := [(1, 3), (2, 5)], branches := [(2, [true, false])], functions := [] }
      = { lines := [(1, 3)], branches := [], functions := [] } := by decide

/-- nine lines: line marker; start; plain; stop+start on one line of an open region (closes and
reopens); stop+brStart; line marker inside the branch region; brStop+line+brLine (both
single-line markers); start (never terminated); brLine inside the line region -/
def exSrc : List Bits :=
  [ { plain with line := true },
    { plain with start := true },
    plain,
    { plain with stop := true, start := true },
    { plain with stop := true, brStart := true },
    { plain with line := true },
    { plain with brStop := true, line := true, brLine := true },
    { plain with start := true },
    { plain with brLine := true } ]

example : create allOpts true exSrc
    = [.line 1, .line 2, .line 3, .line 4, .branch 5, .both 6, .both 7, .line 8, .both 9] := by
  decide

/-- the hypotheses of `C16_lines` hold for line 6 of `exSrc` and its right-hand side is true
there through the marker alone (line 6 is in no line region: line 5 stops it) -/
example : exSrc.length ≤ U32MAX ∧ 1 ≤ 6 ∧ 6 ≤ exSrc.length ∧ lineMarker allOpts exSrc 6 :=
  ⟨by decide, by decide, by decide, rfl, _, rfl, rfl⟩

/-- the hypotheses of `C16_independent`: `exSrc` and a copy without any branch marker agree on
the line dimension -/
example : exSrc.map lineDim
    = (exSrc.map fun m => { m with brLine := false, brStart := false, brStop := false }).map lineDim := by
  decide

/-- partial option sets: only `--excl-br-start` ⇒ an unterminated branch region to the end -/
example : create ⟨false, false, false, false, true, false⟩ true exSrc
    = [.branch 5, .branch 6, .branch 7, .branch 8, .branch 9] := by decide

/-- only stop options ⇒ nothing; unreadable ⇒ nothing -/
example : create ⟨false, false, true, false, false, true⟩ true exSrc = [] ∧
    create allOpts false exSrc = [] := by decide

/-- a record with keys inside and beyond the file: exactly the listed keys go -/
example : rewrite allOpts true exSrc
      { lines := [(1, 1), (4, 2), (5, 0), (7, 3), (8, 9), (10, 7)],
        branches := [(1, [true]), (5, [false]), (6, [true]), (7, [true, false]), (10, [true])],
        functions := [([102], ⟨1, true⟩)] }
    = { lines := [(5, 0), (10, 7)], branches := [(1, [true]), (10, [true])],
        functions := [([102], ⟨1, true⟩)] } := by decide

/-- line splitting: `a\r\n` + `b` + LF + LF  is  `a`, `b`, `` (CR of CRLF removed; one final LF
dropped, the second makes an empty last line – 3 lines); the former witness `S\n` with
`--excl-start S` now gives `L1` like `S` without newline (before f854858: `L1,L2`); `S\n\n` has
two lines and gives `L1,L2` -/
example : (splitSrc [97, 13, 10, 98, 10, 10]).map stripCR = [[97], [98], []] ∧
    realLines [97, 13, 10, 98, 10, 10] = 3 ∧ realLines [] = 0 ∧ realLines [97] = 1 ∧
    createSrc ⟨false, true, false, false, false, false⟩ witnessRx (some [83, 10]) = [.line 1] ∧
    createSrc ⟨false, true, false, false, false, false⟩ witnessRx (some [83]) = [.line 1] ∧
    createSrc ⟨false, true, false, false, false, false⟩ witnessRx (some [83, 10, 10])
      = [.line 1, .line 2] ∧ realLines [83, 10, 10] = 2 := by
  decide

/-- the hypotheses of `C16_phantom_line` / `C16_only_real_lines` hold for the witness; the empty
file with the empty-line marker: `L1` -/
example : (splitLF [83]).length ≤ U32MAX ∧ ([83] : List Nat).getLast? ≠ some 10 ∧
    ([83, 10] : List Nat) ≠ [] ∧
    createSrc ⟨true, false, false, false, false, false⟩ emptyLineRx (some []) = [.line 1] := by
  decide

end Grcov.Props.C16
