/-
C16 — exclusion markers remove exactly the marked lines and branches.
Property theorems about `FileFilter.create` (model of src/file_filter.rs 39-120) and
`FileFilter.applyFilters` (model of the loop at src/path_rewriting.rs 373-386).
Helper lemmas: GrcovModel/Lemmas/FileFilter.lean.

Quantification: all option subsets `o`, all source texts – represented by the list `ms` of the
six regex match bits of every source line (regex matching and line splitting are trusted
parameters, computed independently by the harness; any placement of markers, nested, repeated,
unterminated, start and stop on one line, overlapping line and branch regions, is some `ms`) –
all line numbers `n` and all coverage records `c`. The hypothesis `ms.length ≤ U32MAX` is the
type of the line number (`(number + 1) as u32`): a source of 2^32 or more lines is out of scope.

Status. The full statements `C16_lines_stmt`, `C16_branches_stmt` and `C16_independent_stmt` are
FALSE of the code (`…_false`, closed witnesses): inside a branch region a line marker is ignored,
inside a line region a branch-line marker is ignored (file_filter.rs 93-103: the region flags are
tested before the single-line markers and the single-line markers are an `else` of both flags).
`…_partial` are the same statements under exactly the guard the witnesses violate, and
`…_guard_exact` prove that the guard is necessary as well as sufficient. `C16_lines_actual` /
`C16_branches_actual` say what the code does instead. Everything else (coverage effect of the
filter list, nothing else changes, no options / unreadable source ⇒ identity, only lines of the
file are touched, each at most once and in order) is proved at full strength.
-/
import GrcovModel.Lemmas.FileFilter
namespace Grcov.Props.C16
open Grcov AList Grcov.FileFilter

/-! ## Full-strength statements -/

/-- Line coverage of source line `n` is removed iff `n` matches the line marker or lies in a
region from a start-marker line (inclusive) to the next later stop-marker line (exclusive). -/
def C16_lines_stmt : Prop :=
  ∀ (o : Opts) (ms : List Bits) (n : Nat), ms.length ≤ U32MAX → 1 ≤ n → n ≤ ms.length →
    (removesLine (create o true ms) n ↔ lineMarker o ms n ∨ inLineRegion o ms n)

/-- The same rule for branch coverage, with the three branch markers. -/
def C16_branches_stmt : Prop :=
  ∀ (o : Opts) (ms : List Bits) (n : Nat), ms.length ≤ U32MAX → 1 ≤ n → n ≤ ms.length →
    (removesBranch (create o true ms) n ↔ brMarker o ms n ∨ inBrRegion o ms n)

/-- The two dimensions act independently: what happens to the line data depends only on the three
line options and the three line-marker bits of every source line (and symmetrically). -/
def C16_independent_stmt : Prop :=
  ∀ (o o' : Opts) (ms ms' : List Bits) (n : Nat), ms.length ≤ U32MAX →
    ((o.line = o'.line ∧ o.start = o'.start ∧ o.stop = o'.stop) → ms.map lineDim = ms'.map lineDim →
      (removesLine (create o true ms) n ↔ removesLine (create o' true ms') n)) ∧
    ((o.brLine = o'.brLine ∧ o.brStart = o'.brStart ∧ o.brStop = o'.brStop) →
      ms.map brDim = ms'.map brDim →
      (removesBranch (create o true ms) n ↔ removesBranch (create o' true ms') n))

/-! ## The full statements are false of the code -/

/-- all six options configured -/
def allOpts : Opts := ⟨true, true, true, true, true, true⟩
/-- a line on which no regex matches -/
def plain : Bits := ⟨false, false, false, false, false, false⟩
/-- witness A: line 1 starts a branch region, line 2 carries the line marker -/
def witnessA : List Bits := [{ plain with brStart := true }, { plain with line := true }]
/-- witness B: line 1 starts a line region, line 2 carries the branch-line marker -/
def witnessB : List Bits := [{ plain with start := true }, { plain with brLine := true }]

/-- On witness A the code emits `Branch(1), Branch(2)`: line 2 keeps its line count although it
matches the line marker. -/
theorem C16_lines_false : ¬ C16_lines_stmt := by
  intro h
  have h2 := (h allOpts witnessA 2 (by decide) (by decide) (by decide)).2
    (Or.inl ⟨rfl, { plain with line := true }, rfl, rfl⟩)
  revert h2; decide

/-- On witness B the code emits `Line(1), Line(2)`: line 2 keeps its branch data although it
matches the branch-line marker. -/
theorem C16_branches_false : ¬ C16_branches_stmt := by
  intro h
  have h2 := (h allOpts witnessB 2 (by decide) (by decide) (by decide)).2
    (Or.inl ⟨rfl, { plain with brLine := true }, rfl, rfl⟩)
  revert h2; decide

/-- Deleting the branch-region start of witness A (a change in the branch dimension only) changes
what happens to the LINE data of line 2. -/
theorem C16_independent_false : ¬ C16_independent_stmt := by
  intro h
  have h2 := (h allOpts allOpts witnessA [plain, { plain with line := true }] 2 (by decide)).1
    ⟨rfl, rfl, rfl⟩ (by decide)
  revert h2; decide

/-- The same defect seen on a coverage record: with witness A, the count of line 2 survives
`rewrite_paths` (it should be removed), and only its branch vector goes. -/
theorem C16_witness_on_coverage :
    rewrite allOpts true witnessA
        { lines := [(1, 3), (2, 5)], branches := [(2, [true, false])], functions := [] }
      = { lines := [(1, 3), (2, 5)], branches := [], functions := [] } := by decide

/-! ## What the code does, and the provable part -/

/-- Line dimension, actual behaviour: removed iff in a line region, or line marker outside every
branch region. -/
theorem C16_lines_actual (o : Opts) (ms : List Bits) (n : Nat) (hlen : ms.length ≤ U32MAX)
    (h1 : 1 ≤ n) (h2 : n ≤ ms.length) :
    removesLine (create o true ms) n ↔
      inLineRegion o ms n ∨ (lineMarker o ms n ∧ ¬ inBrRegion o ms n) :=
  removesLine_actual o ms hlen n h1 h2

/-- Branch dimension, actual behaviour: removed iff in a branch region, or branch-line marker
outside every line region. -/
theorem C16_branches_actual (o : Opts) (ms : List Bits) (n : Nat) (hlen : ms.length ≤ U32MAX)
    (h1 : 1 ≤ n) (h2 : n ≤ ms.length) :
    removesBranch (create o true ms) n ↔
      inBrRegion o ms n ∨ (brMarker o ms n ∧ ¬ inLineRegion o ms n) :=
  removesBranch_actual o ms hlen n h1 h2

/-- The line statement holds for line `n` under the guard: `n` is not a line-marker line that
lies inside a branch region but outside every line region. -/
theorem C16_lines_partial (o : Opts) (ms : List Bits) (n : Nat) (hlen : ms.length ≤ U32MAX)
    (h1 : 1 ≤ n) (h2 : n ≤ ms.length)
    (guard : lineMarker o ms n → inBrRegion o ms n → inLineRegion o ms n) :
    removesLine (create o true ms) n ↔ lineMarker o ms n ∨ inLineRegion o ms n := by
  rw [C16_lines_actual o ms n hlen h1 h2]
  constructor
  · rintro (h | ⟨h, _⟩)
    · exact Or.inr h
    · exact Or.inl h
  · rintro (h | h)
    · by_cases hb : inBrRegion o ms n
      · exact Or.inl (guard h hb)
      · exact Or.inr ⟨h, hb⟩
    · exact Or.inl h

/-- The branch statement holds for line `n` under the guard: `n` is not a branch-line-marker line
that lies inside a line region but outside every branch region. -/
theorem C16_branches_partial (o : Opts) (ms : List Bits) (n : Nat) (hlen : ms.length ≤ U32MAX)
    (h1 : 1 ≤ n) (h2 : n ≤ ms.length)
    (guard : brMarker o ms n → inLineRegion o ms n → inBrRegion o ms n) :
    removesBranch (create o true ms) n ↔ brMarker o ms n ∨ inBrRegion o ms n := by
  rw [C16_branches_actual o ms n hlen h1 h2]
  constructor
  · rintro (h | ⟨h, _⟩)
    · exact Or.inr h
    · exact Or.inl h
  · rintro (h | h)
    · by_cases hb : inLineRegion o ms n
      · exact Or.inl (guard h hb)
      · exact Or.inr ⟨h, hb⟩
    · exact Or.inl h

/-- The guard of `C16_lines_partial` is exactly what is needed: where it fails, the statement
fails. -/
theorem C16_lines_guard_exact (o : Opts) (ms : List Bits) (n : Nat) (hlen : ms.length ≤ U32MAX)
    (h1 : 1 ≤ n) (h2 : n ≤ ms.length) :
    (removesLine (create o true ms) n ↔ lineMarker o ms n ∨ inLineRegion o ms n) ↔
      (lineMarker o ms n → inBrRegion o ms n → inLineRegion o ms n) := by
  constructor
  · intro h hm hb
    have := (C16_lines_actual o ms n hlen h1 h2).1 (h.2 (Or.inl hm))
    rcases this with h | ⟨_, h⟩
    · exact h
    · exact absurd hb h
  · exact C16_lines_partial o ms n hlen h1 h2

theorem C16_branches_guard_exact (o : Opts) (ms : List Bits) (n : Nat) (hlen : ms.length ≤ U32MAX)
    (h1 : 1 ≤ n) (h2 : n ≤ ms.length) :
    (removesBranch (create o true ms) n ↔ brMarker o ms n ∨ inBrRegion o ms n) ↔
      (brMarker o ms n → inLineRegion o ms n → inBrRegion o ms n) := by
  constructor
  · intro h hm hb
    have := (C16_branches_actual o ms n hlen h1 h2).1 (h.2 (Or.inl hm))
    rcases this with h | ⟨_, h⟩
    · exact h
    · exact absurd hb h
  · exact C16_branches_partial o ms n hlen h1 h2

/-- Independence, provable part: two configurations / sources that agree on the line dimension
treat the line data of `n` alike provided neither has a line marker hidden in a branch region at
`n` (and symmetrically for the branch data). -/
theorem C16_independent_partial (o o' : Opts) (ms ms' : List Bits) (n : Nat)
    (hlen : ms.length ≤ U32MAX) (h1 : 1 ≤ n) (h2 : n ≤ ms.length) :
    ((o.line = o'.line ∧ o.start = o'.start ∧ o.stop = o'.stop) → ms.map lineDim = ms'.map lineDim →
      (lineMarker o ms n → inBrRegion o ms n → inLineRegion o ms n) →
      (lineMarker o' ms' n → inBrRegion o' ms' n → inLineRegion o' ms' n) →
      (removesLine (create o true ms) n ↔ removesLine (create o' true ms') n)) ∧
    ((o.brLine = o'.brLine ∧ o.brStart = o'.brStart ∧ o.brStop = o'.brStop) →
      ms.map brDim = ms'.map brDim →
      (brMarker o ms n → inLineRegion o ms n → inBrRegion o ms n) →
      (brMarker o' ms' n → inLineRegion o' ms' n → inBrRegion o' ms' n) →
      (removesBranch (create o true ms) n ↔ removesBranch (create o' true ms') n)) := by
  constructor
  · intro ho hm g g'
    have hl : ms'.length = ms.length := by
      have := congrArg List.length hm; simpa using this.symm
    rw [C16_lines_partial o ms n hlen h1 h2 g,
      C16_lines_partial o' ms' n (by omega) h1 (by omega) g']
    exact lineSpec_congr o o' ms ms' ho hm n
  · intro ho hm g g'
    have hl : ms'.length = ms.length := by
      have := congrArg List.length hm; simpa using this.symm
    rw [C16_branches_partial o ms n hlen h1 h2 g,
      C16_branches_partial o' ms' n (by omega) h1 (by omega) g']
    exact brSpec_congr o o' ms ms' ho hm n

/-! ## Effect on the coverage record (full strength) -/

/-- `rewrite_paths` removes the line count of exactly the lines named by a `Line`/`Both` entry;
every other line keeps its count. -/
theorem C16_coverage_lines (o : Opts) (r : Bool) (ms : List Bits) (c : Cov) (n : Nat) :
    get? (rewrite o r ms c).lines n
      = if removesLine (create o r ms) n then none else get? c.lines n :=
  applyFilters_lines _ c n

/-- … and the branch vector of exactly the lines named by a `Branch`/`Both` entry. -/
theorem C16_coverage_branches (o : Opts) (r : Bool) (ms : List Bits) (c : Cov) (n : Nat) :
    get? (rewrite o r ms c).branches n
      = if removesBranch (create o r ms) n then none else get? c.branches n :=
  applyFilters_branches _ c n

/-- Nothing else in the record changes: the functions are untouched. -/
theorem C16_functions_unchanged (o : Opts) (r : Bool) (ms : List Bits) (c : Cov) :
    (rewrite o r ms c).functions = c.functions :=
  applyFilters_functions _ c

/-- Only lines of the file are touched: a key that is 0 or beyond the last line is never
removed, whatever the markers (an unterminated region ends with the file). -/
theorem C16_only_source_lines (o : Opts) (r : Bool) (ms : List Bits) (n : Nat)
    (hlen : ms.length ≤ U32MAX)
    (h : removesLine (create o r ms) n ∨ removesBranch (create o r ms) n) :
    1 ≤ n ∧ n ≤ ms.length :=
  removes_range o ms hlen r n h

/-- The filter list is in increasing line order and names every line at most once (so `Line n`,
`Branch n` and `Both n` are mutually exclusive for one `n`). -/
theorem C16_filter_list_sorted (o : Opts) (r : Bool) (ms : List Bits) (hlen : ms.length ≤ U32MAX) :
    ((create o r ms).map FT.num).Pairwise (· < ·) :=
  create_sorted o r ms hlen

/-- No `--excl-line`, `--excl-start`, `--excl-br-line`, `--excl-br-start` option (stop markers
alone exclude nothing): the record is returned unchanged, whatever the source. -/
theorem C16_no_options_identity (o : Opts) (h : o.inert = true) (r : Bool) (ms : List Bits)
    (c : Cov) : rewrite o r ms c = c := by
  unfold rewrite; rw [create_inert o h]; rfl

/-- Unreadable source (missing, a directory, not UTF-8): the record is returned unchanged. -/
theorem C16_unreadable_identity (o : Opts) (ms : List Bits) (c : Cov) :
    rewrite o false ms c = c := by
  unfold rewrite; rw [create_unreadable]; rfl

/-- The early return of `create` is only an optimisation: without the four options the pass
itself would emit nothing. -/
theorem C16_early_return_redundant (o : Opts) (ms : List Bits) :
    create o true ms = emit 0 (scan o Flags.init ms) :=
  create_readable o ms

/-- Region semantics, spelled out: a line that matches both the start and the stop marker is in
the region it (re)opens; the line after an open region's stop line is outside. -/
theorem C16_region_step (start stop : Nat → Prop) (n : Nat) :
    inRegion start stop (n + 1) ↔ start (n + 1) ∨ (inRegion start stop n ∧ ¬ stop (n + 1)) :=
  inRegion_succ start stop n

/-! ## Non-vacuity: concrete sources that satisfy the hypotheses and exercise every branch -/

/-- nine lines: line marker; start; plain; stop+start on one line of an open region (closes and
reopens); stop+brStart; brLine inside the branch region; brStop+line+brLine (both single-line
markers); start (never terminated); plain -/
def exSrc : List Bits :=
  [ { plain with line := true },
    { plain with start := true },
    plain,
    { plain with stop := true, start := true },
    { plain with stop := true, brStart := true },
    { plain with brLine := true },
    { plain with brStop := true, line := true, brLine := true },
    { plain with start := true },
    plain ]

example : create allOpts true exSrc
    = [.line 1, .line 2, .line 3, .line 4, .branch 5, .branch 6, .both 7, .line 8, .line 9] := by
  decide

/-- hypotheses of the partial theorems hold on line 6 of `exSrc` (no line region there) … -/
example : brMarker allOpts exSrc 6 → inLineRegion allOpts exSrc 6 → inBrRegion allOpts exSrc 6 :=
  fun _ _ => ⟨5, by decide, ⟨rfl, _, rfl, rfl⟩, fun t h1 h2 => by
    have : t = 6 := by omega
    subst this
    rintro ⟨_, m, hm, hb⟩
    simp [lineAt, exSrc, plain] at hm
    subst hm; simp at hb⟩

/-- … and the guard of `C16_lines_partial` fails on line 2 of witness A -/
example : ¬ (lineMarker allOpts witnessA 2 → inBrRegion allOpts witnessA 2 →
    inLineRegion allOpts witnessA 2) := by
  intro h
  have hm : lineMarker allOpts witnessA 2 := ⟨rfl, _, rfl, rfl⟩
  have hb : inBrRegion allOpts witnessA 2 :=
    ⟨1, by decide, ⟨rfl, _, rfl, rfl⟩, fun t h1 h2 => by
      have : t = 2 := by omega
      subst this
      rintro ⟨_, m, hm, hb⟩
      simp [lineAt, witnessA, plain] at hm
      subst hm; simp at hb⟩
  obtain ⟨s, hs, ⟨_, m, hm', hst⟩, _⟩ := h hm hb
  have : s = 0 ∨ s = 1 ∨ s = 2 := by omega
  rcases this with rfl | rfl | rfl <;> simp [lineAt, witnessA, plain] at hm' <;>
    (subst hm'; simp at hst)

/-- partial option sets: only `--excl-br-start` ⇒ an unterminated branch region to the end -/
example : create ⟨false, false, false, false, true, false⟩ true exSrc
    = [.branch 5, .branch 6, .branch 7, .branch 8, .branch 9] := by decide

/-- only stop options ⇒ nothing; unreadable ⇒ nothing -/
example : create ⟨false, false, true, false, false, true⟩ true exSrc = [] ∧
    create allOpts false exSrc = [] := by decide

/-- a record with keys inside and beyond the file: exactly the listed keys go -/
example : rewrite allOpts true exSrc
      { lines := [(1, 1), (4, 2), (5, 0), (7, 3), (8, 9), (10, 7)],
        branches := [(1, [true]), (5, [false]), (6, [true]), (7, [true, false]), (10, [true])],
        functions := [([102], ⟨1, true⟩)] }
    = { lines := [(5, 0), (10, 7)], branches := [(1, [true]), (10, [true])],
        functions := [([102], ⟨1, true⟩)] } := by decide

end Grcov.Props.C16
