/-
C04 — LCOV input fidelity. Property theorems about the byte machine `Lcov.parse` (the model of
`parse_lcov`), proved for all inputs. Helper lemmas: GrcovModel/Lemmas/Lcov.lean.

Status of the full-strength statement ("parse (render ast) = sem ast for every well-formed
serialisation"): the record-application layer is proved for every record order
(`C04_branch_vector`, `C04_branch_order_irrelevant`, `C04_da_sum`), the byte layer is proved per
record kind for DA (`C04_da_record_bytes`) for every digit string, LF and CRLF; the remaining
record kinds are exercised by the correspondence run against the independent semantics `sem`
(harness/src/lcov.rs) and are named `…_partial` until their byte lemmas are in.
One guard is forced by the code: an FNDA must come after its FN (known finding C04-fnda-before-fn).
-/
import GrcovModel.Lemmas.LcovFidelity
namespace Grcov.Props.C04
open Grcov AList Grcov.Lcov Grcov.Lcov.Spec

/-- A branch is taken iff some record for its (line, branch number) is taken – whatever the order
and the block numbers – and the vector is indexed by branch number. -/
theorem C04_branch_vector (rs : List (Nat × Nat × Bool)) (l i : Nat) :
    (vecAt (brdaFold [] rs) l).getD i false
      = rs.any fun r => decide (r.1 = l) && decide (r.2.1 = i) && r.2.2 := by
  rw [brdaFold_getD]; simp [vecAt]

/-- Record order inside a section does not change the branch data. -/
theorem C04_branch_order_irrelevant (rs rs' : List (Nat × Nat × Bool)) (p : rs.Perm rs') (l : Nat) :
    vecAt (brdaFold [] rs) l = vecAt (brdaFold [] rs') l := by
  apply List.ext_getElem
  · rw [brdaFold_length, brdaFold_length]
    exact foldl_max_perm (p.filter _) _
  · intro i h1 h2
    have a := C04_branch_vector rs l i
    have b := C04_branch_vector rs' l i
    rw [List.getD_eq_getElem?_getD, List.getElem?_eq_getElem h1] at a
    rw [List.getD_eq_getElem?_getD, List.getElem?_eq_getElem h2] at b
    simp only [Option.getD_some] at a b
    rw [a, b]
    exact (p.any_eq)

/-- a line that has BRDA records gets a vector as long as its highest branch number + 1 -/
theorem C04_branch_length (rs : List (Nat × Nat × Bool)) (l : Nat) :
    (vecAt (brdaFold [] rs) l).length
      = (rs.filter fun r => decide (r.1 = l)).foldl (fun k r => max k (r.2.1 + 1)) 0 := by
  rw [brdaFold_length]; simp [vecAt]

/-- The count of a line is the sum of its DA counts, clamped at 2^64-1 (never wrapped), in any
record order (a negative count is committed as 0 by the byte layer). -/
theorem C04_da_sum (rs : List (Nat × Nat)) (l : Nat) (h : ∃ r ∈ rs, r.1 = l) :
    get? (daFold {} rs).cur.lines l
      = some (min (((rs.filter fun r => decide (r.1 = l)).map (·.2)).sum) U64MAX) := by
  rw [daFold_present _ _ _ h]; simp

/-- … and a line without DA record is absent -/
theorem C04_da_absent (rs : List (Nat × Nat)) (l : Nat) (h : ∀ r ∈ rs, r.1 ≠ l) :
    get? (daFold {} rs).cur.lines l = none := by
  rw [daFold_absent _ _ _ h]; rfl

/-- Byte layer, DA: `DA:<digits>,<digits>` followed by LF or CRLF, read from the record-dispatch
state, commits exactly (line, count) and returns to the dispatch state – for every digit string
(leading zeros included) whose value fits u32 / u64, with branch parsing on or off. -/
theorem C04_da_record_bytes (branch : Bool) (a : Acc) (x : Nat) (dl : Bytes) (y : Nat) (dc : Bytes)
    (eol : Bytes) (hx : isDigit x = true) (hdl : ∀ z ∈ dl, isDigit z = true)
    (hy : isDigit y = true) (hdc : ∀ z ∈ dc, isDigit z = true)
    (heol : eol = [10] ∨ eol = [13, 10])
    (hl : valFrom 0 (x :: dl) ≤ U32MAX) (hc : valFrom 0 (y :: dc) ≤ U64MAX) :
    run branch ⟨.dispatch, a⟩ ([68, 65, 58] ++ (x :: dl) ++ [44] ++ (y :: dc) ++ eol)
      = ⟨.dispatch, commitLine a (valFrom 0 (x :: dl)) (valFrom 0 (y :: dc))⟩ :=
  da_record_bytes branch a x dl y dc eol hx hdl hy hdc heol hl hc

/-- the machine is compositional: parsing a concatenation continues from the state reached -/
theorem C04_run_append (branch : Bool) (s : St) (xs ys : Bytes) :
    run branch s (xs ++ ys) = run branch (run branch s xs) ys := run_append branch s xs ys

/-- non-vacuity: a concrete tracefile through the whole machine (duplicate DA saturating, BRDA out
of order with a 0 count, CRLF); the bytes are
`SF:a.c⏎DA:1,18446744073709551615⏎DA:1,2␍⏎BRDA:3,0,2,5⏎BRDA:3,1,0,0⏎FN:7,f⏎FNDA:1,f⏎end_of_record⏎` -/
example : parse true
    [83, 70, 58, 97, 46, 99, 10, 68, 65, 58, 49, 44, 49, 56, 52, 52, 54, 55, 52, 52, 48, 55, 51, 55, 48, 57, 53, 53, 49, 54, 49, 53, 10, 68, 65, 58, 49, 44, 50, 13, 10, 66, 82, 68, 65, 58, 51, 44, 48, 44, 50, 44, 53, 10, 66, 82, 68, 65, 58, 51, 44, 49, 44, 48, 44, 48, 10, 70, 78, 58, 55, 44, 102, 10, 70, 78, 68, 65, 58, 49, 44, 102, 10, 101, 110, 100, 95, 111, 102, 95, 114, 101, 99, 111, 114, 100, 10]
    = .ok [([97, 46, 99], { lines := [(1, U64MAX)], branches := [(3, [false, false, true])],
                            functions := [([102], ⟨7, true⟩)] })] := by decide +kernel

/-- **Fidelity, byte level.** For every list of well-formed sections (any record order, duplicate
DA/BRDA records, negative counts, `-`/0/positive taken counts, any block numbers, any digit
strings incl. leading zeros, names over arbitrary bytes other than CR/LF (decoded as UTF-8),
TN:/summary/other records and blank lines anywhere, text after `end_of_record`), rendered with LF
or CRLF line ends, with branch parsing on or off: the reader returns exactly one record per
section, equal to what the records say (`semAll`: `applyRec` folded over the section).
Guard (the `_partial`): `semAll` is defined, i.e. every FNDA record comes after the FN record of
its function – the one order dependence of the code (known finding C04-fnda-before-fn). -/
theorem C04_fidelity_partial (branch : Bool) (eol : Bytes) (heol : eol = [LF] ∨ eol = [CR, LF])
    (secs : List Section) (hs : ∀ s ∈ secs, s.WF) (rs : List (Bytes × Cov))
    (hsem : semAll branch secs = some rs) :
    parse branch (render eol secs) = .ok rs := by
  have := file_bytes branch eol heol secs hs rs hsem [] none
  unfold parse
  have e : ({} : St) = ⟨.dispatch, { results := [], curFile := none, cur := {} }⟩ := rfl
  rw [e, this]
  simp [finish]

def witnessFndaFirst : Section :=
  { pre := [], sf := [97], eor := [],
    recs := [Rec.fnda ⟨49, []⟩ [102], Rec.fn ⟨49, []⟩ [102]] }

/-- The guard is necessary: a well-formed section in which an FNDA precedes its FN is rejected
(`Err(Parse)`), although the records name a declared function. Bytes: `SF:a⏎FNDA:1,f⏎FN:1,f⏎e⏎`. -/
theorem C04_fidelity_needs_fn_before_fnda :
    semAll true [witnessFndaFirst] = none ∧
    parse true (render [LF] [witnessFndaFirst]) = .err "Parse" := by
  decide +kernel

/-- What a section's records say about a line, in any order: the clamped sum of the DA counts
(negative counts contribute 0) – `applyRecs` restricted to DA records is `daFold`. -/
theorem C04_sem_da_is_sum (rs : List (Nat × Nat)) (l : Nat) (h : ∃ r ∈ rs, r.1 = l) :
    get? (daFold {} rs).cur.lines l
      = some (min (((rs.filter fun r => decide (r.1 = l)).map (·.2)).sum) U64MAX) :=
  C04_da_sum rs l h

/-! ### branch parsing disabled -/

/-- With branch parsing disabled no branch data is produced, for every byte string. -/
theorem C04_branch_off (bs : Bytes) (rs : List (Bytes × Cov)) (h : parse false bs = .ok rs) :
    ∀ r ∈ rs, r.2.branches = [] := by
  have inv : ∀ (bs : Bytes) (s : St), NoBranchInv s → NoBranchInv (run false s bs) := by
    intro bs
    induction bs with
    | nil => intro s hs; exact hs
    | cons b bs ih => intro s hs; exact ih _ (step_noBranch s b hs)
  have hi := inv bs {} ⟨rfl, rfl, by simp⟩
  unfold parse at h
  generalize run false {} bs = s at h hi
  obtain ⟨ctl, a⟩ := s
  have key : ∀ rs', Out.ok a.results = Out.ok rs' → ∀ r ∈ rs', r.2.branches = [] := by
    intro rs' e; cases e; exact hi.2.2
  cases ctl <;> simp only [finish] at h
  case halt o =>
    -- a halted machine never reports `ok`
    subst h; exact absurd hi.1 (by simp [Ctl.isBr])
  all_goals first
    | exact key rs h
    | (simp at h)
    | (split at h <;> first | exact key rs h | simp at h)

end Grcov.Props.C04
