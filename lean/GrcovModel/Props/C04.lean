/-
C04 — LCOV input fidelity. Property theorems about the byte machine `Lcov.parse` (the model of
`parse_lcov`), proved for all inputs. Helper lemmas: GrcovModel/Lemmas/Lcov.lean,
Lemmas/LcovFidelity.lean (one lemma per record kind, glued by `run_append`) and
Lemmas/LcovFunctions.lean (the waiting-FNDA invariant).

The full-strength statement is `C04_fidelity`: for every well-formed tracefile AST – any record
order, FNDA records before or after the FN record of their function, DA records with or without a
checksum field – `parse (render ast) = sem ast`, where `sem` (Spec/Lcov.lean) is order-free.
`C04_fnda_without_fn_rejected` is the other half of the FN/FNDA rule (an FNDA whose function is
declared nowhere in its section is the reader's "FN record missing" error), `C04_order_irrelevant`
the permutation corollary. The former findings C04-fnda-before-fn and
C04-da-checksum-read-as-record are repaired in the code; their witnesses are examples below and
corpus cases of the correspondence run.

lcov 2.x: the exception-branch records `BRDA:<line>,e<block>,<branch>,<taken>` are part of the AST
(`Rec.brda l exc blk br taken`) and of `WellFormed`; since /repo 66f7aba the reader skips the `e`, so
`C04_fidelity` covers them at full strength (`C04_exception_flag_ignored`; the witness of the former
finding C04-lcov2-exception-branch is a regression example and corpus/C04 case). FN records with
an end line: `C04_lcov2_fn_record_witness` (known finding C04-lcov2-fn-end-line).
-/
import GrcovModel.Lemmas.LcovFunctions
import GrcovModel.Lemmas.LcovWriter
import GrcovModel.Lemmas.LcovUtf8
namespace Grcov.Props.C04
open Grcov AList Grcov.Lcov Grcov.Lcov.Spec

/-- A branch is taken iff some record for its (line, branch number) is taken – whatever the order
and the block numbers – and the vector is indexed by branch number. -/
theorem C04_branch_vector (rs : List (Nat × Nat × Bool)) (l i : Nat) :
    (vecAt (brdaFold [] rs) l).getD i false
      = rs.any fun r => decide (r.1 = l) && decide (r.2.1 = i) && r.2.2 := by
  rw [brdaFold_getD]; simp [vecAt]

/-- Record order inside a section does not change the branch data. -/
theorem C04_branch_order_irrelevant (rs rs' : List (Nat × Nat × Bool)) (p : rs.Perm rs') (l : Nat) :
    vecAt (brdaFold [] rs) l = vecAt (brdaFold [] rs') l := by
  apply List.ext_getElem
  · rw [brdaFold_length, brdaFold_length]
    exact foldl_max_perm (p.filter _) _
  · intro i h1 h2
    have a := C04_branch_vector rs l i
    have b := C04_branch_vector rs' l i
    rw [List.getD_eq_getElem?_getD, List.getElem?_eq_getElem h1] at a
    rw [List.getD_eq_getElem?_getD, List.getElem?_eq_getElem h2] at b
    simp only [Option.getD_some] at a b
    rw [a, b]
    exact (p.any_eq)

/-- a line that has BRDA records gets a vector as long as its highest branch number + 1 -/
theorem C04_branch_length (rs : List (Nat × Nat × Bool)) (l : Nat) :
    (vecAt (brdaFold [] rs) l).length
      = (rs.filter fun r => decide (r.1 = l)).foldl (fun k r => max k (r.2.1 + 1)) 0 := by
  rw [brdaFold_length]; simp [vecAt]

/-- The count of a line is the sum of its DA counts, clamped at 2^64-1 (never wrapped), in any
record order (a negative count is committed as 0 by the byte layer). -/
theorem C04_da_sum (rs : List (Nat × Nat)) (l : Nat) (h : ∃ r ∈ rs, r.1 = l) :
    get? (daFold {} rs).cur.lines l
      = some (min (((rs.filter fun r => decide (r.1 = l)).map (·.2)).sum) U64MAX) := by
  rw [daFold_present _ _ _ h]; simp

/-- … and a line without DA record is absent -/
theorem C04_da_absent (rs : List (Nat × Nat)) (l : Nat) (h : ∀ r ∈ rs, r.1 ≠ l) :
    get? (daFold {} rs).cur.lines l = none := by
  rw [daFold_absent _ _ _ h]; rfl

/-- Byte layer, DA: `DA:<digits>,<digits>` followed by LF or CRLF, read from the record-dispatch
state, commits exactly (line, count) and returns to the dispatch state – for every digit string
(leading zeros included) whose value fits u32 / u64, with branch parsing on or off. -/
theorem C04_da_record_bytes (branch : Bool) (a : Acc) (x : Nat) (dl : Bytes) (y : Nat) (dc : Bytes)
    (eol : Bytes) (hx : isDigit x = true) (hdl : ∀ z ∈ dl, isDigit z = true)
    (hy : isDigit y = true) (hdc : ∀ z ∈ dc, isDigit z = true)
    (heol : eol = [10] ∨ eol = [13, 10])
    (hl : valFrom 0 (x :: dl) ≤ U32MAX) (hc : valFrom 0 (y :: dc) ≤ U64MAX) :
    run branch ⟨.dispatch, a⟩ ([68, 65, 58] ++ (x :: dl) ++ [44] ++ (y :: dc) ++ eol)
      = ⟨.dispatch, commitLine a (valFrom 0 (x :: dl)) (valFrom 0 (y :: dc))⟩ :=
  da_record_bytes branch a x dl y dc eol hx hdl hy hdc heol hl hc

/-- the machine is compositional: parsing a concatenation continues from the state reached -/
theorem C04_run_append (branch : Bool) (s : St) (xs ys : Bytes) :
    run branch s (xs ++ ys) = run branch (run branch s xs) ys := run_append branch s xs ys

/-- non-vacuity: a concrete tracefile through the whole machine (duplicate DA saturating, BRDA out
of order with a 0 count, CRLF); the bytes are
`SF:a.c⏎DA:1,18446744073709551615⏎DA:1,2␍⏎BRDA:3,0,2,5⏎BRDA:3,1,0,0⏎FN:7,f⏎FNDA:1,f⏎end_of_record⏎` -/
example : parse true
    [83, 70, 58, 97, 46, 99, 10, 68, 65, 58, 49, 44, 49, 56, 52, 52, 54, 55, 52, 52, 48, 55, 51, 55, 48, 57, 53, 53, 49, 54, 49, 53, 10, 68, 65, 58, 49, 44, 50, 13, 10, 66, 82, 68, 65, 58, 51, 44, 48, 44, 50, 44, 53, 10, 66, 82, 68, 65, 58, 51, 44, 49, 44, 48, 44, 48, 10, 70, 78, 58, 55, 44, 102, 10, 70, 78, 68, 65, 58, 49, 44, 102, 10, 101, 110, 100, 95, 111, 102, 95, 114, 101, 99, 111, 114, 100, 10]
    = .ok [([97, 46, 99], { lines := [(1, U64MAX)], branches := [(3, [false, false, true])],
                            functions := [([102], ⟨7, true⟩)] })] := by decide +kernel

/-- Byte layer, DA with the optional checksum field: `DA:<digits>,<digits>[,<text>]` followed by LF
or CRLF commits exactly (line, count) – the checksum text (any bytes other than LF: it may start with
`e`, `S`, `D`, `F`, `B`, a digit or `-` and contain commas) is skipped, never read as a record. -/
theorem C04_da_checksum_record_bytes (branch : Bool) (a : Acc) (l c : Digits) (ck : Option Bytes)
    (eol : Bytes) (hl : l.WF U32MAX) (hc : c.WF U64MAX) (hk : noLF (checksumBytes ck))
    (heol : eol = [LF] ∨ eol = [CR, LF]) :
    run branch ⟨.dispatch, a⟩ (renderRec eol (.da l c ck)) = ⟨.dispatch, commitLine a l.val c.val⟩ :=
  da_ck_record_bytes branch a l c ck eol hl hc hk heol

/-- **Fidelity.** For every list of well-formed sections (any record order – in particular FNDA
records before or after the FN record of their function –, duplicate DA/BRDA records, DA records
with or without a checksum field, negative counts, `-`/0/positive taken counts, any block numbers,
with or without the lcov 2.x exception flag `e` in front of them,
any digit strings incl. leading zeros, names over arbitrary bytes other than CR/LF (decoded as
UTF-8), TN:/summary/other records and blank lines anywhere, text after `end_of_record`), rendered
with LF or CRLF line ends, with branch parsing on or off: the reader returns exactly one record per
section, equal to what the section says (`sem`: clamped DA sums, taken iff some BRDA says so,
executed iff some FNDA has a non-zero count; no clause looks at the position of a record).
`WellFormed`: every record is well-formed text, every function is declared once per section and
every FNDA names a function declared somewhere in the same section. -/
theorem C04_fidelity (branch : Bool) (eol : Bytes) (heol : eol = [LF] ∨ eol = [CR, LF])
    (secs : List Section) (hs : ∀ s ∈ secs, s.WellFormed) :
    parse branch (render eol secs) = .ok (secs.map fun s => (utf8Lossy s.sf, sem branch s)) :=
  parse_render branch eol heol secs hs

/-- The other half of the FN/FNDA rule: if some FNDA record of a section names a function that no
FN record of that section declares, the reader rejects the tracefile with the error "FN record
missing" (`Err(Parse)`) at the `end_of_record` of that section – after any well-formed sections,
whatever bytes follow. -/
theorem C04_fnda_without_fn_rejected (branch : Bool) (eol : Bytes) (heol : eol = [LF] ∨ eol = [CR, LF])
    (secs : List Section) (hs : ∀ s ∈ secs, s.WellFormed) (s : Section) (hw : s.WF) (nm : Bytes)
    (h1 : nm ∈ fndaNames s.recs) (h2 : nm ∉ fnNames s.recs) (rest : Bytes) :
    parse branch (render eol secs ++ renderSection eol s ++ rest) = .err "Parse" :=
  parse_fnda_without_fn branch eol heol secs hs s hw nm h1 h2 rest

/-- Fidelity for sections that declare a function several times (outside `WellFormed`; grcov logs
"FN duplicated"): the reader's answer is the record-by-record reading `semAll` (`applyRec` folded
over the section: the last FN of a name wins and takes what FNDA records were waiting for it),
whenever nothing is waiting at `end_of_record`. -/
theorem C04_fidelity_record_by_record (branch : Bool) (eol : Bytes) (heol : eol = [LF] ∨ eol = [CR, LF])
    (secs : List Section) (hs : ∀ s ∈ secs, s.WF) (rs : List (Bytes × Cov))
    (hsem : semAll branch secs = some rs) :
    parse branch (render eol secs) = .ok rs := by
  have := file_bytes branch eol heol secs hs rs hsem [] none
  unfold parse
  have e : ({} : St) = ⟨.dispatch, { results := [], curFile := none, cur := {}, pending := [] }⟩ := rfl
  rw [e, this]
  simp [finish]

/-- What a section says about a line, wherever its DA records stand and whatever checksum fields
they carry: the sum of the counts of its DA records (negative counts read as 0), clamped at 2^64-1. -/
theorem C04_sem_line (branch : Bool) (s : Section) (l : Nat) (h : ∃ r ∈ daPairs s.recs, r.1 = l) :
    get? (sem branch s).lines l
      = some (min ((((daPairs s.recs).filter fun r => decide (r.1 = l)).map (·.2)).sum) U64MAX) :=
  C04_da_sum (daPairs s.recs) l h

/-- What a section says about a branch: taken iff some BRDA record of its (line, branch number) has
a positive count, whatever the order and the block numbers. -/
theorem C04_sem_branch (s : Section) (l i : Nat) :
    (vecAt (sem true s).branches l).getD i false
      = (brdaTriples s.recs).any fun r => decide (r.1 = l) && decide (r.2.1 = i) && r.2.2 :=
  C04_branch_vector (brdaTriples s.recs) l i

/-- What a section says about a function, wherever its FN and FNDA records stand: declared iff
some FN record names it; executed iff some FNDA record of the section names it with a non-zero
count. -/
theorem C04_function_executed (branch : Bool) (s : Section) (nm : Bytes) :
    get? (sem branch s).functions nm
      = (get? (fnDecls s.recs) nm).map fun start => ⟨start, fnExecuted s.recs nm⟩ :=
  get?_fnTable (fnExecuted s.recs) (fnDecls s.recs) nm

/-- Record order inside a section does not change what the section says about functions: any
permutation of the records (FN before or after FNDA, interleaved with anything). -/
theorem C04_function_order_irrelevant (branch : Bool) (s : Section) (recs' : List Rec)
    (p : s.recs.Perm recs') (hn : (fnNames s.recs).Nodup) (nm : Bytes) :
    get? (sem branch s).functions nm = get? (sem branch { s with recs := recs' }).functions nm :=
  semFunctions_perm s.recs recs' p hn nm

/-- **Record order is irrelevant.** Two well-formed sections that differ by a permutation of their
records (DA, BRDA, FN, FNDA, others – any interleaving) are read to the same data: the same count
for every line, the same vector for every branch line, the same start line and executed flag for
every function. -/
theorem C04_order_irrelevant (branch : Bool) (eol : Bytes) (heol : eol = [LF] ∨ eol = [CR, LF])
    (s : Section) (recs' : List Rec) (p : s.recs.Perm recs') (hw : s.WellFormed) :
    ∃ c c', parse branch (render eol [s]) = .ok [(utf8Lossy s.sf, c)]
      ∧ parse branch (render eol [{ s with recs := recs' }]) = .ok [(utf8Lossy s.sf, c')]
      ∧ SameData c c' := by
  refine ⟨sem branch s, sem branch { s with recs := recs' }, ?_, ?_, ?_⟩
  · exact parse_render branch eol heol [s] (by simpa using hw)
  · exact parse_render branch eol heol [{ s with recs := recs' }]
      (by simpa using wellFormed_perm s recs' p hw)
  · refine ⟨fun l => daFold_lines_perm _ _ (p.filterMap _) l, fun l => ?_,
      fun n => semFunctions_perm s.recs recs' p hw.2.1 n⟩
    cases branch
    · rfl
    · exact C04_branch_order_irrelevant _ _ (p.filterMap _) l

/-- the witness of the former finding C04-fnda-before-fn: `SF:a⏎FNDA:1,f⏎FN:1,f⏎e⏎` -/
def witnessFndaFirst : Section :=
  { pre := [], sf := [97], eor := [],
    recs := [Rec.fnda ⟨49, []⟩ [102], Rec.fn ⟨49, []⟩ [102]] }

/-- non-vacuity of `WellFormed`, and the old witness: the section is well-formed and is now read to
the function `f`, start line 1, executed (the reader used to answer `Err(Parse)`) -/
example : witnessFndaFirst.WellFormed ∧
    parse true (render [LF] [witnessFndaFirst])
      = .ok [([97], { lines := [], branches := [], functions := [([102], ⟨1, true⟩)] })] := by
  refine ⟨⟨⟨by simp [witnessFndaFirst], by simp [witnessFndaFirst, noEol, LF, CR], ?_, by simp [witnessFndaFirst, noLF]⟩,
    by decide, by decide⟩, by decide +kernel⟩
  intro r hr
  simp only [witnessFndaFirst, List.mem_cons, List.not_mem_nil, or_false] at hr
  rcases hr with hr | hr <;> subst hr <;>
    refine ⟨⟨by decide, by simp, by decide⟩, ?_⟩ <;> (intro x hx; simp at hx; subst hx; decide)

/-- the witnesses of the former finding C04-da-checksum-read-as-record: in
`SF:a⏎DA:1,5,eAbCd⏎DA:2,3,SFxyz⏎e⏎` the checksum `eAbCd` used to end the section and `SFxyz` used to
open a file "yz"; both lines are now plain DA records -/
example : parse true
    [83, 70, 58, 97, 10, 68, 65, 58, 49, 44, 53, 44, 101, 65, 98, 67, 100, 10,
     68, 65, 58, 50, 44, 51, 44, 83, 70, 120, 121, 122, 10, 101, 10]
    = .ok [([97], { lines := [(1, 5), (2, 3)], branches := [], functions := [] })] := by decide +kernel

/-- an FNDA without any FN in its section: `SF:a⏎FNDA:1,f⏎e⏎` is rejected -/
example : parse true [83, 70, 58, 97, 10, 70, 78, 68, 65, 58, 49, 44, 102, 10, 101, 10] = .err "Parse" := by
  decide +kernel

/-- What a section's records say about a line, in any order: the clamped sum of the DA counts
(negative counts contribute 0) – `applyRecs` restricted to DA records is `daFold`. -/
theorem C04_sem_da_is_sum (rs : List (Nat × Nat)) (l : Nat) (h : ∃ r ∈ rs, r.1 = l) :
    get? (daFold {} rs).cur.lines l
      = some (min (((rs.filter fun r => decide (r.1 = l)).map (·.2)).sum) U64MAX) :=
  C04_da_sum rs l h

/-! ### names -/

/-- Names are decoded by `String::from_utf8_lossy` (`utf8Lossy`): a name that is well-formed UTF-8
(`validUtf8`: the RFC 3629 grammar, executable) is returned byte for byte – commas, spaces,
non-ASCII text included. -/
theorem C04_names_valid_utf8_unchanged (bs : Bytes) (h : validUtf8 bs = true) : utf8Lossy bs = bs :=
  utf8Lossy_of_valid bs h

/-- in particular every ASCII name -/
theorem C04_names_ascii_unchanged (bs : Bytes) (h : ∀ b ∈ bs, b < 128) : utf8Lossy bs = bs :=
  utf8Lossy_of_valid bs (validUtf8_ascii bs h)

/-- Whatever the bytes of a name, the decoded name is well-formed UTF-8 and decoding it again
changes nothing. -/
theorem C04_names_decoding_idempotent (bs : Bytes) :
    validUtf8 (utf8Lossy bs) = true ∧ utf8Lossy (utf8Lossy bs) = utf8Lossy bs :=
  ⟨validUtf8_utf8Lossy bs, utf8Lossy_idem bs⟩

/-- **Names are preserved byte for byte.** For every well-formed tracefile whose file and function
names are well-formed UTF-8 (any text: commas, blanks, non-ASCII), the reported file names ARE the
written `SF` names and the reported function names ARE the written `FN` names, in file order. -/
theorem C04_names_preserved (branch : Bool) (eol : Bytes) (heol : eol = [LF] ∨ eol = [CR, LF])
    (secs : List Section) (hs : ∀ s ∈ secs, s.WellFormed)
    (hv : ∀ s ∈ secs, validUtf8 s.sf = true ∧
      ∀ st name, Rec.fn st name ∈ s.recs → validUtf8 name = true) :
    parse branch (render eol secs) = .ok (secs.map fun s => (s.sf, sem branch s))
      ∧ ∀ s ∈ secs, keys (sem branch s).functions = fnWrittenNames s.recs := by
  refine ⟨?_, fun s hsm => ?_⟩
  · rw [C04_fidelity branch eol heol secs hs]
    congr 1
    apply List.map_congr_left
    intro s hsm
    rw [utf8Lossy_of_valid _ (hv s hsm).1]
  · have : keys (sem branch s).functions = fnNames s.recs := keys_fnTable _ _
    rw [this]
    exact fnNames_eq_written s.recs fun st name hm => utf8Lossy_of_valid _ ((hv s hsm).2 st name hm)

/-- non-vacuity: `a,b é日本😀 x` is well-formed UTF-8; a lone 0xFF or a surrogate is not and is
replaced by U+FFFD -/
example : validUtf8 [97, 44, 98, 32, 0xC3, 0xA9, 0xE6, 0x97, 0xA5, 0xE6, 0x9C, 0xAC, 0xF0, 0x9F, 0x98, 0x80, 32, 120] = true := by
  decide
example : utf8Lossy [102, 0xFF, 103] = [102, 0xEF, 0xBF, 0xBD, 103] ∧ validUtf8 [0xED, 0xA0, 0x80] = false := by
  decide

/-! ### lcov 2.x function records -/

/-- `FN:<start>,<end>,<name>` (what lcov 2.x writes) is read as an FN record whose function name is
`<end>,<name>`: the end line is not recognised, it becomes part of the name. -/
theorem C04_fn_end_line_read_as_name (branch : Bool) (a : Acc) (start endLine : Digits) (name eol : Bytes)
    (hs : start.WF U32MAX) (he : endLine.WF U32MAX) (hn : noEol name) (heol : eol = [LF] ∨ eol = [CR, LF]) :
    renderRec eol (fnWithEndLine start endLine name)
        = [70, 78, 58] ++ start.bytes ++ [44] ++ endLine.bytes ++ [44] ++ name ++ eol
      ∧ run branch ⟨.dispatch, a⟩ (renderRec eol (fnWithEndLine start endLine name))
        = ⟨.dispatch, commitFn a start.val (endLine.bytes ++ 44 :: name)⟩ := by
  refine ⟨by simp [renderRec, fnWithEndLine], ?_⟩
  have hne : noEol (endLine.bytes ++ 44 :: name) := by
    intro x hx
    simp only [List.mem_append, List.mem_cons] at hx
    rcases hx with hx | hx | hx
    · have := digits_noLF endLine _ he x hx
      refine ⟨this, ?_⟩
      simp only [Digits.bytes, List.mem_cons] at hx
      rcases hx with hx | hx
      · subst hx; have := isDigit_le _ he.1; simp [CR]; omega
      · have := isDigit_le _ (he.2.1 x hx); simp [CR]; omega
    · subst hx; simp [LF, CR]
    · exact hn x hx
  exact fn_record_bytes branch a start _ eol hs hne heol

/-- Consequence for a tracefile written by lcov 2.x (finding candidate C04-lcov2-fn-end-line):
`SF:a.c⏎FN:1,5,f⏎FNDA:1,f⏎DA:1,1⏎end_of_record⏎` declares the function `5,f`, the FNDA for `f` then
finds no FN and the WHOLE tracefile is rejected ("FN record missing"); without FNDA records the
file is accepted with the function reported under the name `5,f`. -/
theorem C04_lcov2_fn_record_witness :
    parse true [83, 70, 58, 97, 46, 99, 10, 70, 78, 58, 49, 44, 53, 44, 102, 10, 70, 78, 68, 65, 58, 49, 44, 102, 10,
                68, 65, 58, 49, 44, 49, 10, 101, 110, 100, 95, 111, 102, 95, 114, 101, 99, 111, 114, 100, 10]
      = .err "Parse"
    ∧ parse true [83, 70, 58, 97, 46, 99, 10, 70, 78, 58, 49, 44, 53, 44, 102, 10,
                68, 65, 58, 49, 44, 49, 10, 101, 110, 100, 95, 111, 102, 95, 114, 101, 99, 111, 114, 100, 10]
      = .ok [([97, 46, 99], { lines := [(1, 1)], branches := [], functions := [([53, 44, 102], ⟨1, false⟩)] })] := by
  decide +kernel

/-! ### lcov 2.x exception branches -/

/-- Byte layer: a BRDA record with the exception flag (`BRDA:<line>,e<block>,<branch>,<taken>`) is
read exactly like the record without it – branch `<branch>` of the line, taken iff the count is
positive; the block digits are skipped as before. -/
theorem C04_exception_flag_ignored (branch : Bool) (a : Acc) (l blk br : Digits) (taken eol : Bytes)
    (hl : l.WF U32MAX) (hb : blk.WF U64MAX) (hr : br.WF U32MAX) (ht : noEol taken)
    (heol : eol = [LF] ∨ eol = [CR, LF]) :
    run branch ⟨.dispatch, a⟩ (renderRec eol (.brda l true blk br taken))
      = run branch ⟨.dispatch, a⟩ (renderRec eol (.brda l false blk br taken)) := by
  have h1 := rec_bytes branch eol heol a (.brda l true blk br taken) ⟨hl, hb, hr, ht⟩
  have h2 := rec_bytes branch eol heol a (.brda l false blk br taken) ⟨hl, hb, hr, ht⟩
  rw [h1, h2]
  rfl

/-- `SF:a⏎BRDA:5,e3,1,0⏎BRDA:5,e3,0,-⏎e⏎`: an exception branch of block 3, branches 0 and 1 of
line 5, neither taken (the witness of the former finding C04-lcov2-exception-branch: the reader
used to return four slots, the last one taken) -/
def witnessExc : Section :=
  { pre := [], sf := [97], eor := [],
    recs := [Rec.brda ⟨53, []⟩ true ⟨51, []⟩ ⟨49, []⟩ [48], Rec.brda ⟨53, []⟩ true ⟨51, []⟩ ⟨48, []⟩ [45]] }

/-- regression example: the witness is well-formed and is read to what it says -/
example : witnessExc.WellFormed ∧
    parse true (render [LF] [witnessExc])
      = .ok [([97], { lines := [], branches := [(5, [false, false])], functions := [] })] := by
  refine ⟨⟨⟨by simp [witnessExc], by simp [witnessExc, noEol, LF, CR], ?_, by simp [witnessExc, noLF]⟩,
    by decide, by decide⟩, by decide +kernel⟩
  intro r hr
  simp only [witnessExc, List.mem_cons, List.not_mem_nil, or_false] at hr
  rcases hr with hr | hr <;> subst hr <;>
    refine ⟨⟨by decide, by simp, by decide⟩, ⟨by decide, by simp, by decide⟩,
      ⟨by decide, by simp, by decide⟩, ?_⟩ <;> (intro x hx; simp at hx; subst hx; decide)

/-- `BRDA:1,e0,0,1⏎BRDA:1,e0,1,-`: branch 0 taken, branch 1 not (used to read as `[true]` only) -/
example : parse true [83, 70, 58, 97, 10, 66, 82, 68, 65, 58, 49, 44, 101, 48, 44, 48, 44, 49, 10,
      66, 82, 68, 65, 58, 49, 44, 101, 48, 44, 49, 44, 45, 10, 101, 10]
    = .ok [([97], { lines := [], branches := [(1, [true, false])], functions := [] })] := by decide +kernel

/-! ### branch parsing disabled -/

/-- With branch parsing disabled no branch data is produced, for every byte string. -/
theorem C04_branch_off (bs : Bytes) (rs : List (Bytes × Cov)) (h : parse false bs = .ok rs) :
    ∀ r ∈ rs, r.2.branches = [] := by
  have inv : ∀ (bs : Bytes) (s : St), NoBranchInv s → NoBranchInv (run false s bs) := by
    intro bs
    induction bs with
    | nil => intro s hs; exact hs
    | cons b bs ih => intro s hs; exact ih _ (step_noBranch s b hs)
  have hi := inv bs {} ⟨rfl, rfl, by simp⟩
  unfold parse at h
  generalize run false {} bs = s at h hi
  obtain ⟨ctl, a⟩ := s
  have key : ∀ rs', Out.ok a.results = Out.ok rs' → ∀ r ∈ rs', r.2.branches = [] := by
    intro rs' e; cases e; exact hi.2.2
  cases ctl <;> simp only [finish] at h
  case halt o =>
    -- a halted machine never reports `ok`
    subst h; exact absurd hi.1 (by simp [Ctl.isBr])
  all_goals first
    | exact key rs h
    | (simp at h)
    | (split at h <;> first | exact key rs h | simp at h)

end Grcov.Props.C04
