/-
C13, part Docs — the covdir sums are about the REPORT, not only about the writer's internal tree.

`C13_covdir_every_directory_sums` says that the figures of a directory are the sums over the
`files` and `dirs` vectors `set_stats` walks. The JSON document, however, lists the children of a
directory in ONE map keyed by name (`into_json`: a later insert replaces). `childrenStats` is that
map; `listedSum` the sum over its entries. The two agree exactly when the children of every
directory have distinct names, which is what the guard `PGuard` on the filed paths (the same
predicate as C03's `CdGuard`, see `C03_covdir_guard_is_C13_guard` in Props/C03Docs.lean: paths pairwise distinct, no file path is a directory of another
result) gives; without it the report shows a total that is not the sum of the children it lists
(known finding C03-covdir-name-collision).

Line 0 (outside the quantifier of C13: line numbers ≥ 1; reachable through `DA:0,n`):
  covdir     panics with overflow checks on (`line_num - 1`, covdir.rs 62), `C13_covdir_line0_panics`;
             without them linesTotal counts line 0 but the array and linesCovered do not
  coveralls  the line is silently dropped (`for line in 1..end`), C03_coveralls_lines
  html       no row shows it (rows are the source lines 1..n), but the totals count it (`get_stats`)
  markdown   counted in covered/total; if missed it is never printed (`start == 0` sentinel)
  cobertura  written as `<line number="0">` like any other line; counted
  lcov, ade  written / counted like any other line
-/
import GrcovModel.Lemmas.StatsListed
import GrcovModel.Stats.Printed
namespace Grcov.Props.C13
open Grcov AList Grcov.Stats

/-- the full statement: in the report, every directory's figures are the sum over the entries its
`children` object lists -/
def C13_covdir_report_sums_stmt : Prop :=
  ∀ (rs : List FileIn) (t : CDRoot), covdir rs = .ok t →
    t.stats = listedSum t.files t.sub ∧ t.sub.ListedOK

/-- two results, `a` and `a/b`, one instrumented line each -/
def collisionWitness : List FileIn :=
  [⟨true, true, [[97]], [[47], [97]], { lines := [(1, 1)] }⟩,
   ⟨true, true, [[97], [98]], [[47], [97], [98]], { lines := [(1, 0)] }⟩]

/-- It is false of the code: for `a` + `a/b` the root says linesTotal 2 but its only listed child,
the directory `a`, has linesTotal 1 (the file `a` was replaced in the map). -/
theorem C13_covdir_report_sums_false : ¬ C13_covdir_report_sums_stmt := by
  intro h
  have := (h collisionWitness (covdirTree collisionWitness) rfl).1
  revert this; decide

/-- Under the guard on the filed paths the children LISTED in the `children` object of every
directory are exactly its files and sub-directories (names pairwise distinct, nothing replaced) … -/
theorem C13_covdir_listed_children_partial (rs : List FileIn) (t : CDRoot) (h : covdir rs = .ok t)
    (g : PGuard (rs.map placedPath)) : t.NamesOK := by
  obtain ⟨rfl, _⟩ := covdir_ok h
  exact covdirTree_namesOK rs g

/-- … so the sums of C13 are sums over what the report shows: root and every directory at every
depth. -/
theorem C13_covdir_report_sums_partial (rs : List FileIn) (t : CDRoot) (h : covdir rs = .ok t)
    (g : PGuard (rs.map placedPath)) :
    t.stats = listedSum t.files t.sub ∧ t.sub.ListedOK := by
  obtain ⟨hn1, hn2⟩ := C13_covdir_listed_children_partial rs t h g
  obtain ⟨rfl, h0⟩ := covdir_ok h
  obtain ⟨s1, s2⟩ := covdirTree_sums rs h0
  exact ⟨by rw [listedSum_of_nodup _ _ hn1]; exact s1, listedOK_of_sums _ s2 hn2⟩

/-- the covdir writer panics (overflow checks on) exactly when some file has line 0 -/
theorem C13_covdir_line0_panics (rs : List FileIn) :
    (∃ s, covdir rs = .panic s) ↔ ∃ r ∈ rs, ∃ kv ∈ r.cov.lines, kv.1 = 0 := by
  unfold covdir
  constructor
  · intro ⟨s, h⟩
    split at h
    · rename_i hany
      simp only [List.any_eq_true, beq_iff_eq] at hany
      exact hany
    · cases h
  · intro h
    have : (rs.any fun r => r.cov.lines.any fun kv => kv.1 == 0) = true := by
      simp only [List.any_eq_true, beq_iff_eq]; exact h
    exact ⟨_, by rw [if_pos this]⟩

/-- closed witness (what `DA:0,5` gives) -/
example : ∃ s, covdir [⟨true, true, [[97]], [[47], [97]], { lines := [(0, 5), (2, 1)] }⟩] = .panic s :=
  ⟨_, rfl⟩

example : PGuard ([⟨true, true, [[97], [98]], [], {}⟩, ⟨true, true, [[97], [99]], [], {}⟩, ⟨false, true, [], [[47], [100]], {}⟩].map placedPath) :=
  ⟨by decide, by decide⟩

/-! ## the printed rate (`Stats/Printed.lean`) -/

/-- `a ≤ b` on exact rates (cross-multiplied) -/
def rateLe (a b : Rate) : Prop := a.num * b.den ≤ b.num * a.den

/-- every rate of the reports grows with the covered count (total fixed): covdir's coveragePercent,
the html and markdown percentages, cobertura's and ade's rates -/
theorem C13_rates_monotone (c c' t : Nat) (h : c ≤ c') :
    rateLe (cdPercent c t) (cdPercent c' t) ∧ rateLe (htmlPercent c t) (htmlPercent c' t) ∧
    rateLe (mdPercent c t) (mdPercent c' t) ∧
    rateLe (CobStats.lineRate ⟨c, t, 0, 0⟩) (CobStats.lineRate ⟨c', t, 0, 0⟩) ∧
    (∀ u, rateLe (adePart c (u + (c' - c))).rate (adePart c' u).rate) := by
  refine ⟨?_, ?_, ?_, ?_, ?_⟩
  · unfold rateLe cdPercent; by_cases ht : t = 0
    · subst ht; simp
    · simp only [ne_eq, ht, not_false_eq_true, if_true]
      exact Nat.mul_le_mul_right _ (Nat.mul_le_mul_left _ h)
  · unfold rateLe htmlPercent; by_cases ht : t = 0
    · subst ht; simp
    · simp only [ne_eq, ht, not_false_eq_true, if_true]
      exact Nat.mul_le_mul_right _ (Nat.mul_le_mul_left _ h)
  · unfold rateLe mdPercent; by_cases ht : t = 0 <;> simp only [ht, if_true, if_false]
    · exact Nat.le_refl _
    · exact Nat.mul_le_mul_right _ (Nat.mul_le_mul_left _ h)
  · unfold rateLe CobStats.lineRate; by_cases ht : 0 < t <;> simp only [ht, if_true, if_false]
    · exact Nat.mul_le_mul_right _ h
    · exact Nat.le_refl _
  · intro u
    unfold rateLe adePart
    simp only
    have : c + (u + (c' - c)) = c' + u := by omega
    rw [this]; exact Nat.mul_le_mul_right _ h

/-- the rates are numbers for EVERY total, 0 included (covdir 0, html and markdown 100, cobertura
0), and lie in [0,100] resp. [0,1]; only ade's 0/0 is not a number (`C13_ade_finite_false`) -/
theorem C13_rates_finite_in_range (c t : Nat) (h : c ≤ t) :
    ((cdPercent c t).Finite ∧ (cdPercent c t).InPercent) ∧
    ((htmlPercent c t).Finite ∧ (htmlPercent c t).InPercent) ∧
    ((mdPercent c t).Finite ∧ (mdPercent c t).InPercent) ∧
    ((CobStats.lineRate ⟨c, t, 0, 0⟩).Finite ∧ (CobStats.lineRate ⟨c, t, 0, 0⟩).InUnit) := by
  refine ⟨?_, ?_, ?_, ?_⟩
  · unfold cdPercent Rate.Finite Rate.InPercent; by_cases ht : t ≠ 0 <;> simp [ht] <;> omega
  · unfold htmlPercent Rate.Finite Rate.InPercent; by_cases ht : t ≠ 0 <;> simp [ht] <;> omega
  · unfold mdPercent Rate.Finite Rate.InPercent; by_cases ht : t = 0 <;> simp [ht] <;> omega
  · unfold CobStats.lineRate Rate.Finite Rate.InUnit; by_cases ht : 0 < t <;> simp [ht] <;> omega

/-- what `printedOK` accepts: a decimal numeral whose exact value is within the bound of the
format (half a unit of the last printed place + the documented float slack) of the exact rate,
which must be a number -/
theorem C13_printed_admissible (t : Tol) (r : Rate) (s : List Nat) (h : printedOK t r s = true) :
    r.Finite ∧ ∃ d, parseDec s = some d ∧
      (if d.neg then d.absNum * r.den + r.num * d.den else absDiff (d.absNum * r.den) (r.num * d.den))
        * t.boundDen ≤ t.boundNum * (d.den * r.den) := by
  unfold printedOK at h
  cases hd : parseDec s with
  | none => simp [hd] at h
  | some d =>
    simp only [hd, Dec.closeTo, decide_eq_true_eq] at h
    exact ⟨h.1, d, rfl, h.2⟩

/-- 59 of 60 lines at `--precision 2`: "98.33" is admissible, "98.34" and "98.3" are not; at
precision 1 "98.3" is; exponent forms are read; words are not numbers -/
example : (tolOf "covdir" 2).map (fun t => (printedOK t (cdPercent 59 60) [57, 56, 46, 51, 51],
    printedOK t (cdPercent 59 60) [57, 56, 46, 51, 52], printedOK t (cdPercent 59 60) [57, 56, 46, 51])) =
    some (true, false, false) := by decide
example : (tolOf "covdir" 1).map (fun t => printedOK t (cdPercent 59 60) [57, 56, 46, 51]) = some true := by decide
example : (tolOf "html" 0).map (fun t => (printedOK t (htmlPercent 1 1) [49, 101, 50], printedOK t (htmlPercent 1 1) [78, 97, 78])) =
    some (true, false) := by decide

end Grcov.Props.C13
