/-
C11, part `Partial` — the Java/Kotlin partial-path lookup (`map_partial_path`) inside the model.
Property theorems only, about `Rewrite.rewritePathsJ` (GrcovModel/Rewrite/Partial.lean): the
pipeline of `rewrite_paths` with the lookup step between prefix removal and `get_abs_path`.
Helper lemmas: GrcovModel/Lemmas/RewritePartial.lean.

Quantification: every configuration, file system, WALK ORDER (`ord`: the order in which the
unsorted `WalkDir` yields the tree's entries — `readdir` order, a parameter) and result map.

* `C11_partial_conservative…` transfer every theorem of Props/C11.lean to `rewritePathsJ` wherever
  the lookup is not needed or a key's path has no java/kt extension.
* The `--ignore G` / `--keep-only G` partition is FALSE of the code once the lookup is inside
  (finding C11-partial-path-ignore-prunes-candidates): `--ignore` globs also prune the candidate
  list, so a key resolves differently under `--ignore G`. Proved negation from a closed witness,
  replayed on the real code by harness/c11/src/partial.rs, and the `…_partial` theorem under the
  guard "G matches no walk candidate".
* With two candidates that both end with the path the result depends on `ord`
  (`C11_partial_order_dependent`).
-/
import GrcovModel.Lemmas.RewritePartial
namespace Grcov.Props.C11
open Grcov Grcov.UPath Grcov.Glob Grcov.Rewrite

/-! ### the lookup is conservative -/

/-- `rewritePathsJ` IS `rewritePaths` whenever the lookup is not needed (no source dir, no
java/kt key, or every key exists below the source dir), and also when the walk does not panic and
no key's mapped, prefix-stripped path has a java/kt extension. Every theorem of Props/C11.lean
about `rewritePaths` therefore holds of `rewritePathsJ` on these inputs. -/
theorem C11_partial_conservative (cfg : Cfg) (fs : FS) (ord : List (List Bytes)) (m : List (Bytes × Cov))
    (h : needed cfg fs (m.map (·.1)) = false ∨
      (walkPanics cfg fs (m.map (·.1)) = false ∧ ∀ kc ∈ m, isPartialExt (keyPath cfg kc.1) = false)) :
    rewritePathsJ cfg fs ord m = rewritePaths cfg fs m := by
  rcases h with h | ⟨hw, h⟩
  · exact rewritePathsJ_eq_rewritePaths cfg fs ord m (walkPanics_of_not_needed h) fun _ _ => Or.inl h
  · exact rewritePathsJ_eq_rewritePaths cfg fs ord m hw fun kc hkc => Or.inr (Or.inl (h kc hkc))

/-- Key by key: a key whose path has no java/kt extension goes through the very same per-key
function as without the lookup, whatever the other keys are. -/
theorem C11_partial_conservative_key (cfg : Cfg) (fs : FS) (nd : Bool) (ftp : List (Bytes × List Bytes))
    (kc : Bytes × Cov) (h : nd = false ∨ isPartialExt (keyPath cfg kc.1) = false) :
    rewriteKeyJ cfg fs nd ftp kc = rewriteKey cfg fs kc :=
  rewriteKeyJ_eq (h.elim Or.inl fun h => Or.inr (Or.inl h))

/-- A source dir whose own name starts with '.' (and that is not itself a symbolic link:
`rootPruned`) disables the lookup altogether: `filter_entry` rejects the depth-0 entry, nothing is
walked, and (the source dir existing) the report is that of `rewritePaths`. -/
theorem C11_partial_hidden_root (cfg : Cfg) (fs : FS) (ord : List (List Bytes)) (m : List (Bytes × Cov))
    (s : Bytes) (hS : cfg.sourceDir = some s) (hroot : rootPruned fs s = true)
    (hex : (fs.resolve s).isSome = true) :
    rewritePathsJ cfg fs ord m = rewritePaths cfg fs m := by
  apply rewritePathsJ_eq_rewritePaths
  · unfold walkPanics; simp [hS, hex]
  · intro _ _; exact Or.inr (Or.inr (fileToPaths_hidden_root fs ord cfg _ s hS hroot))

/-! ### membership and selection -/

/-- The report consists exactly of the records the per-key pipeline (with the lookup table and
the `needed` flag of this map) retains. -/
theorem C11_partial_report_members (cfg : Cfg) (fs : FS) (ord : List (List Bytes))
    (m : List (Bytes × Cov)) (rep : List Rec) (h : rewritePathsJ cfg fs ord m = .ok rep) (r : Rec) :
    r ∈ rep ↔ ∃ kc ∈ m, rewriteKeyJ cfg fs (needed cfg fs (m.map (·.1)))
      (fileToPaths fs ord cfg (m.map (·.1))) kc = .ok (some r) :=
  mem_rewritePathsJ h r

/-- `C11_selection_iff` for `rewritePathsJ`: the selection clauses (`--ignore`, `--keep-only`,
`--ignore-not-existing`, `--filter`) apply to the path AFTER the partial mapping — `resolveKeyJ`
is the path part of the pipeline with the lookup inside, and it does not look at the filters. -/
theorem C11_partial_selection_iff (cfg : Cfg) (fs : FS) (nd : Bool) (ftp : List (Bytes × List Bytes))
    (kc : Bytes × Cov) (r : Rec) :
    rewriteKeyJ cfg fs nd ftp kc = .ok (some r) ↔
      ∃ abs rel, resolveKeyJ cfg fs nd ftp kc.1 = .ok (some (abs, rel)) ∧
        setMatch cfg.ignore rel = false ∧
        (cfg.keep = [] ∨ setMatch cfg.keep rel = true) ∧
        (cfg.ignoreNotExisting = true → fs.exists abs = true) ∧
        filterOk cfg.filter kc.2 = true ∧
        r = ⟨abs, rel, kc.2⟩ := by
  rw [rewriteKeyJ_some_iff]
  constructor
  · rintro ⟨a, rl, h1, h2⟩; exact ⟨a, rl, h1, (selectRec_some_iff _ _ _ _ _ _).1 h2⟩
  · rintro ⟨a, rl, h1, h2⟩; exact ⟨a, rl, h1, (selectRec_some_iff _ _ _ _ _ _).2 h2⟩

/-- The path part is `get_abs_path` of the looked-up path, then the final step: mapping, prefix
removal, THEN the lookup, then `get_abs_path`, then backslashes to '/' and a second normalisation. -/
theorem C11_partial_pipeline_order (cfg : Cfg) (fs : FS) (ord : List (List Bytes)) (keys : List Bytes)
    (key abs rel : Bytes)
    (h : resolveKeyJ cfg fs (needed cfg fs keys) (fileToPaths fs ord cfg keys) key = .ok (some (abs, rel))) :
    ∃ r0, getAbsPath fs cfg.sourceDir (mappedPath cfg fs ord keys key) = .ok (some (abs, r0)) ∧
      normalizePath (bsl r0) = some rel :=
  resolveKeyJ_some h

/-- Coverage data is passed through unchanged, and no entry yields more than one record. -/
theorem C11_partial_data_passthrough (cfg : Cfg) (fs : FS) (ord : List (List Bytes))
    (m : List (Bytes × Cov)) (rep : List Rec) (h : rewritePathsJ cfg fs ord m = .ok rep) :
    (∀ r ∈ rep, ∃ kc ∈ m, r.cov = kc.2) ∧ rep.length ≤ m.length := by
  constructor
  · intro r hr
    obtain ⟨kc, hkc, hk⟩ := (mem_rewritePathsJ h r).1 hr
    refine ⟨kc, hkc, ?_⟩
    obtain ⟨_, _, _, _, _, _, _, e⟩ := (C11_partial_selection_iff cfg fs _ _ kc r).1 hk
    rw [e]
  · obtain ⟨_, _, _, e⟩ := (rewritePathsJ_eq_ok cfg fs ord m rep).1 h
    rw [e]; exact List.length_filterMap_le _ _

/-! ### which files are candidates, and what the lookup answers -/

/-- The candidates of a file name, for an existing, non-hidden source directory: exactly the
source-relative paths of the walked entries below it that are regular files with that name, with
extension java/kt, with no hidden component on the way (a hidden directory prunes its subtree, a
hidden file is skipped), whose name is the last `\`- or `/`-separated piece of some key, and that
match no `--ignore` glob. -/
theorem C11_partial_candidates (cfg : Cfg) (fs : FS) (ord : List (List Bytes)) (keys : List Bytes)
    (s : Bytes) (S : List Bytes) (hS : cfg.sourceDir = some s) (hres : fs.resolve s = some (S, .dir))
    (hroot : rootPruned fs s = false) (n c : Bytes) :
    c ∈ candidatesFor fs ord cfg keys n ↔
      ∃ rel, S ++ rel ∈ ord ∧ c = join rel ∧ rel.getLast? = some n ∧
        (∀ x ∈ rel, hidden x = false) ∧ isPartialExtName n = true ∧
        fs.kind (S ++ rel) = some Kind.file ∧ n ∈ coveredNames keys ∧
        setMatch cfg.ignore (join rel) = false := by
  rw [mem_candidatesFor hS hres hroot]
  constructor
  · rintro ⟨rel, h1, h2, h3⟩; exact ⟨rel, h1, h3, h2⟩
  · rintro ⟨rel, h1, h3, h2⟩; exact ⟨rel, h1, h2, h3⟩

/-- `map_partial_path`, for a path whose file name is `n`: no candidate of that name ⇒ the path
is unchanged; exactly one ⇒ that candidate, whether or not it ends with the path; several ⇒ the
FIRST one in walk order that `ends_with` the path, the path itself if none does. -/
theorem C11_partial_lookup (cfg : Cfg) (fs : FS) (ord : List (List Bytes)) (keys : List Bytes)
    (p n : Bytes) (hn : fileName p = some n) :
    mapPartialPath (fileToPaths fs ord cfg keys) p =
      match candidatesFor fs ord cfg keys n with
      | [] => p
      | [c] => c
      | opts => ((opts.find? fun o => endsWith o p).getD p) :=
  mapPartialPath_candidates fs ord cfg keys p n hn

/-- The lookup is attempted exactly for keys whose mapped, prefix-stripped path has extension
java/kt and does NOT name a file below the source dir (fix fdef150: "a path that names a file below
the source directory is not a partial one"), and only when it is needed; such a path always has a
file name (`unwrap` is safe). -/
theorem C11_partial_when (cfg : Cfg) (fs : FS) (ord : List (List Bytes)) (keys : List Bytes) (key : Bytes) :
    (needed cfg fs keys = true → isPartialExt (keyPath cfg key) = true →
      namesFile fs cfg.sourceDir (keyPath cfg key) = false →
      (∃ n, fileName (keyPath cfg key) = some n) ∧
      mappedPath cfg fs ord keys key = mapPartialPath (fileToPaths fs ord cfg keys) (keyPath cfg key)) ∧
    ((needed cfg fs keys = false ∨ isPartialExt (keyPath cfg key) = false ∨
        namesFile fs cfg.sourceDir (keyPath cfg key) = true) →
      mappedPath cfg fs ord keys key = keyPath cfg key) := by
  constructor
  · intro h1 h2 h3
    exact ⟨fileName_of_partialExt h2, by simp [mappedPath, partialStepF, partialStep, h1, h2, h3]⟩
  · intro h
    exact partialStepF_id (h.elim Or.inl fun h => h.elim (fun h => Or.inr (Or.inl h))
      fun h => Or.inr (Or.inr (Or.inr h)))

/-- A key whose path names a regular file below the source dir is handed to `get_abs_path` as it is,
whatever the walk found (fix fdef150; before it such a key could be re-mapped to another module's
file of the same name: Props.C12.C12_java_nested_remap_regression). -/
theorem C11_partial_existing_file_kept (cfg : Cfg) (fs : FS) (ord : List (List Bytes)) (keys : List Bytes)
    (key : Bytes) (h : namesFile fs cfg.sourceDir (keyPath cfg key) = true) :
    mappedPath cfg fs ord keys key = keyPath cfg key ∧
    resolveKeyJ cfg fs (needed cfg fs keys) (fileToPaths fs ord cfg keys) key = resolveKey cfg fs key := by
  refine ⟨partialStepF_id (Or.inr (Or.inr (Or.inr h))), ?_⟩
  unfold resolveKeyJ resolveKey
  rw [partialStepF_id (Or.inr (Or.inr (Or.inr h)))]

/-- Unique candidate: if, in a duplicate-free walk, exactly one non-hidden, non-ignored java/kt
file below the source dir has the key's file name, the key's path becomes that file's
source-relative path. -/
theorem C11_partial_unique_candidate (cfg : Cfg) (fs : FS) (ord : List (List Bytes)) (keys : List Bytes)
    (s : Bytes) (S : List Bytes) (key n : Bytes) (rel : List Bytes)
    (hS : cfg.sourceDir = some s) (hres : fs.resolve s = some (S, .dir))
    (hroot : rootPruned fs s = false) (hnd : needed cfg fs keys = true)
    (hext : isPartialExt (keyPath cfg key) = true) (hn : fileName (keyPath cfg key) = some n)
    (hnf : namesFile fs cfg.sourceDir (keyPath cfg key) = false)
    (hord : ord.Nodup) (hmem : S ++ rel ∈ ord) (hc : IsCandidate fs cfg keys S rel n)
    (huniq : ∀ rel', S ++ rel' ∈ ord → IsCandidate fs cfg keys S rel' n → rel' = rel) :
    mappedPath cfg fs ord keys key = join rel := by
  rw [((C11_partial_when cfg fs ord keys key).1 hnd hext hnf).2, C11_partial_lookup _ _ _ _ _ n hn,
    candidatesFor_unique hS hres hroot n rel hord hmem hc huniq]

/-- … and the key is then reported under that file: with a clean absolute source dir `/sn…`, the
file existing and its names free of backslashes, the resolved pair is (`source_dir/rel`, `rel`). -/
theorem C11_partial_unique_reported (cfg : Cfg) (fs : FS) (ord : List (List Bytes)) (keys : List Bytes)
    (key n : Bytes) (sn rel : List Bytes)
    (hsn : ∀ x ∈ sn, RealName x) (hrel : ∀ x ∈ rel, RealName x) (hbs : ∀ x ∈ rel, 92 ∉ x)
    (hS : cfg.sourceDir = some (render ⟨true, sn⟩))
    (hres : fs.resolve (render ⟨true, sn⟩) = some (sn, .dir))
    (hroot : rootPruned fs (render ⟨true, sn⟩) = false)
    (hkey : (cfg.mapping.isSome && (bsl key).isEmpty) = false)
    (hnd : needed cfg fs keys = true)
    (hext : isPartialExt (keyPath cfg key) = true) (hn : fileName (keyPath cfg key) = some n)
    (hnf : namesFile fs cfg.sourceDir (keyPath cfg key) = false)
    (hord : ord.Nodup) (hmem : sn ++ rel ∈ ord) (hc : IsCandidate fs cfg keys sn rel n)
    (huniq : ∀ rel', sn ++ rel' ∈ ord → IsCandidate fs cfg keys sn rel' n → rel' = rel)
    (hfile : fs.resolve (render ⟨true, sn ++ rel⟩) = some (sn ++ rel, .file)) :
    resolveKeyJ cfg fs (needed cfg fs keys) (fileToPaths fs ord cfg keys) key =
      .ok (some (render ⟨true, sn ++ rel⟩, join rel)) := by
  have hne : rel ≠ [] := by intro e; have := hc.1; simp [e] at this
  have hm := C11_partial_unique_candidate cfg fs ord keys _ sn key n rel hS hres hroot hnd hext hn hnf
    hord hmem hc huniq
  unfold mappedPath at hm
  unfold resolveKeyJ
  rw [hkey, hm, hS]
  simp only [Bool.false_eq_true, if_false]
  rw [getAbsPath_under_source hsn hrel hne hfile]
  simp only [finishPath]
  rw [join_eq_render, finalRel_render (np := ⟨false, rel⟩) hrel hbs]

/-- Several candidates, exactly one of which ends with the path: that one. -/
theorem C11_partial_unique_suffix (cfg : Cfg) (fs : FS) (ord : List (List Bytes)) (keys : List Bytes)
    (p n c : Bytes) (hn : fileName p = some n)
    (hlen : (candidatesFor fs ord cfg keys n).length ≠ 1)
    (hc : c ∈ candidatesFor fs ord cfg keys n) (he : endsWith c p = true)
    (hu : ∀ c' ∈ candidatesFor fs ord cfg keys n, endsWith c' p = true → c' = c) :
    mapPartialPath (fileToPaths fs ord cfg keys) p = c := by
  rw [C11_partial_lookup _ _ _ _ _ n hn]
  match hl : candidatesFor fs ord cfg keys n with
  | [] => rw [hl] at hc; cases hc
  | [c0] => rw [hl] at hlen; exact absurd rfl hlen
  | a :: b :: t =>
    simp only
    cases hf : List.find? (fun o => endsWith o p) (a :: b :: t) with
    | none =>
      rw [hl] at hc
      have := List.find?_eq_none.1 hf c hc
      simp [he] at this
    | some c' =>
      have h1 := List.find?_some hf
      have h2 := List.mem_of_find?_eq_some hf
      simp only [Option.getD_some]
      exact hu c' (hl ▸ h2) h1

/-- Several candidates (or none), none of which ends with the path: the path is unchanged. -/
theorem C11_partial_no_suffix (cfg : Cfg) (fs : FS) (ord : List (List Bytes)) (keys : List Bytes)
    (p n : Bytes) (hn : fileName p = some n)
    (hlen : (candidatesFor fs ord cfg keys n).length ≠ 1)
    (hnone : ∀ c ∈ candidatesFor fs ord cfg keys n, endsWith c p = false) :
    mapPartialPath (fileToPaths fs ord cfg keys) p = p := by
  rw [C11_partial_lookup _ _ _ _ _ n hn]
  match hl : candidatesFor fs ord cfg keys n with
  | [] => rfl
  | [c0] => rw [hl] at hlen; exact absurd rfl hlen
  | a :: b :: t =>
    simp only
    have : List.find? (fun o => endsWith o p) (a :: b :: t) = none := by
      rw [List.find?_eq_none]
      intro c hc; rw [hnone c (hl ▸ hc)]; simp
    rw [this]; rfl

/-! ### normal form -/

/-- Every candidate is a walk-relative path: the '/'-join of directory-entry names, hence in
normal form whenever the walked names are real names (non-empty, no '/', not "." or ".."). -/
theorem C11_partial_candidates_normal (cfg : Cfg) (fs : FS) (ord : List (List Bytes)) (keys : List Bytes)
    (s : Bytes) (hreal : ∀ p ∈ ord, ∀ x ∈ p, RealName x) (e : Bytes × Bytes)
    (h : e ∈ walkCands fs ord cfg s keys) : NormalFormP e.2 := by
  obtain ⟨rel, e2, hrel⟩ := walkCands_join e h
  refine ⟨⟨false, rel⟩, by rw [e2, join_eq_render], ?_⟩
  intro x hx
  obtain ⟨p, hp, hxp⟩ := hrel x hx
  exact hreal p hp x hxp

/-- `C11_normal_form`, `C11_no_backslash` and `C11_abs_normal_form` for `rewritePathsJ`: every
reported relative path is in normal form and contains no backslash, every reported absolute path is
in normal form — whatever the lookup answered (since fix 568afd2 no guard is needed). -/
theorem C11_partial_normal_form (cfg : Cfg) (fs : FS) (nd : Bool) (ftp : List (Bytes × List Bytes))
    (kc : Bytes × Cov) (r : Rec) (h : rewriteKeyJ cfg fs nd ftp kc = .ok (some r)) :
    NormalFormP r.rel ∧ 92 ∉ r.rel ∧ NormalFormP r.abs := by
  obtain ⟨a, rl, h1, _, _, _, _, e⟩ := (C11_partial_selection_iff cfg fs nd ftp kc r).1 h
  obtain ⟨r0, hg, hf⟩ := resolveKeyJ_some h1
  obtain ⟨ac, _, hna, _⟩ := (getAbsPath_some_iff _ _ _ _ _).1 hg
  obtain ⟨npa, enpa, hreala, _⟩ := normalizePath_shape hna
  rw [e]
  exact ⟨(finalRel_shape hf).1, (finalRel_shape hf).2, ⟨npa, enpa, hreala⟩⟩

/-! ### partitions -/

/-- `--filter covered` and `--filter uncovered` partition the unfiltered report of `rewritePathsJ`
(full strength: the lookup does not read the filter). -/
theorem C11_partial_covered_uncovered_partition (cfg : Cfg) (hf : cfg.filter = none) (fs : FS)
    (ord : List (List Bytes)) (m : List (Bytes × Cov)) (rep : List Rec)
    (h : rewritePathsJ cfg fs ord m = .ok rep) :
    ∃ rc ru, rewritePathsJ { cfg with filter := some true } fs ord m = .ok rc ∧
      rewritePathsJ { cfg with filter := some false } fs ord m = .ok ru ∧ (rc ++ ru).Perm rep :=
  partition_reportsJ cfg { cfg with filter := some true } { cfg with filter := some false } fs ord m
    ⟨rfl, rfl, rfl⟩ ⟨rfl, rfl, rfl⟩ (fileToPaths_congr rfl rfl fs ord _) (fileToPaths_congr rfl rfl fs ord _)
    (fun a r c => selectRec_filter cfg hf fs a r c) rep h

/-- Full statement of the `--ignore G` / `--keep-only G` partition for `rewritePathsJ`.
FALSE of the code. -/
def C11_partial_ignore_keep_partition_stmt : Prop :=
  ∀ (cfg : Cfg), cfg.keep = [] → ∀ (G : GlobSet), G ≠ [] → ∀ (fs : FS) (ord : List (List Bytes))
    (m : List (Bytes × Cov)) (rep : List Rec), rewritePathsJ cfg fs ord m = .ok rep →
    ∃ ri rk, rewritePathsJ { cfg with ignore := cfg.ignore ++ G } fs ord m = .ok ri ∧
      rewritePathsJ { cfg with keep := G } fs ord m = .ok rk ∧ (ri ++ rk).Perm rep

/-- the witness: `/s/a/x/Foo.java` and `/s/b/y/Foo.java`, source dir `/s`, the one key
`x/Foo.java`, `G = a/**` -/
def pwFS : FS :=
  { files := [[[115], [97], [120], [70, 111, 111, 46, 106, 97, 118, 97]],
              [[115], [98], [121], [70, 111, 111, 46, 106, 97, 118, 97]]],
    dirs := [[[115]], [[115], [97]], [[115], [97], [120]], [[115], [98]], [[115], [98], [121]]],
    cwd := [[115]] }
def pwOrd : List (List Bytes) :=
  [[[115]], [[115], [97]], [[115], [97], [120]], [[115], [97], [120], [70, 111, 111, 46, 106, 97, 118, 97]],
   [[115], [98]], [[115], [98], [121]], [[115], [98], [121], [70, 111, 111, 46, 106, 97, 118, 97]]]
def pwCfg : Cfg := { sourceDir := some [47, 115] }
def pwMap : List (Bytes × Cov) := [([120, 47, 70, 111, 111, 46, 106, 97, 118, 97], {})]
def pwG : GlobSet := [[Tok.lit 97, Tok.recSuffix]]
def pwRecA : Rec := ⟨[47, 115, 47, 97, 47, 120, 47, 70, 111, 111, 46, 106, 97, 118, 97],
  [97, 47, 120, 47, 70, 111, 111, 46, 106, 97, 118, 97], {}⟩
def pwRecB : Rec := ⟨[47, 115, 47, 98, 47, 121, 47, 70, 111, 111, 46, 106, 97, 118, 97],
  [98, 47, 121, 47, 70, 111, 111, 46, 106, 97, 118, 97], {}⟩

/-- Witness. Unfiltered, `x/Foo.java` is `a/x/Foo.java` (the one candidate of two that ends with
it). `--ignore a/**` prunes that candidate; the remaining single candidate wins although it does
NOT end with the path, so the key is reported as `b/y/Foo.java` — a file the unfiltered report
does not contain. `--keep-only a/**` reports `a/x/Foo.java`. The two reports have two records, the
unfiltered one has one. -/
theorem C11_partial_ignore_keep_partition_false : ¬ C11_partial_ignore_keep_partition_stmt := by
  intro h
  have h0 : rewritePathsJ pwCfg pwFS pwOrd pwMap = .ok [pwRecA] := by decide +kernel
  have hI : rewritePathsJ { pwCfg with ignore := pwCfg.ignore ++ pwG } pwFS pwOrd pwMap = .ok [pwRecB] := by
    decide +kernel
  have hK : rewritePathsJ { pwCfg with keep := pwG } pwFS pwOrd pwMap = .ok [pwRecA] := by decide +kernel
  obtain ⟨ri, rk, e1, e2, hp⟩ := h pwCfg rfl pwG (by decide) pwFS pwOrd pwMap _ h0
  rw [hI] at e1; rw [hK] at e2
  cases e1; cases e2
  have := hp.length_eq
  simp at this

/-- The partition under exactly the guard the witness violates: no glob of `G` matches a walk
candidate (a non-hidden java/kt file below the source dir whose name is a covered name and that
`cfg.ignore` does not already exclude). Then `--ignore G` prunes nothing, all three runs see the
same lookup table, and the two reports partition the unfiltered one. -/
theorem C11_partial_ignore_keep_partition_partial (cfg : Cfg) (hk : cfg.keep = []) (G : GlobSet)
    (hG : G ≠ []) (fs : FS) (ord : List (List Bytes)) (m : List (Bytes × Cov)) (rep : List Rec)
    (hguard : ∀ s, cfg.sourceDir = some s →
      ∀ e ∈ walkCands fs ord cfg s (m.map (·.1)), setMatch G e.2 = false)
    (h : rewritePathsJ cfg fs ord m = .ok rep) :
    ∃ ri rk, rewritePathsJ { cfg with ignore := cfg.ignore ++ G } fs ord m = .ok ri ∧
      rewritePathsJ { cfg with keep := G } fs ord m = .ok rk ∧ (ri ++ rk).Perm rep :=
  partition_reportsJ cfg { cfg with ignore := cfg.ignore ++ G } { cfg with keep := G } fs ord m
    ⟨rfl, rfl, rfl⟩ ⟨rfl, rfl, rfl⟩ (fileToPaths_ignore_append fs ord cfg G _ hguard)
    (fileToPaths_congr rfl rfl fs ord _)
    (fun a r c => selectRec_ignore_keep cfg hk G hG fs a r c) rep h

/-- The guard holds trivially when the lookup is not needed, so the partition of Props/C11.lean
carries over unchanged there (e.g. every key exists below the source dir). -/
theorem C11_partial_ignore_keep_partition_not_needed (cfg : Cfg) (hk : cfg.keep = []) (G : GlobSet)
    (hG : G ≠ []) (fs : FS) (ord : List (List Bytes)) (m : List (Bytes × Cov)) (rep : List Rec)
    (hnd : needed cfg fs (m.map (·.1)) = false)
    (h : rewritePathsJ cfg fs ord m = .ok rep) :
    ∃ ri rk, rewritePathsJ { cfg with ignore := cfg.ignore ++ G } fs ord m = .ok ri ∧
      rewritePathsJ { cfg with keep := G } fs ord m = .ok rk ∧ (ri ++ rk).Perm rep := by
  have e0 := C11_partial_conservative cfg fs ord m (Or.inl hnd)
  have eI := C11_partial_conservative { cfg with ignore := cfg.ignore ++ G } fs ord m
    (Or.inl ((needed_congr rfl rfl fs _).trans hnd))
  have eK := C11_partial_conservative { cfg with keep := G } fs ord m
    (Or.inl ((needed_congr rfl rfl fs _).trans hnd))
  rw [eI, eK]
  rw [e0] at h
  exact partition_reports cfg { cfg with ignore := cfg.ignore ++ G } { cfg with keep := G } fs m ⟨rfl, rfl⟩
    (fun kc _ => rewriteKey_ignore_keep cfg hk G hG fs kc) rep h

/-! ### order dependence -/

/-- `/s/a/x/Foo.java` and `/s/b/x/Foo.java`: both end with the key `x/Foo.java` -/
def poFS : FS :=
  { files := [[[115], [97], [120], [70, 111, 111, 46, 106, 97, 118, 97]],
              [[115], [98], [120], [70, 111, 111, 46, 106, 97, 118, 97]]],
    dirs := [[[115]], [[115], [97]], [[115], [97], [120]], [[115], [98]], [[115], [98], [120]]],
    cwd := [[115]] }
def poOrdA : List (List Bytes) :=
  [[[115]], [[115], [97]], [[115], [97], [120]], [[115], [97], [120], [70, 111, 111, 46, 106, 97, 118, 97]],
   [[115], [98]], [[115], [98], [120]], [[115], [98], [120], [70, 111, 111, 46, 106, 97, 118, 97]]]
def poOrdB : List (List Bytes) :=
  [[[115]], [[115], [98]], [[115], [98], [120]], [[115], [98], [120], [70, 111, 111, 46, 106, 97, 118, 97]],
   [[115], [97]], [[115], [97], [120]], [[115], [97], [120], [70, 111, 111, 46, 106, 97, 118, 97]]]
def poRecB : Rec := ⟨[47, 115, 47, 98, 47, 120, 47, 70, 111, 111, 46, 106, 97, 118, 97],
  [98, 47, 120, 47, 70, 111, 111, 46, 106, 97, 118, 97], {}⟩

/-- With two candidates that both end with the path, the report depends on the walk order: the
same tree, configuration and map, walked `a` first or `b` first (both are pre-order walks of the
tree, permutations of each other), give different reports. (An error is logged, the first match
is used.) -/
theorem C11_partial_order_dependent :
    poOrdA.Perm poOrdB ∧
    rewritePathsJ pwCfg poFS poOrdA pwMap = .ok [pwRecA] ∧
    rewritePathsJ pwCfg poFS poOrdB pwMap = .ok [poRecB] ∧ pwRecA ≠ poRecB := by
  refine ⟨by decide +kernel, by decide +kernel, by decide +kernel, by decide⟩

/-- … and only then: when at most one candidate ends with the path (or there is exactly one
candidate), two duplicate-free walks of the same entries give the same answer. Stated for the
lookup itself: the answer is determined by the SET of candidates. -/
theorem C11_partial_order_independent (cfg : Cfg) (fs : FS) (ord ord' : List (List Bytes))
    (keys : List Bytes) (p n : Bytes) (hn : fileName p = some n)
    (hsame : ∀ c, c ∈ candidatesFor fs ord cfg keys n ↔ c ∈ candidatesFor fs ord' cfg keys n)
    (hlen : (candidatesFor fs ord cfg keys n).length = (candidatesFor fs ord' cfg keys n).length)
    (hu : ∀ c ∈ candidatesFor fs ord cfg keys n, ∀ c' ∈ candidatesFor fs ord cfg keys n,
      endsWith c p = true → endsWith c' p = true → c = c') :
    mapPartialPath (fileToPaths fs ord cfg keys) p = mapPartialPath (fileToPaths fs ord' cfg keys) p := by
  by_cases h1 : (candidatesFor fs ord cfg keys n).length = 1
  · -- one candidate on both sides, the same one
    have h1' := hlen ▸ h1
    rw [C11_partial_lookup _ _ _ _ _ n hn, C11_partial_lookup _ _ _ _ _ n hn]
    match hl : candidatesFor fs ord cfg keys n, hl' : candidatesFor fs ord' cfg keys n with
    | [c], [c'] =>
      have : c ∈ candidatesFor fs ord' cfg keys n := (hsame c).1 (by rw [hl]; simp)
      rw [hl'] at this; simp at this; subst this; rfl
    | [], _ => rw [hl] at h1; cases h1
    | _ :: _ :: _, _ => rw [hl] at h1; simp at h1
    | [_], [] => rw [hl'] at h1'; cases h1'
    | [_], _ :: _ :: _ => rw [hl'] at h1'; simp at h1'
  · have h1' : (candidatesFor fs ord' cfg keys n).length ≠ 1 := hlen ▸ h1
    by_cases hex : ∃ c ∈ candidatesFor fs ord cfg keys n, endsWith c p = true
    · obtain ⟨c, hc, he⟩ := hex
      rw [C11_partial_unique_suffix cfg fs ord keys p n c hn h1 hc he fun c' hc' he' => hu c' hc' c hc he' he,
        C11_partial_unique_suffix cfg fs ord' keys p n c hn h1' ((hsame c).1 hc) he
          fun c' hc' he' => hu c' ((hsame c').2 hc') c hc he' he]
    · have hnone : ∀ c ∈ candidatesFor fs ord cfg keys n, endsWith c p = false := by
        intro c hc
        cases he : endsWith c p with
        | false => rfl
        | true => exact absurd ⟨c, hc, he⟩ hex
      rw [C11_partial_no_suffix cfg fs ord keys p n hn h1 hnone,
        C11_partial_no_suffix cfg fs ord' keys p n hn h1' fun c hc => hnone c ((hsame c).2 hc)]

/-! ### non-vacuity -/

example : Glob.parse [97, 47, 42, 42] = some [Tok.lit 97, Tok.recSuffix] := by decide

/-- the witness tree: the lookup is needed (the key does not exist below `/s`), the key's path has
a java extension and the file name `Foo.java`, and there are two candidates of that name -/
example : needed pwCfg pwFS (pwMap.map (·.1)) = true ∧
    isPartialExt (keyPath pwCfg [120, 47, 70, 111, 111, 46, 106, 97, 118, 97]) = true ∧
    fileName [120, 47, 70, 111, 111, 46, 106, 97, 118, 97] = some [70, 111, 111, 46, 106, 97, 118, 97] ∧
    candidatesFor pwFS pwOrd pwCfg (pwMap.map (·.1)) [70, 111, 111, 46, 106, 97, 118, 97] =
      [[97, 47, 120, 47, 70, 111, 111, 46, 106, 97, 118, 97], [98, 47, 121, 47, 70, 111, 111, 46, 106, 97, 118, 97]] := by
  decide +kernel

/-- the hypotheses of `C11_partial_unique_reported` are satisfiable: under `--ignore a/**` the
witness tree has the single candidate `b/y/Foo.java`, a candidate in the sense of `IsCandidate`,
found in a duplicate-free walk, for a clean source dir that resolves to a directory -/
example : IsCandidate pwFS { pwCfg with ignore := pwG } (pwMap.map (·.1)) [[115]]
      [[98], [121], [70, 111, 111, 46, 106, 97, 118, 97]] [70, 111, 111, 46, 106, 97, 118, 97] ∧
    pwOrd.Nodup ∧ pwFS.resolve (render ⟨true, [[115]]⟩) = some ([[115]], .dir) ∧
    rootPruned pwFS (render ⟨true, [[115]]⟩) = false ∧
    pwFS.resolve (render ⟨true, [[115]] ++ [[98], [121], [70, 111, 111, 46, 106, 97, 118, 97]]⟩) =
      some ([[115]] ++ [[98], [121], [70, 111, 111, 46, 106, 97, 118, 97]], .file) ∧
    (∀ x ∈ [[98], [121], [70, 111, 111, 46, 106, 97, 118, 97]], 92 ∉ x) := by
  unfold IsCandidate
  decide +kernel

/-- extension rules of `Path::extension`: `Foo.java` java; `.java` none (leading dot only);
`a.b.kt` kt; `Foo.java.bak` no; a directory-looking `x/Foo.java/` still java; `x/..` none -/
example : isPartialExt [70, 111, 111, 46, 106, 97, 118, 97] = true ∧
    isPartialExt [46, 106, 97, 118, 97] = false ∧
    isPartialExt [97, 46, 98, 46, 107, 116] = true ∧
    isPartialExt [70, 111, 111, 46, 106, 97, 118, 97, 46, 98, 97, 107] = false ∧
    isPartialExt [120, 47, 70, 111, 111, 46, 106, 97, 118, 97, 47] = true ∧
    isPartialExt [120, 47, 46, 46] = false := by decide

/-- `needed` is triggered by a NON-Java key: `Foo.java` exists below `/s` (so it alone would not
need the lookup), `gone.c` does not, and then `Foo.java`… is looked up -/
example :
    let fs : FS := { files := [[[115], [70, 111, 111, 46, 106, 97, 118, 97]]], dirs := [[[115]]], cwd := [[115]] }
    needed pwCfg fs [[70, 111, 111, 46, 106, 97, 118, 97]] = false ∧
    needed pwCfg fs [[70, 111, 111, 46, 106, 97, 118, 97], [103, 111, 110, 101, 46, 99]] = true := by
  decide +kernel

/-- a hidden source dir name (`/s/.h`) yields no candidates although `/s/.h/x/Foo.java` exists -/
example :
    let fs : FS := { files := [[[115], [46, 104], [120], [70, 111, 111, 46, 106, 97, 118, 97]]],
                     dirs := [[[115]], [[115], [46, 104]], [[115], [46, 104], [120]]], cwd := [[115]] }
    let cfg : Cfg := { sourceDir := some [47, 115, 47, 46, 104] }
    needed cfg fs [[70, 111, 111, 46, 106, 97, 118, 97]] = true ∧
    fileToPaths fs [[[115], [46, 104], [120], [70, 111, 111, 46, 106, 97, 118, 97]]] cfg
      [[70, 111, 111, 46, 106, 97, 118, 97]] = [] := by
  decide +kernel

end Grcov.Props.C11
