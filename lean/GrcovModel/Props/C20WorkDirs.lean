/-
C20, part `WorkDirs` — "for every thread count": the private, initially empty worker directory
that `C20_isolation` / `C20_every_assignment` start from is not an assumption about the run but a
THEOREM about the layout of the temporary directory since fix 232bfd3 (model
`Consumer.WorkDirs`: the real tree below `tmp`, the producer's extractions and the workers' steps
as events in any interleaving):

* no extraction destination — for ANY relative input name: `0/a`, `1`, `inputs/0`, … — and no
  directory created on the way lies in or below a worker directory, and two workers' directories
  are apart (`C20_extractions_apart_from_workers`, `C20_worker_dirs_apart`);
* hence in every interleaving of extractions and steps every worker yields exactly what
  `Consumer.runItems` yields for its items from an empty private directory
  (`C20_private_directory`), and `C20_every_assignment` holds of the real tree
  (`C20_every_schedule`);
* with the former layout (extractions directly below `tmp`) this is false: closed witness, the
  input directory `0` of finding C20-input-dir-named-like-worker-dir.

The companion statement over `Confine.resolve`d destinations (symbolic links, `..`) belongs to C19
(`C19_extractions_apart_from_workers`, package W2); here paths are the component lists the program
itself builds with `join`, which is enough because neither `tmp/<i>` nor `tmp/inputs` is ever a
link (both are created by the run inside a fresh `tempdir()`), and entry names with `..` or a root
are rejected by the producer before any destination is built (C19).
-/
import GrcovModel.Lemmas.ConsumerWorkDirs
import GrcovModel.Props.C20Consumer
namespace Grcov.Props.C20
open Grcov Grcov.Consumer Grcov.Consumer.WorkDirs

/-- Whatever the relative name of an input (its directories included), its extraction
destination, and every directory created for it, is neither a worker directory nor below one. -/
theorem C20_extractions_apart_from_workers (tmp rel r : Path) (i : Nat) :
    ¬ workerDir tmp i <+: (layoutNew tmp rel).1 ++ r := by
  intro h
  unfold workerDir layoutNew at h
  simp only [List.append_assoc] at h
  have h1 := (List.prefix_append_right_inj tmp).1 h
  simp only [List.singleton_append, List.cons_prefix_cons] at h1
  exact dec_ne_inputs i h1.1

/-- Two workers' directories are apart: neither is the other or below it. -/
theorem C20_worker_dirs_apart (tmp r : Path) (i j : Nat) (h : i ≠ j) :
    ¬ workerDir tmp i <+: workerDir tmp j ++ r := by
  intro hp
  unfold workerDir at hp
  simp only [List.append_assoc] at hp
  have h1 := (List.prefix_append_right_inj tmp).1 hp
  simp only [List.singleton_append, List.cons_prefix_cons] at h1
  exact h (dec_inj h1.1)

/-- Worker directory names are the decimal numerals: distinct for distinct workers, never
`inputs`. -/
theorem C20_worker_dir_names (i j : Nat) : (dec i = dec j → i = j) ∧ dec i ≠ INPUTS :=
  ⟨dec_inj, dec_ne_inputs i⟩

/-- In every interleaving of the producer's extractions (any names, any contents) and the workers'
steps on the real tree, worker `i` yields exactly what `Consumer.runItems` yields for the items it
picked up, started from an EMPTY directory of its own. -/
theorem C20_private_directory (env : Env) (tmp : Path) (evs : List Ev) (i : Nat) :
    resultsOf i (grun layoutNew env tmp g0 evs) = (runItems env Consumer.init (itemsOf i evs)).2 := by
  rw [grun_worker]
  rfl

/-- Full statement for the layout before fix 232bfd3. FALSE. -/
def C20_private_directory_old_layout_stmt : Prop :=
  ∀ (env : Env) (tmp : Path) (evs : List Ev) (i : Nat),
    resultsOf i (grun layoutOld env tmp g0 evs) = (runItems env Consumer.init (itemsOf i evs)).2

/-- a gcov that writes one well-formed output file `s.gz` per notes file (many-files convention) -/
def wdEnv : Env where
  guess := false
  hasBinary := false
  ext := EXT_GZ
  gcovRun _ := ⟨true, [([115, 46, 103, 122], .file 1)]⟩
  parseGz c := if c = 1 then some [([115], 1)] else none
  parseText _ := none
  parseLcov _ := none
  parseJacoco _ := none
  compute _ _ := none
  llvm _ := ⟨.err, none⟩

/-- the input `0/a.gcno` is extracted, then worker 0 processes a notes file -/
def wdEvents : List Ev :=
  [.extract [[48], [97, 46, 103, 99, 110, 111]] 7, .work 0 ⟨.gcno, .path [117] [97, 46, 103, 99, 110, 111]⟩]

/-- Witness (finding C20-input-dir-named-like-worker-dir, fixed): with extractions directly below
`tmp` the input `0/a.gcno` lands in worker 0's directory; the worker reads it as gcov output, the notes
file is rejected, its coverage lost. With the present layout the same events give the coverage. -/
theorem C20_private_directory_old_layout_false : ¬ C20_private_directory_old_layout_stmt := by
  intro h
  have := h wdEnv [[116]] wdEvents 0
  revert this
  decide

theorem C20_old_layout_witness_now :
    grun layoutOld wdEnv [[116]] g0 wdEvents = [(0, .rejected)] ∧
    grun layoutNew wdEnv [[116]] g0 wdEvents = [(0, .results [([115], 1)])] := by
  decide

/-- For every thread count `n`, every distribution of the items over the workers and every
interleaving with the producer on the real tree: if no item kills its worker, the contributions of
the run are, as a multiset, the solo contributions of the items (`C20_every_assignment` without
its private-directory assumption). -/
theorem C20_every_schedule (env : Env) (m : GcovType) (items : List Item) (G : Guard env m items)
    (tmp : Path) (evs : List Ev) (n : Nat)
    (hw : ((List.range n).map fun i => itemsOf i evs).flatten.Perm items)
    (hnp : ∀ it ∈ items, solo env m it ≠ .panic) :
    (((List.range n).map fun i => resultsOf i (grun layoutNew env tmp g0 evs)).flatten.flatMap contrib).Perm
      ((items.map (solo env m)).flatMap contrib) := by
  have h := C20_every_assignment env m items G ((List.range n).map fun i => itemsOf i evs) hw hnp
  simp only [List.map_map] at h
  have e : ((List.range n).map fun i => resultsOf i (grun layoutNew env tmp g0 evs))
      = (List.range n).map ((fun w => (runItems env Consumer.init w).2) ∘ fun i => itemsOf i evs) := by
    apply List.map_congr_left
    intro i _
    exact C20_private_directory env tmp evs i
  rw [e]
  exact h

/-! ### non-vacuity -/

example : workerDir [[116]] 12 = [[116], [49, 50]] := by decide
example : (layoutNew [[116]] [[48], [97]]).1 ++ (layoutNew [[116]] [[48], [97]]).2
    = [[116], INPUTS, [48], [97]] := by decide
-- two workers, an extraction named like worker 1's directory in between: both private
example : grun layoutNew wdEnv [[116]] g0
    [.work 1 ⟨.gcno, .path [117] [97, 46, 103, 99, 110, 111]⟩, .extract [[49], [98]] 9,
     .work 0 ⟨.gcno, .path [117] [97, 46, 103, 99, 110, 111]⟩,
     .work 1 ⟨.gcno, .path [117] [97, 46, 103, 99, 110, 111]⟩]
    = [(1, .results [([115], 1)]), (0, .results [([115], 1)]), (1, .results [([115], 1)])] := by decide

end Grcov.Props.C20
