/-
C14, part Gcno, resource clause – "in time and memory bounded by a modest multiple of the input
size" – for the recursive parts of the gcno reader.  `Gcno/Cost.lean` instruments `propagate_counts`,
`unblock` and `look_for_circuit` with the number of calls, the nesting depth (what the stack of the
Rust recursion must hold) and the number of circuits enumerated; the instrumented functions
compute the same results (`C14_gcno_cost_models_agree`).  What is proved:

* the number of calls of `propagate_counts` in `count_on_tree` is at most blocks + adjacency entries
  (= blocks + 2·arcs), for every shape (`C14_gcno_propagation_calls_linear`): that part is linear;

* the recursion depth of `propagate_counts` reaches the number of blocks: on the chain of `n` blocks
  the first call nests `n` calls, for every `n` (`C14_gcno_propagation_depth_reaches_blocks`); so no
  constant bounds the depth (`C14_gcno_depth_bounded_false`).  On the real code a chain of 19 000
  blocks (a 456 kB gcno) overflows the 2 MiB stack of a consumer thread: finding
  C14-gcno-recursion-depth-stack-overflow (a crash, which C14 forbids outright);
* the cycle search is exponential: on a ring of `k` blocks with two parallel arcs between
  neighbours it enumerates exactly 2^k circuits, for every `k`
  (`C14_gcno_cycle_search_exponential`), so the full statement `C14_gcno_time_linear_stmt` is false
  (`C14_gcno_time_linear_false`).  On the real code a 2.5 kB gcno (a line shared by 11 mutually
  connected blocks) takes 2 s, one with 12 blocks more than 60 s: finding
  C14-gcno-cycle-search-exponential.

No `…_partial` is stated for the time bound: the guard under which the search is polynomial – the
blocks of every line induce a graph with few elementary circuits, e.g. a reducible loop nest of
bounded depth, which is what compilers produce for one source line – is not expressible from the
gcno alone in a way that a theorem could use without restating the conclusion.
-/
import GrcovModel.Lemmas.GcnoCostChain
import GrcovModel.Lemmas.GcnoCostRing
import GrcovModel.Lemmas.GcnoCostProp
namespace Grcov.Props.C14
open Grcov Grcov.Gcno Grcov.Gcno.Outcome

/-- The cost-instrumented functions are the original ones plus a cost: erasing the cost gives
`prop`, `unblock`, `lookForCircuit`, `cyclesCount` – for all arguments. -/
theorem C14_gcno_cost_models_agree :
    (∀ f fuel s b pred, (propC f fuel s b pred).map Prod.fst = prop f fuel s b pred) ∧
    (∀ fuel b bl, (unblockC fuel b bl).map Prod.fst = unblock fuel b bl) ∧
    (∀ f bs start fuel v s,
      (lookForCircuitC f bs start fuel v s).map Prod.fst = lookForCircuit f bs start fuel v s) ∧
    (∀ f fuel bs cyc, (cyclesCountC f fuel bs cyc).map Prod.fst = cyclesCount f fuel bs cyc) :=
  ⟨propC_fst, unblockC_fst, lookForCircuitC_fst, cyclesCountC_fst⟩

/-- **What is bounded: the number of calls of `propagate_counts`.** For every function shape, every
counter assignment and every fuel: when the propagation loop of `count_on_tree` succeeds it has made
at most `blocks + adjSize` calls, `adjSize` = the total length of the blocks' source and destination
lists (2 · arcs for a shape `read_gcno` builds: every arc is in one source and one destination
list). The time of the propagation is linear in the input. -/
theorem C14_gcno_propagation_calls_linear (f : Func) (fuel : Nat) (cnt : Nat → Nat) (r : PS × Cost)
    (h : propAllC f fuel (List.range f.blocks.length) ⟨cnt, []⟩ {} = .ok r) :
    r.2.calls ≤ f.blocks.length + adjSize f :=
  propAllC_linear f fuel cnt r h

/-- **The recursion of `propagate_counts` is as deep as the function has blocks.** For every
`n ≥ 2`: on the chain 0 → 1 → … → n-1 (with the virtual exit→entry arc; arc 0 counted, the others on
the spanning tree – a straight-line function) the first call `count_on_tree` makes, for block 0,
succeeds and nests exactly `n` calls. -/
theorem C14_gcno_propagation_depth_reaches_blocks (n : Nat) (hn : 2 ≤ n) (cnt : Nat → Nat)
    (hc : cnt 0 ≤ U64MAX) :
    ∃ r, propC (chainLoop n) (propFuel (chainLoop n)) ⟨cnt, []⟩ 0 none = .ok r ∧
      r.2.depth = n ∧ r.2.calls = n ∧ (chainLoop n).blocks.length = n :=
  let ⟨r, h1, h2, h3⟩ := propC_chain_depth n hn cnt hc
  ⟨r, h1, h2, h3, by simp [chainLoop]⟩

/-- the full statement "the recursion depth of the propagation is bounded by a constant" -/
def C14_gcno_depth_bounded_stmt : Prop :=
  ∃ d, ∀ (f : Func) (fuel : Nat) (s : PS) (b : Nat) (pred : Option Nat) r,
    propC f fuel s b pred = .ok r → r.2.depth ≤ d

/-- …is false: the depth grows with the input (finding C14-gcno-recursion-depth-stack-overflow:
the real recursion overflows the thread's stack). -/
theorem C14_gcno_depth_bounded_false : ¬ C14_gcno_depth_bounded_stmt := by
  rintro ⟨d, h⟩
  obtain ⟨r, hr, hd, _⟩ := propC_chain_depth (d + 2) (by omega) (fun _ => 0) (by simp [U64MAX])
  have := h _ _ _ _ _ r hr
  omega

/-- **The cycle search enumerates exponentially many circuits.** For every `k ≥ 1`: on the ring of
`k` blocks that share a line, with two parallel arcs from each block to the next (`k` blocks, `2k`
arcs), `look_for_circuit` started at block 0 succeeds and runs `get_cycle_count` exactly 2^k times. -/
theorem C14_gcno_cycle_search_exponential (k : Nat) (hk : 1 ≤ k) :
    ∃ r, lookForCircuitC (ringFunc k) (List.range k) 0 (circuitFuel (ringFunc k)) 0
        ⟨fun _ => 0, [], [], []⟩ = .ok r ∧ r.2.circuits = 2 ^ k ∧
      (ringFunc k).blocks.length = k ∧ (ringFunc k).arcs.length = 2 * k :=
  let ⟨r, h1, h2⟩ := ring_circuits k hk
  ⟨r, h1, h2, by simp [ringFunc], by simp [ringFunc]⟩

/-- the full statement "the work of the cycle search is linear in the size of the function" -/
def C14_gcno_time_linear_stmt : Prop :=
  ∃ c, ∀ (f : Func) (bs : List Nat) (start fuel v : Nat) (s : CS) r,
    lookForCircuitC f bs start fuel v s = .ok r →
      r.2.circuits ≤ c * (f.blocks.length + f.arcs.length + 1)

/-- …is false: no constant makes the number of enumerated circuits linear in blocks + arcs
(finding C14-gcno-cycle-search-exponential). -/
theorem C14_gcno_time_linear_false : ¬ C14_gcno_time_linear_stmt := by
  rintro ⟨c, h⟩
  let k := c + 10
  obtain ⟨r, hr, hcirc, hb, ha⟩ := C14_gcno_cycle_search_exponential k (by omega)
  have := h _ _ _ _ _ _ r hr
  rw [hcirc, hb, ha] at this
  have h2 := four_sq_lt_two_pow k (by omega)
  have h3 : c * (k + 2 * k + 1) ≤ 4 * (k * k) := by
    have hck : c ≤ k := by omega
    calc c * (k + 2 * k + 1) ≤ k * (k + 2 * k + 1) := Nat.mul_le_mul_right _ hck
      _ ≤ k * (4 * k) := Nat.mul_le_mul_left k (by omega)
      _ = 4 * (k * k) := by rw [Nat.mul_left_comm]
  omega

/-! ### the families are what `read_gcno` and `count_on_tree` build -/

/-- `chainLoop n` is `chainFunc n` with the virtual arc of `count_on_tree` (format 4.2) -/
example : addVirtualArc 42 (chainFunc 2) = chainLoop 2 ∧ addVirtualArc 42 (chainFunc 5) = chainLoop 5 ∧
    addVirtualArc 42 (chainFunc 17) = chainLoop 17 := by decide +kernel

/-- the adjacency entries of a built shape: two per arc -/
example : adjSize (chainLoop 17) = 2 * (chainLoop 17).arcs.length ∧
    adjSize (ringFunc 6) = 2 * (ringFunc 6).arcs.length := by decide +kernel

/-- closed members: depth 50 on the chain of 50 blocks; 256 circuits on the ring of 8 blocks
(510 calls of `look_for_circuit` + `unblock`) -/
example : (match propC (chainLoop 50) 52 ⟨fun e => if e = 0 then 3 else 0, []⟩ 0 none with
    | .ok r => some (r.2.depth, r.2.calls)
    | _ => none) = some (50, 50) := by decide +kernel
example : (match lookForCircuitC (ringFunc 8) (List.range 8) 0 10 0 ⟨fun _ => 0, [], [], []⟩ with
    | .ok r => some (r.2.circuits, r.2.cost.calls, r.2.cost.depth)
    | _ => none) = some (256, 510, 9) := by decide +kernel

end Grcov.Props.C14
