/-
C13 — summary figures equal what their parts imply, at every level.

Property theorems about `GrcovModel/Stats.lean` (the model of the figures computed by the lcov,
covdir, cobertura, html, markdown and ade writers), for all result sets: any number of files, any
directory tree (arbitrary shape and depth), any records. Helper lemmas and the vocabulary used in
the statements (`sumCD`, `filesSum`, `Forest.SumsOK`, `Forest.All`, `CDStats.OK`, `statsOn`,
`sumCob`, `sumH`, `HStats.OK`, `ShownDistinct`, `NoLineZero`) live in GrcovModel/Lemmas/Stats.lean.

Rates are exact rationals (`Rate`); `Rate.Finite` = not 0/0, `Rate.InUnit` = in [0,1],
`Rate.InPercent` = in [0,100], `Rate.IsRatio r c t` = r = c/t, `Rate.IsPercent r c t` = r = 100·c/t.
Rust's floating point arithmetic and number formatting are not modelled: that the printed figure is
within the printed precision of the exact rate is checked by the correspondence run.

Two statements of the property are FALSE of the code (and of the model that follows it); each has a
`…_stmt`, a proved `…_false` from a closed witness and a `…_partial` under the guard the witness
violates (a third one, markdown's `NaN%` for a file or a report without lines, was fixed in /repo
6c25d0d: `C13_markdown_finite` is now proved at full strength):
* ade prints `null` (0/0) for every part without lines;
* (part Docs, Props/C13Docs.lean) the covdir REPORT lists the children of a directory in one map
  keyed by name: with colliding names a total is not the sum of the listed children
  (`C13_covdir_report_sums_false` / `…_partial`); the same file says what every writer does with
  line 0 (outside the quantifier; covdir panics: `C13_covdir_line0_panics`) and models the PRINTED
  rate (`Stats/Printed.lean`: `printedOK`, the one place where the tolerance of the check lives);
* the HTML page of the directory `""` (files directly under the source root) is written to
  `<output>/index.html` and replaces the global index, so `index.html` no longer shows the totals
  the badge and coverage.json are computed from;
* (part Html, Props/C13Html.lean, second review items 22-24) the header of an HTML FILE page counts
  the lines of the record, the page lists the lines of the source: they agree only when the source
  is long enough (`C13_html_file_listed` / `…_false`; `C13_html_file_totals` below relates the header
  to the record only); with a repeated path the HTML summaries are not the sums of their rows
  (`C13_html_sums_false` / `…_partial`, the `_false` the guard `ShownDistinct` of the three html sum
  theorems below was missing); and which figure a format prints at the last place
  (`Stats/Rounded.lean`: half away from zero on the pages and in covdir, half to even with exactly
  `p` decimals in coverage.json and markdown).
-/
import GrcovModel.Lemmas.Stats
import GrcovModel.Props.C13Docs
import GrcovModel.Props.C13Md
import GrcovModel.Props.C13Html
namespace Grcov.Props.C13
open Grcov AList Grcov.Stats

/-! ## lcov -/

/-- LF, LH, BRF, BRH, FNF, FNH are the counts of the DA, BRDA, FN and FNDA records written in the
same section: LF = number of DA records, LH = those with a count > 0, BRF = number of BRDA records,
BRH = those marked taken, FNF = number of FN records, FNH = number of FNDA records with 1 (FNF/FNH
are written exactly when there is at least one FN record). -/
theorem C13_lcov_totals (c : Cov) :
    (lcovRec c).lf = (lcovRec c).da.length ∧
    (lcovRec c).lh = (lcovRec c).da.countP (fun r => decide (0 < r.2)) ∧
    (lcovRec c).brf = (lcovRec c).brda.length ∧
    (lcovRec c).brh = (lcovRec c).brda.countP (fun r => r.2.2) ∧
    (lcovRec c).fn = (if (lcovRec c).fnRecs.isEmpty then none
      else some ((lcovRec c).fnRecs.length, (lcovRec c).fndaRecs.countP fun r => decide (r.1 = 1))) := by
  refine ⟨rfl, rfl, ?_, ?_, ?_⟩
  · simp only [lcovRec, lcovBranchLoop_eq, lcovBrda_length]
  · simp only [lcovRec, lcovBranchLoop_eq, lcovBrda_taken]
  · simp only [lcovRec, List.isEmpty_map, List.length_map, List.countP_map, fnExecuted]
    congr 3
    apply List.countP_congr
    intro nf _
    cases h : nf.2.executed <;> simp [h]

/-- hit ≤ found for lines, branches and functions -/
theorem C13_lcov_covered_le_total (c : Cov) :
    (lcovRec c).lh ≤ (lcovRec c).lf ∧ (lcovRec c).brh ≤ (lcovRec c).brf ∧
    ∀ f h, (lcovRec c).fn = some (f, h) → h ≤ f := by
  refine ⟨countPos_le _, ?_, ?_⟩
  · simp only [lcovRec, lcovBranchLoop_eq]; exact brTaken_le _
  · intro f h hfn
    simp only [lcovRec] at hfn
    split at hfn
    · cases hfn
    · cases hfn; exact fnExecuted_le _

/-! ## covdir -/

/-- A file's linesTotal is the number of its lines, linesCovered the number with a count > 0,
linesMissed the rest; covered ≤ total and covered + missed = total. (Without line 0 – with it
the writer panics.) -/
theorem C13_covdir_file_totals (name : Name) (lines : List (Nat × Nat))
    (h1 : ∀ kv ∈ lines, 1 ≤ kv.1) :
    (cdFileNew name lines).stats = ⟨lines.length, countPos lines, lines.length - countPos lines⟩ ∧
    (cdFileNew name lines).stats.OK :=
  ⟨cdFileNew_stats name lines h1, cdFileNew_OK name lines h1⟩

/-- … and they are the counts of what the file's `coverage` array lists: linesTotal entries are
not `-1`, linesCovered entries are > 0. -/
theorem C13_covdir_file_listed (name : Name) (lines : List (Nat × Nat)) (hnd : NodupKeys lines)
    (h1 : ∀ kv ∈ lines, 1 ≤ kv.1) :
    (cdFileNew name lines).stats.total = (cdFileNew name lines).coverage.countP Option.isSome ∧
    (cdFileNew name lines).stats.covered = (cdFileNew name lines).coverage.countP slotHit := by
  rw [cdFileNew_stats name lines h1]
  exact ⟨(cdCoverage_listed lines hnd h1).symm, (cdCoverage_hit lines hnd h1).symm⟩

/-- In the tree the writer returns, the figures (total, covered, missed) of the root and of every
directory at every depth are the sums of the figures of its files and of its sub-directories. -/
theorem C13_covdir_every_directory_sums (rs : List FileIn) (t : CDRoot) (h : covdir rs = .ok t) :
    t.stats = (filesSum t.files).add t.sub.levelSum ∧ t.sub.SumsOK := by
  obtain ⟨rfl, h0⟩ := covdir_ok h
  exact covdirTree_sums rs h0

/-- The root's figures are the sums over all result records, whatever the paths: linesTotal = Σ
number of lines, linesCovered = Σ lines with a count > 0. -/
theorem C13_covdir_root_is_sum_of_records (rs : List FileIn) (t : CDRoot)
    (h : covdir rs = .ok t) :
    t.stats = sumCD (rs.map fun r =>
      ⟨r.cov.lines.length, countPos r.cov.lines, r.cov.lines.length - countPos r.cov.lines⟩) := by
  obtain ⟨rfl, h0⟩ := covdir_ok h
  rw [covdirTree_root rs h0]
  congr 1
  apply List.map_congr_left
  intro r hr
  exact cdFileNew_stats _ _ (h0 r hr)

/-- covered ≤ total and covered + missed = total at the root, in every directory and every file -/
theorem C13_covdir_consistent_everywhere (rs : List FileIn) (t : CDRoot)
    (h : covdir rs = .ok t) :
    t.stats.OK ∧ (∀ f ∈ t.files, f.stats.OK) ∧ t.sub.All CDStats.OK := by
  obtain ⟨rfl, h0⟩ := covdir_ok h
  exact covdirTree_OK rs h0

/-- coveragePercent is a number in [0,100], equal to 100·covered/total, and 0 when total = 0 -/
theorem C13_covdir_percent (s : CDStats) (h : s.OK) :
    s.percent.Finite ∧ s.percent.InPercent ∧
    (s.total ≠ 0 → s.percent.IsPercent s.covered s.total) ∧
    (s.total = 0 → s.percent = ⟨0, 1⟩) :=
  cdPercent_props s.covered s.total h.1

/-! ## cobertura -/

/-- The figures a package and its class are rated from are those of the lines listed under the
class: lines-valid = number of lines of the record, lines-covered = those hit, branches-valid /
-covered = the conditions of those lines. The lines repeated under the methods are not counted a
second time. -/
theorem C13_cobertura_class_totals (c : Cov) (hnd : NodupKeys c.lines) :
    (cobPackage c).classStats = statsOn c (keys c.lines) ∧
    (cobPackage c).stats = (cobPackage c).classStats ∧
    (cobPackage c).classStats.linesValid = c.lines.length ∧
    (cobPackage c).classStats.linesCovered = countPos c.lines := by
  obtain ⟨h1, h2, _⟩ := cobPackage_stats c hnd
  refine ⟨h2, by rw [h1, h2], ?_, ?_⟩
  · rw [h2]; simp [statsOn, keys]
  · rw [h2]; exact countP_lineHit_keys c hnd

/-- a method's figures are those of the lines listed under it -/
theorem C13_cobertura_method_totals (c : Cov) (hnd : NodupKeys c.lines) :
    (cobPackage c).methods = c.functions.map fun nf => (nf.1, statsOn c (linesInFunction c nf.2)) :=
  (cobPackage_stats c hnd).2.2

/-- the figures of the `coverage` element are the sums over the packages -/
theorem C13_cobertura_global_sum (rs : List FileIn) (rep : CobReport)
    (h : cobertura rs = .ok rep) :
    rep.stats = sumCob (rep.packages.map (·.stats)) := by
  unfold cobertura at h
  split at h
  · cases h
  · cases h; exact cobReport_stats rs

/-- covered ≤ valid for lines and branches: per method, class, package and globally -/
theorem C13_cobertura_covered_le_valid (rs : List FileIn) (hnd : ∀ r ∈ rs, NodupKeys r.cov.lines) :
    ((cobReport rs).stats.linesCovered ≤ (cobReport rs).stats.linesValid ∧
     (cobReport rs).stats.branchesCovered ≤ (cobReport rs).stats.branchesValid) ∧
    ∀ p ∈ (cobReport rs).packages,
      (p.stats.linesCovered ≤ p.stats.linesValid ∧ p.stats.branchesCovered ≤ p.stats.branchesValid) ∧
      (p.classStats.linesCovered ≤ p.classStats.linesValid ∧
        p.classStats.branchesCovered ≤ p.classStats.branchesValid) ∧
      ∀ m ∈ p.methods, m.2.linesCovered ≤ m.2.linesValid ∧ m.2.branchesCovered ≤ m.2.branchesValid := by
  have hp : ∀ p ∈ (cobReport rs).packages,
      (p.stats.linesCovered ≤ p.stats.linesValid ∧ p.stats.branchesCovered ≤ p.stats.branchesValid) ∧
      (p.classStats.linesCovered ≤ p.classStats.linesValid ∧
        p.classStats.branchesCovered ≤ p.classStats.branchesValid) ∧
      ∀ m ∈ p.methods, m.2.linesCovered ≤ m.2.linesValid ∧ m.2.branchesCovered ≤ m.2.branchesValid := by
    intro p hp
    simp only [cobReport, List.mem_map] at hp
    obtain ⟨r, hr, rfl⟩ := hp
    obtain ⟨h1, h2, h3⟩ := cobPackage_stats r.cov (hnd r hr)
    refine ⟨by rw [h1]; exact statsOn_le _ _, by rw [h2]; exact statsOn_le _ _, ?_⟩
    intro m hm
    rw [h3] at hm
    simp only [List.mem_map] at hm
    obtain ⟨nf, _, rfl⟩ := hm
    exact statsOn_le _ _
  refine ⟨?_, hp⟩
  rw [cobReport_stats]
  apply sumCob_le
  intro x hx
  simp only [List.mem_map] at hx
  obtain ⟨p, hpm, rfl⟩ := hx
  exact (hp p hpm).1

/-- line-rate and branch-rate are numbers in [0,1], equal to covered/valid, and 0 when nothing is
valid -/
theorem C13_cobertura_rates (s : CobStats) (hl : s.linesCovered ≤ s.linesValid)
    (hb : s.branchesCovered ≤ s.branchesValid) :
    (s.lineRate.Finite ∧ s.lineRate.InUnit ∧
      (s.linesValid ≠ 0 → s.lineRate.IsRatio s.linesCovered s.linesValid) ∧
      (s.linesValid = 0 → s.lineRate = ⟨0, 1⟩)) ∧
    (s.branchRate.Finite ∧ s.branchRate.InUnit ∧
      (s.branchesValid ≠ 0 → s.branchRate.IsRatio s.branchesCovered s.branchesValid) ∧
      (s.branchesValid = 0 → s.branchRate = ⟨0, 1⟩)) :=
  ⟨cobRate_props _ _ hl, cobRate_props _ _ hb⟩

/-! ## html -/

/-- the figures of a file are the counts of its record: lines / lines hit, functions / functions
executed, branches / branches taken; covered ≤ total for each -/
theorem C13_html_file_totals (c : Cov) :
    htmlStats c = ⟨c.lines.length, countPos c.lines, c.functions.length, fnExecuted c.functions,
      brTotal c.branches, brTaken c.branches⟩ ∧ (htmlStats c).OK :=
  ⟨rfl, htmlStats_OK c⟩

/-- every directory page: the summary at the top is the sum of the rows (its files), and
covered ≤ total in the summary and in every row -/
theorem C13_html_directory_sums (rs : List FileIn) (hnd : ShownDistinct rs) :
    ∀ dp ∈ (html rs).dirPages,
      dp.2.stats = sumH (dp.2.rows.map (·.2)) ∧ dp.2.stats.OK ∧ ∀ row ∈ dp.2.rows, row.2.OK :=
  html_dirPages_sum rs hnd

/-- `index.html`: the summary at the top is the sum of the rows, whichever page ends up there -/
theorem C13_html_index_sums (rs : List FileIn) (hnd : ShownDistinct rs) :
    (html rs).index.stats = sumH ((html rs).index.rows.map (·.2)) :=
  html_index_sum rs hnd

/-- the global totals are the sum over the directories and the sum over all shown files -/
theorem C13_html_global_is_sum (rs : List FileIn) (hnd : ShownDistinct rs) :
    (htmlGlobal rs).stats = sumH ((htmlGlobal rs).dirs.map fun nd => nd.2.stats) ∧
    (htmlGlobal rs).stats = sumH ((shownEntries rs).map (·.2)) :=
  html_global_sum rs hnd

/-- a percentage of the HTML report is a number in [0,100], equal to 100·covered/total, and 100
when total = 0 -/
theorem C13_html_percent (c t : Nat) (h : c ≤ t) :
    (htmlPercent c t).Finite ∧ (htmlPercent c t).InPercent ∧
    (t ≠ 0 → (htmlPercent c t).IsPercent c t) ∧ (t = 0 → htmlPercent c t = ⟨100, 1⟩) :=
  htmlPercent_props c t h

/-- the badge figure is that percentage truncated: an integer ≤ 100 with
`badge ≤ 100·covered/total < badge + 1`, and 100 when total = 0 -/
theorem C13_html_badge_floor (c t : Nat) (h : c ≤ t) :
    htmlPercentFloor c t ≤ 100 ∧
    (t ≠ 0 → htmlPercentFloor c t * t ≤ 100 * c ∧ 100 * c < (htmlPercentFloor c t + 1) * t) ∧
    (t = 0 → htmlPercentFloor c t = 100) :=
  htmlPercentFloor_props c t h

/-- the badge and coverage.json are always computed from the global line totals … -/
theorem C13_html_badge_from_global (rs : List FileIn) :
    (html rs).badge
      = htmlPercentFloor (htmlGlobal rs).stats.coveredLines (htmlGlobal rs).stats.totalLines ∧
    (html rs).json
      = htmlPercent (htmlGlobal rs).stats.coveredLines (htmlGlobal rs).stats.totalLines :=
  ⟨rfl, rfl⟩

/-- Full statement: the badge and coverage.json show the line figure of the totals at the top of
`index.html`. -/
def C13_html_badge_same_totals_stmt : Prop :=
  ∀ rs : List FileIn,
    (html rs).badge
      = htmlPercentFloor (html rs).index.stats.coveredLines (html rs).index.stats.totalLines ∧
    (html rs).json
      = htmlPercent (html rs).index.stats.coveredLines (html rs).index.stats.totalLines

/-- two files: `a` (one line, hit) directly under the source root, `d/b` (one line, not hit) -/
def htmlWitness : List FileIn :=
  [ { relIsRel := true, openable := true, rel := [[97]], abs := [], cov := { lines := [(1, 1)] } },
    { relIsRel := true, openable := true, rel := [[100], [98]], abs := [],
      cov := { lines := [(1, 0)] } } ]

/-- … but it is false of the code: with a file directly under the source root, `index.html` is
replaced by the page of the directory `""` (here 1 / 1 = 100 %), while the badge shows the global
50 %. -/
theorem C13_html_badge_same_totals_false : ¬ C13_html_badge_same_totals_stmt := by
  intro h
  have := (h htmlWitness).1
  revert this
  decide

/-- It holds when no shown file sits directly under the source root; `index.html` is then the
global page. -/
theorem C13_html_badge_same_totals_partial (rs : List FileIn)
    (hroot : ∀ r ∈ rs, r.shown = true → joinPath r.rel.dropLast ≠ []) :
    (html rs).index = globalPage (htmlGlobal rs) ∧
    (html rs).badge
      = htmlPercentFloor (html rs).index.stats.coveredLines (html rs).index.stats.totalLines ∧
    (html rs).json
      = htmlPercent (html rs).index.stats.coveredLines (html rs).index.stats.totalLines := by
  have hi := html_index_global rs hroot
  rw [hi]
  exact ⟨rfl, rfl, rfl⟩

/-! ## markdown -/

/-- a row's `covered / total` are the lines with a count > 0 and the lines of the record; the
percentage is in [0,100], equal to 100·covered/total, and 100 when the file has no lines -/
theorem C13_markdown_row (c : Cov) :
    (mdRow c).total = c.lines.length ∧ (mdRow c).covered = countPos c.lines ∧
    (mdRow c).covered ≤ (mdRow c).total ∧
    (mdRow c).rate.InPercent ∧
    ((mdRow c).total ≠ 0 → (mdRow c).rate.IsPercent (mdRow c).covered (mdRow c).total) ∧
    ((mdRow c).total = 0 → (mdRow c).rate = ⟨100, 1⟩) := by
  obtain ⟨h1, h2, h3, h4⟩ := mdRow_props c
  have hp := mdPercent_props (countPos c.lines) c.lines.length (countPos_le _)
  rw [h4, h1, h2]
  exact ⟨rfl, rfl, countPos_le _, hp.2.1, hp.2.2.1, hp.2.2.2⟩

/-- the total percentage is computed from Σ covered and Σ total over the rows: in [0,100], equal to
100·(Σ covered)/(Σ total), and 100 when no file has a line -/
theorem C13_markdown_total_sum (rs : List FileIn) :
    (markdown rs).totalLines = ((markdown rs).rows.map (·.total)).sum ∧
    (markdown rs).totalCovered = ((markdown rs).rows.map (·.covered)).sum ∧
    (markdown rs).totalCovered ≤ (markdown rs).totalLines ∧
    (markdown rs).rate.InPercent ∧
    ((markdown rs).totalLines ≠ 0 →
      (markdown rs).rate.IsPercent (markdown rs).totalCovered (markdown rs).totalLines) ∧
    ((markdown rs).totalLines = 0 → (markdown rs).rate = ⟨100, 1⟩) := by
  obtain ⟨h1, h2, h3, h4⟩ := markdown_totals rs
  have hp := mdPercent_props _ _ h3
  rw [h4]
  exact ⟨h1, h2, h3, hp.2.1, hp.2.2.1, hp.2.2.2⟩

/-- every percentage of the markdown report – each row and the total line – is a number in
[0,100], for every result set: the empty report and files without lines included -/
theorem C13_markdown_finite (rs : List FileIn) :
    ((markdown rs).rate.Finite ∧ (markdown rs).rate.InPercent) ∧
    ∀ row ∈ (markdown rs).rows, row.rate.Finite ∧ row.rate.InPercent := by
  refine ⟨?_, ?_⟩
  · obtain ⟨_, _, h3, h4⟩ := markdown_totals rs
    have hp := mdPercent_props _ _ h3
    rw [h4]; exact ⟨hp.1, hp.2.1⟩
  · intro row hrow
    rw [markdown_rows, List.mem_map] at hrow
    obtain ⟨r, _, rfl⟩ := hrow
    obtain ⟨_, _, _, h4⟩ := mdRow_props r.cov
    have hp := mdPercent_props (countPos r.cov.lines) r.cov.lines.length (countPos_le _)
    rw [h4]; exact ⟨hp.1, hp.2.1⟩

/-! ## ade -/

/-- the file record: total_covered + total_uncovered = number of lines, total_covered = lines with
a count > 0 -/
theorem C13_ade_file_totals (c : Cov) :
    (adeFile c).file.covered = countPos c.lines ∧ (adeFile c).file.uncovered = countZero c.lines ∧
    (adeFile c).file.covered + (adeFile c).file.uncovered = c.lines.length :=
  adeFile_file c

/-- every percentage_covered (file, method, orphan lines) is covered/(covered + uncovered), in
[0,1] -/
theorem C13_ade_rates (c : Cov) (p : AdePart)
    (hp : p = (adeFile c).file ∨ p = (adeFile c).orphan ∨ ∃ m ∈ (adeFile c).methods, p = m.2) :
    p.rate.InUnit ∧ p.rate.IsRatio p.covered (p.covered + p.uncovered) ∧
    (p.covered + p.uncovered ≠ 0 → p.rate.Finite) := by
  obtain ⟨hf, ho, hm⟩ := adeFile_parts c
  have key : ∃ a b, p = adePart a b := by
    rcases hp with rfl | rfl | ⟨m, hmm, rfl⟩
    · exact hf
    · exact ho
    · exact hm m hmm
  obtain ⟨a, b, rfl⟩ := key
  exact adePart_rate a b

/-- Full statement: every percentage_covered of the ade report is a number. -/
def C13_ade_finite_stmt : Prop :=
  ∀ (rs : List FileIn) (fs : List AdeFile), ade rs = .ok fs →
    ∀ f ∈ fs, f.file.rate.Finite ∧ f.orphan.rate.Finite ∧ ∀ m ∈ f.methods, m.2.rate.Finite

/-- false: a file without lines has 0/0 (`null`) -/
theorem C13_ade_finite_false : ¬ C13_ade_finite_stmt := by
  intro h
  have := (h [⟨true, true, [[97]], [], {}⟩] [adeFile {}] rfl (adeFile {}) (by simp)).1
  revert this
  decide

/-- it holds for every part that has at least one line -/
theorem C13_ade_finite_partial (rs : List FileIn) (fs : List AdeFile) (h : ade rs = .ok fs) :
    ∀ f ∈ fs,
      (f.file.covered + f.file.uncovered ≠ 0 → f.file.rate.Finite) ∧
      (f.orphan.covered + f.orphan.uncovered ≠ 0 → f.orphan.rate.Finite) ∧
      ∀ m ∈ f.methods, m.2.covered + m.2.uncovered ≠ 0 → m.2.rate.Finite := by
  unfold ade at h
  split at h
  · cases h
  · cases h
    intro f hf
    simp only [List.mem_map] at hf
    obtain ⟨r, _, rfl⟩ := hf
    exact ⟨(C13_ade_rates r.cov _ (Or.inl rfl)).2.2,
      (C13_ade_rates r.cov _ (Or.inr (Or.inl rfl))).2.2,
      fun m hm => (C13_ade_rates r.cov _ (Or.inr (Or.inr ⟨m, hm, rfl⟩))).2.2⟩

/-! ## Non-vacuity: a concrete result set (three files in a tree of depth 2, one of them without
lines, one handed over with an absolute path) satisfies the hypotheses, and the writers' figures
on it. -/

def exCov1 : Cov := { lines := [(1, 5), (2, 0), (4, 7)], branches := [(1, [true, false]), (9, [true])],
                      functions := [([102], ⟨1, true⟩), ([103], ⟨4, false⟩)] }
def exCov2 : Cov := { lines := [(3, 0)] }
def exRs : List FileIn :=
  [ { relIsRel := true, openable := true, rel := [[115], [97], [120]], abs := [], cov := exCov1 },
    { relIsRel := true, openable := true, rel := [[115], [121]], abs := [], cov := exCov2 },
    { relIsRel := false, openable := true, rel := [[47], [122]], abs := [[47], [122]], cov := {} } ]

example : NoLineZero exRs ∧ ShownDistinct exRs ∧ (∀ r ∈ exRs, NodupKeys r.cov.lines) ∧
    (∀ r ∈ exRs, r.shown = true → joinPath r.rel.dropLast ≠ []) := by
  refine ⟨?_, ?_, ?_, ?_⟩
  · unfold NoLineZero; decide
  · unfold ShownDistinct; decide
  · unfold NodupKeys; decide
  · decide

example : (∃ t, covdir exRs = .ok t ∧ t.stats = ⟨4, 2, 2⟩ ∧ t.stats.percent = ⟨200, 4⟩) ∧
    (∃ r, cobertura exRs = .ok r ∧ r.stats = ⟨2, 4, 1, 2⟩) ∧
    (html exRs).badge = 50 ∧ (html exRs).index.stats = ⟨4, 2, 2, 1, 3, 2⟩ ∧
    (markdown exRs).rate = ⟨200, 4⟩ ∧
    (lcovRec exCov1).fn = some (2, 1) ∧ (lcovRec exCov1).brf = 3 ∧ (lcovRec exCov1).lh = 2 := by
  refine ⟨⟨_, rfl, by decide, by decide⟩, ⟨_, rfl, by decide⟩, by decide, by decide, by decide,
    by decide, by decide, by decide⟩

/-- the former `NaN%` witnesses: the empty report, and one file without lines, now give 100 -/
example : (markdown []).rate = ⟨100, 1⟩ ∧
    (markdown [⟨true, true, [[97]], [], {}⟩]).rows = [⟨0, 0, ⟨100, 1⟩⟩] ∧
    (markdown [⟨true, true, [[97]], [], {}⟩]).rate = ⟨100, 1⟩ := by decide

end Grcov.Props.C13
