/-
C12 — one record per source file.
Property theorems only, about `Rewrite.rewritePaths` (model of `rewrite_paths`,
src/path_rewriting.rs 333-405) composed with `Merge.addResults` (model of `add_results`,
src/lib.rs 101-134) and about the totals of tree-shaped reports. Helper lemmas:
GrcovModel/Lemmas/Rewrite.lean, GrcovModel/Lemmas/UPath.lean.

The full statement — distinct map keys give distinct reported paths — is FALSE of the unchanged
code: `rewrite_paths` maps every key on its own and collects the results without merging records
whose rewritten paths coincide (finding C12-respelled-duplicates). It is proved false from the
closed witness of DESIGN §7 item 14 (five spellings of `foo/bar.c`), which harness/c12 replays on
the real code; what is provable carries the guard the witness violates.
-/
import GrcovModel.Lemmas.Rewrite
namespace Grcov.Props.C12
open Grcov Grcov.UPath Grcov.Glob Grcov.Rewrite AList

/-- Full statement: a result map (distinct keys) never yields two records with the same path. -/
def C12_unique_stmt : Prop :=
  ∀ (cfg : Cfg) (fs : FS) (m : List (Bytes × Cov)) (rep : List Rec),
    NodupKeys m → rewritePaths cfg fs m = .ok rep → (rep.map (·.rel)).Nodup

/-- `foo/bar.c`, `foo/./bar.c`, `foo//bar.c`, `foo\bar.c`, `x/../foo/bar.c` -/
def fiveSpellings : List (Bytes × Cov) :=
  [([102, 111, 111, 47, 98, 97, 114, 46, 99], { lines := [(1, 1)] }),
   ([102, 111, 111, 47, 46, 47, 98, 97, 114, 46, 99], { lines := [(1, 2)] }),
   ([102, 111, 111, 47, 47, 98, 97, 114, 46, 99], { lines := [(1, 3)] }),
   ([102, 111, 111, 92, 98, 97, 114, 46, 99], { lines := [(1, 4)] }),
   ([120, 47, 46, 46, 47, 102, 111, 111, 47, 98, 97, 114, 46, 99], { lines := [(1, 5)] })]

/-- The witness: default options, nothing on disk — five records, all named `foo/bar.c`, with the
five inputs' counts side by side instead of one record with their sum. -/
theorem C12_duplicate_witness :
    rewritePaths {} ⟨[], [], []⟩ fiveSpellings =
      .ok ((List.range 5).map fun i =>
        ⟨[102, 111, 111, 47, 98, 97, 114, 46, 99], [102, 111, 111, 47, 98, 97, 114, 46, 99],
         { lines := [(1, i + 1)] }⟩) := by decide

theorem C12_unique_false : ¬ C12_unique_stmt := by
  intro h
  have := h {} ⟨[], [], []⟩ fiveSpellings _ (by unfold NodupKeys keys; decide) C12_duplicate_witness
  revert this
  decide

/-- Guard 1 — keys already in normal form (clean relative or absolute paths without backslash),
no source dir, prefix or mapping: every record is reported under its own key, so the reported
paths are pairwise distinct. -/
theorem C12_unique_partial_normal_keys (cfg : Cfg) (fs : FS) (m : List (Bytes × Cov))
    (rep : List Rec) (hS : cfg.sourceDir = none) (hP : cfg.prefixDir = none)
    (hM : cfg.mapping = none) (hm : NodupKeys m)
    (hkeys : ∀ kc ∈ m, ∃ np : NPath, kc.1 = render np ∧ ∀ n ∈ np.names, RealName n ∧ 92 ∉ n)
    (h : rewritePaths cfg fs m = .ok rep) :
    (rep.map (·.rel)).Nodup ∧ ∀ r ∈ rep, r.rel ∈ keys m := by
  obtain ⟨_, _, e⟩ := (rewritePaths_eq_ok _ _ _ _).1 h
  have hrel : ∀ kc ∈ m, ∀ r, keyRec cfg fs kc = some r → r.rel = kc.1 := by
    intro kc hkc r hr
    obtain ⟨np, ek, hn⟩ := hkeys kc hkc
    have hr' := (keyRec_eq_some _ _ _ _).1 hr
    have : kc = (render np, kc.2) := by rw [← ek]
    rw [this] at hr'
    rw [ek]
    exact rewriteKey_rel_of_normal_key hS hP hM (fun n h => (hn n h).1) (fun n h => (hn n h).2) hr'
  subst e
  refine ⟨nodup_rel_of_injective (keyRec cfg fs) id m hm hrel (fun _ _ _ _ e => e), ?_⟩
  intro r hr
  obtain ⟨kc, hkc, hf⟩ := List.mem_filterMap.1 hr
  rw [hrel kc hkc r hf]
  exact List.mem_map.2 ⟨kc, hkc, rfl⟩

/-- Guard 2 — what `main` does for files that exist below the source dir: `add_results`
canonicalises `source_dir/key` before keying the map, so every spelling of an existing file lands
on one entry (aggregated according to C01); with a clean source dir `S`, no mapping, and the
prefix absent or equal to `S`, the report then has pairwise distinct paths. The file-system
hypothesis is that each key canonicalises to a path below `S` that names a regular file and is its
own canonical form. -/
theorem C12_unique_partial_canonical (cfg : Cfg) (fs : FS) (sn : List Bytes)
    (batch : List (Bytes × Cov)) (rep : List Rec)
    (hS : cfg.sourceDir = some (render ⟨true, sn⟩)) (hM : cfg.mapping = none)
    (hP : cfg.prefixDir = none ∨ cfg.prefixDir = some (render ⟨true, sn⟩))
    (hsn : ∀ n ∈ sn, RealName n ∧ 92 ∉ n)
    (hex : ∀ kc ∈ batch, ∃ names, names ≠ [] ∧ (∀ n ∈ names, RealName n ∧ 92 ∉ n) ∧
      fs.realpath (push (render ⟨true, sn⟩) kc.1) = some (render ⟨true, sn ++ names⟩) ∧
      fs.resolve (render ⟨true, sn ++ names⟩) = some (sn ++ names, .file))
    (h : addThenRewrite cfg fs batch = .ok rep) : (rep.map (·.rel)).Nodup :=
  unique_canonical cfg fs sn batch rep hS hM hP hsn hex h

/-- `add_results` keeps one entry per canonicalised key, whatever the spellings in the batches. -/
theorem C12_add_results_one_entry_per_path (canon : Key → Key) (batch : List (Key × Cov)) :
    NodupKeys (addResults canon [] batch) ∧
      ∀ k ∈ keys (addResults canon [] batch), ∃ kc ∈ batch, canon kc.1 = k := by
  refine ⟨nodupKeys_addResults _ _ _ (by simp [NodupKeys, keys]), ?_⟩
  intro k hk
  rcases keys_addResults_subset _ _ _ k hk with h | h
  · simp [keys] at h
  · exact h

/-- Under uniqueness the totals of a tree-shaped report count every file once: what a directory's
total adds up (one summand per record below it) equals the sum over the files listed below it. -/
theorem C12_totals_count_once (rep : List Rec) (inDir : Bytes → Bool)
    (h : (rep.map (·.rel)).Nodup) : dirTotal inDir rep = listedTotal inDir rep := by
  unfold listedTotal; rw [shown_of_nodup rep h]

/-- Without it they do not: on the witness report the root total is 5 lines for the single listed
file with 1 line. -/
theorem C12_totals_false :
    ∃ rep, rewritePaths {} ⟨[], [], []⟩ fiveSpellings = .ok rep ∧
      dirTotal (fun _ => true) rep = 5 ∧ listedTotal (fun _ => true) rep = 1 :=
  ⟨_, C12_duplicate_witness, by decide, by decide⟩

/-! ### non-vacuity -/

/-- guard 1 on a concrete map: two clean keys, reported under themselves -/
example : ∃ rep, rewritePaths {} ⟨[], [], []⟩
      [([102, 111, 111, 47, 98, 97, 114, 46, 99], { lines := [(1, 1)] }),
       ([47, 115, 47, 97, 46, 99], { lines := [(2, 0)] })] = .ok rep ∧
    rep.map (·.rel) = [[102, 111, 111, 47, 98, 97, 114, 46, 99], [47, 115, 47, 97, 46, 99]] :=
  ⟨_, rfl, by decide⟩

/-- guard 2 on a concrete tree: `/s/foo/bar.c` exists, the batch spells it three ways; `add_results`
puts them on one entry and the report has one record `foo/bar.c` with the summed count -/
def exFS : FS := { files := [[[115], [102, 111, 111], [98, 97, 114, 46, 99]]],
                   dirs := [[[115]], [[115], [102, 111, 111]]], cwd := [[115]] }

example : addThenRewrite { sourceDir := some [47, 115], prefixDir := some [47, 115] } exFS
      [([102, 111, 111, 47, 98, 97, 114, 46, 99], { lines := [(1, 1)] }),
       ([102, 111, 111, 47, 46, 47, 98, 97, 114, 46, 99], { lines := [(1, 2)] }),
       ([102, 111, 111, 47, 47, 98, 97, 114, 46, 99], { lines := [(1, 3)] })]
    = .ok [⟨[47, 115, 47, 102, 111, 111, 47, 98, 97, 114, 46, 99],
            [102, 111, 111, 47, 98, 97, 114, 46, 99], { lines := [(1, 6)] }⟩] := by decide

example : exFS.realpath (push (render ⟨true, [[115]]⟩) [102, 111, 111, 47, 46, 47, 98, 97, 114, 46, 99])
      = some (render ⟨true, [[115]] ++ [[102, 111, 111], [98, 97, 114, 46, 99]]⟩) ∧
    exFS.resolve (render ⟨true, [[115]] ++ [[102, 111, 111], [98, 97, 114, 46, 99]]⟩)
      = some ([[115]] ++ [[102, 111, 111], [98, 97, 114, 46, 99]], .file) := by decide

end Grcov.Props.C12
