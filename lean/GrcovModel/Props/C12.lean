/-
C12 — one record per source file.
Property theorems only, about `Rewrite.rewritePaths` (model of `rewrite_paths`,
src/path_rewriting.rs 333-405) composed with `Merge.addResults` (model of `add_results`,
src/lib.rs 101-134) and about the totals of tree-shaped reports. Helper lemmas:
GrcovModel/Lemmas/Rewrite.lean, GrcovModel/Lemmas/UPath.lean.

The full statement — distinct map keys give distinct reported paths — is FALSE of the unchanged
code: `rewrite_paths` maps every key on its own and collects the results without merging records
whose rewritten paths coincide (finding C12-respelled-duplicates). It is proved false from the
closed witness of DESIGN §7 item 14 (five spellings of `foo/bar.c`), which harness/c12 replays on
the real code; what is provable carries the guard the witness violates. Without a source dir and
a path mapping the guard is SHARP (`C12_unique_iff_no_source`, `C12_unique_iff_unfiltered`):
duplicates appear exactly when two reported keys share a lexical name. A second source of
duplicates — two clean keys that differ by the prefix dir — has its own closed witness
(`C12_prefix_collapse_witness`, finding C12-prefix-collapses-distinct-keys) and guard.
Under the canonical guard the single record is the C01 merge of all spellings
(`C12_canonical_record_is_merge`), and the totals statement is instantiated with the covdir writer.

WORDING (second review, item 6). The safe region of guard 2 is "KEYS THAT CANONICALISE below S":
every key `k` of the batch for which `canonicalize(S.join(k))` succeeds and lands on a regular file
below `S`. It is NOT "files that exist under --source-dir": an existing file is still listed twice
as soon as one input spells it in a way `S.join(k)` does not resolve — a backslash (`src\a.c`), a
build-machine prefix removed by `-p`, a path mapping, the source dir's own tail (`proj/src/a.c`),
`zz/../src/a.c` behind a missing directory, a trailing `/` (closed witnesses
`C12_existing_backslash_witness`, `…_prefix_witness`, `…_mapping_witness`;
`C12_existing_file_not_enough_false`). What holds for every batch, whatever its other keys, is the
per-file statement `C12_canonicalising_keys_share_one_entry`: all keys that canonicalise to one path
share one map entry, hence at most one record. Further parts added in session 4, wave 2:
* two DIFFERENT files under one reported path (`C12_outside_source_dir_witness`,
  `C12_one_path_one_file_false` / `_partial`; finding C12-outside-source-dir-keeps-own-name);
* Java/Kotlin keys (`Rewrite.addThenRewriteJ`): with every covered file on disk the partial-path
  lookup is off and guard 2 carries over (`C12_java_all_on_disk_unique`); with ONE covered file
  missing the lookup runs, but — since fix fdef150, which repaired finding
  C12-partial-path-remaps-existing-file — not on a path that names a file below the source dir:
  `C12_java_existing_once` (full strength: existing files keep one record each under their own
  path, for every walk order), `C12_java_nested_no_remap_witness`, and
  `C12_java_nested_remap_regression` about the old step; sibling modules `app` / `webapp`
  (`C12_java_sibling_modules_witness`; seed C12-4 replaces the component-wise `ends_with` by a
  textual one);
* `add_results` after fix 7f9b2b3: a canonical path that is not UTF-8 is not used as key
  (`Rewrite.addCanonU`, `C12_addCanonU_agrees`, `C12_non_utf8_canonical_not_merged`);
* the HTML writer's view of duplicates (`C12_html_totals_count_once`, `C12_html_totals_false`,
  `C12_html_global_counts_every_record`): it keys rows by the REPORTED path and skips absolute ones,
  where covdir keys by `Rec.treePath`.
-/
import GrcovModel.Lemmas.RewriteUnique
import GrcovModel.Lemmas.RewriteAddJ
import GrcovModel.Lemmas.Stats
import GrcovModel.Lemmas.StatsHtml
namespace Grcov.Props.C12
open Grcov Grcov.UPath Grcov.Glob Grcov.Rewrite AList

/-- Full statement: a result map (distinct keys) never yields two records with the same path. -/
def C12_unique_stmt : Prop :=
  ∀ (cfg : Cfg) (fs : FS) (m : List (Bytes × Cov)) (rep : List Rec),
    NodupKeys m → rewritePaths cfg fs m = .ok rep → (rep.map (·.rel)).Nodup

/-- `foo/bar.c`, `foo/./bar.c`, `foo//bar.c`, `foo\bar.c`, `x/../foo/bar.c` -/
def fiveSpellings : List (Bytes × Cov) :=
  [([102, 111, 111, 47, 98, 97, 114, 46, 99], { lines := [(1, 1)] }),
   ([102, 111, 111, 47, 46, 47, 98, 97, 114, 46, 99], { lines := [(1, 2)] }),
   ([102, 111, 111, 47, 47, 98, 97, 114, 46, 99], { lines := [(1, 3)] }),
   ([102, 111, 111, 92, 98, 97, 114, 46, 99], { lines := [(1, 4)] }),
   ([120, 47, 46, 46, 47, 102, 111, 111, 47, 98, 97, 114, 46, 99], { lines := [(1, 5)] })]

/-- The witness: default options, nothing on disk — five records, all named `foo/bar.c`, with the
five inputs' counts side by side instead of one record with their sum. -/
theorem C12_duplicate_witness :
    rewritePaths {} { files := [], dirs := [], cwd := [] } fiveSpellings =
      .ok ((List.range 5).map fun i =>
        ⟨[102, 111, 111, 47, 98, 97, 114, 46, 99], [102, 111, 111, 47, 98, 97, 114, 46, 99],
         { lines := [(1, i + 1)] }⟩) := by decide

theorem C12_unique_false : ¬ C12_unique_stmt := by
  intro h
  have := h {} { files := [], dirs := [], cwd := [] } fiveSpellings _ (by unfold NodupKeys keys; decide) C12_duplicate_witness
  revert this
  decide

/-- Guard 1 — keys already in normal form (clean relative or absolute paths without backslash),
no source dir, prefix or mapping: every record is reported under its own key, so the reported
paths are pairwise distinct. -/
theorem C12_unique_partial_normal_keys (cfg : Cfg) (fs : FS) (m : List (Bytes × Cov))
    (rep : List Rec) (hS : cfg.sourceDir = none) (hP : cfg.prefixDir = none)
    (hM : cfg.mapping = none) (hm : NodupKeys m)
    (hkeys : ∀ kc ∈ m, ∃ np : NPath, kc.1 = render np ∧ ∀ n ∈ np.names, RealName n ∧ 92 ∉ n)
    (h : rewritePaths cfg fs m = .ok rep) :
    (rep.map (·.rel)).Nodup ∧ ∀ r ∈ rep, r.rel ∈ keys m := by
  obtain ⟨_, _, e⟩ := (rewritePaths_eq_ok _ _ _ _).1 h
  have hrel : ∀ kc ∈ m, ∀ r, keyRec cfg fs kc = some r → r.rel = kc.1 := by
    intro kc hkc r hr
    obtain ⟨np, ek, hn⟩ := hkeys kc hkc
    have hr' := (keyRec_eq_some _ _ _ _).1 hr
    have : kc = (render np, kc.2) := by rw [← ek]
    rw [this] at hr'
    rw [ek]
    exact rewriteKey_rel_of_normal_key hS hP hM (fun n h => (hn n h).1) (fun n h => (hn n h).2) hr'
  subst e
  refine ⟨nodup_rel_of_injective (keyRec cfg fs) id m hm hrel (fun _ _ _ _ e => e), ?_⟩
  intro r hr
  obtain ⟨kc, hkc, hf⟩ := List.mem_filterMap.1 hr
  rw [hrel kc hkc r hf]
  exact List.mem_map.2 ⟨kc, hkc, rfl⟩

/-! ### the sharp guard (no source dir, no path mapping)

Without a source dir and a mapping the name a key is reported under is a function of the key alone:
the lexical normal form of the key with its backslashes turned into '/' and the prefix dir removed
(`lexName`). The report then has pairwise distinct paths EXACTLY when that function is injective
on the keys that are reported — which is also the exact extent of finding
C12-respelled-duplicates in this regime: duplicates appear exactly when two reported keys share a
lexical name. -/

/-- the name a key is reported under when neither a source dir nor a path mapping is given -/
def lexName (cfg : Cfg) (k : Bytes) : Option Bytes :=
  normalizePath (removePrefix cfg.prefixDir (bsl k))

/-- Every reported record carries its key's lexical name (any prefix dir, any filters). -/
theorem C12_reported_under_lexName (cfg : Cfg) (fs : FS) (hS : cfg.sourceDir = none)
    (hM : cfg.mapping = none) (kc : Bytes × Cov) (r : Rec)
    (h : rewriteKey cfg fs kc = .ok (some r)) : lexName cfg kc.1 = some r.rel := by
  unfold lexName; rw [← keyPath_noMapping hM]; exact rel_eq_nf hS hM h

/-- **Sharp guard.** No source dir, no mapping (any prefix dir, any filters, any file system): the
report has no two records with the same path iff `lexName` is injective on the keys that are
reported. -/
theorem C12_unique_iff_no_source (cfg : Cfg) (fs : FS) (m : List (Bytes × Cov)) (rep : List Rec)
    (hS : cfg.sourceDir = none) (hM : cfg.mapping = none) (hm : NodupKeys m)
    (h : rewritePaths cfg fs m = .ok rep) :
    (rep.map (·.rel)).Nodup ↔
      ∀ kc1 ∈ m, ∀ kc2 ∈ m, (∃ r, rewriteKey cfg fs kc1 = .ok (some r)) →
        (∃ r, rewriteKey cfg fs kc2 = .ok (some r)) →
        lexName cfg kc1.1 = lexName cfg kc2.1 → kc1.1 = kc2.1 := by
  obtain ⟨_, _, e⟩ := (rewritePaths_eq_ok _ _ _ _).1 h
  subst e
  have hrel : ∀ kc ∈ m, ∀ r, keyRec cfg fs kc = some r → r.rel = (lexName cfg kc.1).getD [] := by
    intro kc _ r hr
    rw [C12_reported_under_lexName cfg fs hS hM kc r ((keyRec_eq_some _ _ _ _).1 hr)]; rfl
  rw [nodup_rel_iff (keyRec cfg fs) (fun k => (lexName cfg k).getD []) m hm hrel]
  constructor
  · intro H kc1 h1 kc2 h2 ⟨r1, e1⟩ ⟨r2, e2⟩ hl
    exact H kc1 h1 kc2 h2 (by simp [(keyRec_eq_some _ _ _ _).2 e1]) (by simp [(keyRec_eq_some _ _ _ _).2 e2])
      (by show (lexName cfg kc1.1).getD [] = (lexName cfg kc2.1).getD []; rw [hl])
  · intro H kc1 h1 kc2 h2 s1 s2 hG
    obtain ⟨r1, e1⟩ := Option.isSome_iff_exists.1 s1
    obtain ⟨r2, e2⟩ := Option.isSome_iff_exists.1 s2
    have k1 := (keyRec_eq_some _ _ _ _).1 e1
    have k2 := (keyRec_eq_some _ _ _ _).1 e2
    refine H kc1 h1 kc2 h2 ⟨r1, k1⟩ ⟨r2, k2⟩ ?_
    have l1 := C12_reported_under_lexName cfg fs hS hM kc1 r1 k1
    have l2 := C12_reported_under_lexName cfg fs hS hM kc2 r2 k2
    simp only [l1, l2, Option.getD_some] at hG
    rw [l1, l2, hG]

/-- With the filters off (and a clean current directory) a key is reported iff it has a lexical
name, so the criterion speaks about the keys alone: the report has pairwise distinct paths iff no
two distinct keys share a lexical name. E.g. `./a.c` with `b.c` is fine; `./a.c` with `a.c`, or
`foo\bar.c` with `foo/bar.c`, or (prefix `p`) `p/a.c` with `a.c`, is not. -/
theorem C12_unique_iff_unfiltered (cfg : Cfg) (fs : FS) (m : List (Bytes × Cov)) (rep : List Rec)
    (hS : cfg.sourceDir = none) (hM : cfg.mapping = none) (hI : cfg.ignore = []) (hK : cfg.keep = [])
    (hE : cfg.ignoreNotExisting = false) (hF : cfg.filter = none) (hcwd : ∀ n ∈ fs.cwd, RealName n)
    (hm : NodupKeys m) (h : rewritePaths cfg fs m = .ok rep) :
    (rep.map (·.rel)).Nodup ↔
      ∀ k1 ∈ keys m, ∀ k2 ∈ keys m, lexName cfg k1 ≠ none → lexName cfg k1 = lexName cfg k2 → k1 = k2 := by
  have hrep : ∀ kc : Bytes × Cov, (∃ r, rewriteKey cfg fs kc = .ok (some r)) ↔ lexName cfg kc.1 ≠ none := by
    intro kc
    constructor
    · rintro ⟨r, hr⟩; rw [C12_reported_under_lexName cfg fs hS hM kc r hr]; simp
    · intro hne
      obtain ⟨n, hn⟩ := Option.ne_none_iff_exists'.1 hne
      unfold lexName at hn
      rw [← keyPath_noMapping hM] at hn
      obtain ⟨a, ha⟩ := resolveKey_noSource hS hM hcwd hn
      refine ⟨⟨a, n, kc.2⟩, ?_⟩
      rw [rewriteKey_some_iff]
      refine ⟨a, n, ha, ?_⟩
      rw [selectRec_some_iff]
      simp [hI, hK, hE, hF, setMatch, filterOk]
  rw [C12_unique_iff_no_source cfg fs m rep hS hM hm h]
  constructor
  · intro H k1 h1 k2 h2 hne hl
    obtain ⟨kc1, m1, rfl⟩ := List.mem_map.1 h1
    obtain ⟨kc2, m2, rfl⟩ := List.mem_map.1 h2
    exact H kc1 m1 kc2 m2 ((hrep kc1).2 hne) ((hrep kc2).2 (hl ▸ hne)) hl
  · intro H kc1 m1 kc2 m2 r1 _ hl
    exact H kc1.1 (List.mem_map.2 ⟨kc1, m1, rfl⟩) kc2.1 (List.mem_map.2 ⟨kc2, m2, rfl⟩) ((hrep kc1).1 r1) hl

/-! ### a second source of duplicates: the prefix dir -/

/-- Statement with guard 1 but a prefix dir allowed: keys already in normal form, no source dir, no
mapping ⇒ pairwise distinct paths. FALSE (finding C12-prefix-collapses-distinct-keys). -/
def C12_unique_normal_keys_stmt : Prop :=
  ∀ (cfg : Cfg) (fs : FS) (m : List (Bytes × Cov)) (rep : List Rec),
    cfg.sourceDir = none → cfg.mapping = none → NodupKeys m →
    (∀ kc ∈ m, ∃ np : NPath, kc.1 = render np ∧ ∀ n ∈ np.names, RealName n ∧ 92 ∉ n) →
    rewritePaths cfg fs m = .ok rep → (rep.map (·.rel)).Nodup

/-- Witness: `--prefix-dir p`, keys `p/a.c` and `a.c` — two different clean keys, neither a
respelling of the other — are both reported as `a.c`, each with its own counts. -/
theorem C12_prefix_collapse_witness :
    rewritePaths { prefixDir := some [112] } { files := [], dirs := [], cwd := [] }
        [([112, 47, 97, 46, 99], { lines := [(1, 1)] }), ([97, 46, 99], { lines := [(1, 2)] })]
      = .ok [⟨[97, 46, 99], [97, 46, 99], { lines := [(1, 1)] }⟩,
             ⟨[97, 46, 99], [97, 46, 99], { lines := [(1, 2)] }⟩] := by decide

theorem C12_unique_normal_keys_false : ¬ C12_unique_normal_keys_stmt := by
  intro h
  have := h { prefixDir := some [112] } { files := [], dirs := [], cwd := [] } _ _ rfl rfl (by unfold NodupKeys keys; decide)
    (by
      intro kc hkc
      simp only [List.mem_cons, List.not_mem_nil, or_false] at hkc
      rcases hkc with rfl | rfl
      · exact ⟨⟨false, [[112], [97, 46, 99]]⟩, by decide, by decide⟩
      · exact ⟨⟨false, [[97, 46, 99]]⟩, by decide, by decide⟩)
    C12_prefix_collapse_witness
  revert this
  decide

/-- Under the guard the witness violates — EVERY key lies below the (clean, absolute) prefix dir,
in normal form and without backslash — stripping the common prefix is injective and the reported
paths are pairwise distinct. (The other way to satisfy the sharp criterion, no key below the
prefix, is guard 1.) -/
theorem C12_unique_partial_below_prefix (cfg : Cfg) (fs : FS) (m : List (Bytes × Cov)) (rep : List Rec)
    (pn : List Bytes) (hS : cfg.sourceDir = none) (hM : cfg.mapping = none)
    (hP : cfg.prefixDir = some (render ⟨true, pn⟩)) (hpn : ∀ n ∈ pn, RealName n ∧ 92 ∉ n)
    (hm : NodupKeys m)
    (hkeys : ∀ kc ∈ m, ∃ names, kc.1 = render ⟨true, pn ++ names⟩ ∧ ∀ n ∈ names, RealName n ∧ 92 ∉ n)
    (h : rewritePaths cfg fs m = .ok rep) : (rep.map (·.rel)).Nodup := by
  rw [C12_unique_iff_no_source cfg fs m rep hS hM hm h]
  have hname : ∀ names, (∀ n ∈ names, RealName n ∧ 92 ∉ n) →
      lexName cfg (render ⟨true, pn ++ names⟩) = some (join names) := by
    intro names hn
    have hall : ∀ n ∈ pn ++ names, 92 ∉ n := by
      intro n hmem
      rcases List.mem_append.1 hmem with hmem | hmem
      · exact (hpn n hmem).2
      · exact (hn n hmem).2
    unfold lexName
    rw [bsl_id (noBackslash_render (np := ⟨true, pn ++ names⟩) hall), hP]
    simp only [removePrefix, stripPrefix_render (fun n h => (hpn n h).1) (fun n h => (hn n h).1)]
    rw [join_eq_render, normalizePath_render (np := ⟨false, names⟩) fun n h => (hn n h).1]
  intro kc1 h1 kc2 h2 _ _ hl
  obtain ⟨n1, e1, hn1⟩ := hkeys kc1 h1
  obtain ⟨n2, e2, hn2⟩ := hkeys kc2 h2
  rw [e1, e2, hname n1 hn1, hname n2 hn2] at hl
  have := join_injective (fun n h => (hn1 n h).1) (fun n h => (hn2 n h).1) (Option.some.inj hl)
  rw [e1, e2, this]

/-- the criterion on concrete maps: `./a.c` with `b.c` satisfies it (guard 1 does not: `./a.c` is
not in normal form); `./a.c` with `a.c` does not -/
example : ∀ k1 ∈ keys [([46, 47, 97, 46, 99], ({} : Cov)), ([98, 46, 99], {})],
    ∀ k2 ∈ keys [([46, 47, 97, 46, 99], ({} : Cov)), ([98, 46, 99], {})],
    lexName {} k1 ≠ none → lexName {} k1 = lexName {} k2 → k1 = k2 := by decide

example : lexName {} [46, 47, 97, 46, 99] = lexName {} [97, 46, 99] ∧
    lexName { prefixDir := some [112] } [112, 47, 97, 46, 99] = lexName { prefixDir := some [112] } [97, 46, 99] := by
  decide

/-- all keys below the prefix `/p`: `/p/a.c`, `/p/x/b.c` are reported as `a.c`, `x/b.c` -/
example : ∃ rep, rewritePaths { prefixDir := some [47, 112] } { files := [], dirs := [], cwd := [] }
      [([47, 112, 47, 97, 46, 99], {}), ([47, 112, 47, 120, 47, 98, 46, 99], {})] = .ok rep ∧
    rep.map (·.rel) = [[97, 46, 99], [120, 47, 98, 46, 99]] := ⟨_, rfl, by decide⟩

/-- Guard 2 — what `main` does for files that exist below the source dir: `add_results`
canonicalises `source_dir/key` before keying the map, so every spelling of an existing file lands
on one entry (aggregated according to C01); with a clean source dir `S`, no mapping, and the
prefix absent or equal to `S`, the report then has pairwise distinct paths. The file-system
hypothesis is that each key canonicalises to a path below `S` that names a regular file and is its
own canonical form. -/
theorem C12_unique_partial_canonical (cfg : Cfg) (fs : FS) (sn : List Bytes)
    (batch : List (Bytes × Cov)) (rep : List Rec)
    (hS : cfg.sourceDir = some (render ⟨true, sn⟩)) (hM : cfg.mapping = none)
    (hP : cfg.prefixDir = none ∨ cfg.prefixDir = some (render ⟨true, sn⟩))
    (hsn : ∀ n ∈ sn, RealName n ∧ 92 ∉ n)
    (hex : ∀ kc ∈ batch, ∃ names, names ≠ [] ∧ (∀ n ∈ names, RealName n ∧ 92 ∉ n) ∧
      fs.realpath (push (render ⟨true, sn⟩) kc.1) = some (render ⟨true, sn ++ names⟩) ∧
      fs.resolve (render ⟨true, sn ++ names⟩) = some (sn ++ names, .file))
    (h : addThenRewrite cfg fs batch = .ok rep) : (rep.map (·.rel)).Nodup :=
  unique_canonical cfg fs sn batch rep hS hM hP hsn hex h

/-- … and that single record IS the aggregate of all the spellings (C01): under the same guard,
every reported record is named `names` for a file `S/names`, and its data is the left fold of
`merge` (`foldInto none`) over exactly the batch entries whose key canonicalises to `S/names`, in
batch order — `merge` being the operation C01 proves commutative, associative and saturating. -/
theorem C12_canonical_record_is_merge (cfg : Cfg) (fs : FS) (sn : List Bytes)
    (batch : List (Bytes × Cov)) (rep : List Rec)
    (hS : cfg.sourceDir = some (render ⟨true, sn⟩)) (hM : cfg.mapping = none)
    (hP : cfg.prefixDir = none ∨ cfg.prefixDir = some (render ⟨true, sn⟩))
    (hsn : ∀ n ∈ sn, RealName n ∧ 92 ∉ n)
    (hex : ∀ kc ∈ batch, ∃ names, names ≠ [] ∧ (∀ n ∈ names, RealName n ∧ 92 ∉ n) ∧
      fs.realpath (push (render ⟨true, sn⟩) kc.1) = some (render ⟨true, sn ++ names⟩) ∧
      fs.resolve (render ⟨true, sn ++ names⟩) = some (sn ++ names, .file))
    (h : addThenRewrite cfg fs batch = .ok rep) :
    ∀ r ∈ rep, ∃ names, names ≠ [] ∧ (∀ n ∈ names, RealName n ∧ 92 ∉ n) ∧ r.rel = join names ∧
      some r.cov = foldInto none
        ((batch.filter fun kc => addCanon fs cfg.sourceDir kc.1 = render ⟨true, sn ++ names⟩).map (·.2)) := by
  intro r hr
  unfold addThenRewrite at h
  obtain ⟨kc, hkc, hk⟩ := (mem_rewritePaths h r).1 hr
  have hm : NodupKeys (addResults (addCanon fs cfg.sourceDir) [] batch) :=
    nodupKeys_addResults _ _ _ (by simp [NodupKeys, keys])
  have hk1 : kc.1 ∈ keys (addResults (addCanon fs cfg.sourceDir) [] batch) := List.mem_map.2 ⟨kc, hkc, rfl⟩
  rcases keys_addResults_subset _ _ _ kc.1 hk1 with h0 | ⟨kc0, hkc0, ek⟩
  · simp [keys] at h0
  · obtain ⟨names, hne, hn, hreal, hres⟩ := hex kc0 hkc0
    have ekey : kc.1 = render ⟨true, sn ++ names⟩ := by rw [← ek]; simp [addCanon, hS, hreal]
    refine ⟨names, hne, hn, ?_, ?_⟩
    · have : kc = (render ⟨true, sn ++ names⟩, kc.2) := by rw [← ekey]
      rw [this] at hk
      exact rewriteKey_canonical_key hS hM hP hsn hn hne hres hk
    · have hcov : r.cov = kc.2 := by
        obtain ⟨a, rl, _, hsel⟩ := (rewriteKey_some_iff _ _ _ _).1 hk
        obtain ⟨_, _, _, _, e⟩ := (selectRec_some_iff _ _ _ _ _ _).1 hsel
        rw [e]
      have hget : get? (addResults (addCanon fs cfg.sourceDir) [] batch) kc.1 = some kc.2 :=
        get?_of_mem hm (by cases kc; exact hkc)
      rw [get?_addResults, ekey] at hget
      rw [hcov, ← hget]; rfl

/-- `add_results` keeps one entry per canonicalised key, whatever the spellings in the batches. -/
theorem C12_add_results_one_entry_per_path (canon : Key → Key) (batch : List (Key × Cov)) :
    NodupKeys (addResults canon [] batch) ∧
      ∀ k ∈ keys (addResults canon [] batch), ∃ kc ∈ batch, canon kc.1 = k := by
  refine ⟨nodupKeys_addResults _ _ _ (by simp [NodupKeys, keys]), ?_⟩
  intro k hk
  rcases keys_addResults_subset _ _ _ k hk with h | h
  · simp [keys] at h
  · exact h

/-- Under uniqueness the totals of a tree-shaped report count every file once: what a directory's
total adds up (one summand per record below it) equals the sum over the files listed below it. -/
theorem C12_totals_count_once (rep : List Rec) (inDir : Bytes → Bool)
    (h : (rep.map Rec.treePath).Nodup) : dirTotal inDir rep = listedTotal inDir rep := by
  unfold listedTotal; rw [shown_of_nodup rep h]

/-- pairwise distinct paths are what a tree-shaped writer needs to show every record: nothing is
replaced by a later record of the same name -/
theorem C12_shown_all_of_unique (rep : List Rec) (h : (rep.map Rec.treePath).Nodup) :
    shown rep = rep :=
  shown_of_nodup rep h

/-- The same, instantiated with the covdir writer (`Stats.covdir`, model of `output_covdir`, tied to
the code by C13/C03): whatever way the records are turned into the writer's input (any `FileIn`
list carrying the records' data in order), the ROOT `linesTotal` of the covdir report is the sum
over all records; so when the reported paths are pairwise distinct it equals the sum over the
files the report lists, each once. -/
theorem C12_covdir_root_counts_each_file_once (rep : List Rec) (rs : List Stats.FileIn)
    (t : Stats.CDRoot) (hcov : rs.map (·.cov) = rep.map (·.cov)) (h : Stats.covdir rs = .ok t) :
    t.stats.total = dirTotal (fun _ => true) rep ∧
      ((rep.map Rec.treePath).Nodup → t.stats.total = listedTotal (fun _ => true) rep) := by
  have hroot : t.stats.total = dirTotal (fun _ => true) rep := by
    obtain ⟨rfl, h0⟩ := Stats.covdir_ok h
    rw [Stats.covdirTree_root rs h0]
    have hsum : ∀ xs : List Stats.CDStats, (Stats.sumCD xs).total = (xs.map (·.total)).sum := by
      intro xs
      induction xs with
      | nil => rfl
      | cons x xs ih => simp [Stats.CDStats.add, ih]
    rw [hsum, List.map_map]
    have hfile : ∀ r ∈ rs, ((fun x : Stats.CDStats => x.total) ∘ fun r : Stats.FileIn => r.cdFile.stats) r
        = r.cov.lines.length := by
      intro r hr
      simp only [Function.comp]
      unfold Stats.FileIn.cdFile
      rw [Stats.cdFileNew_stats _ _ (h0 r hr)]
    rw [List.map_congr_left hfile]
    have hall : rep.filter (fun _ => true) = rep := List.filter_eq_self.2 (by simp)
    unfold dirTotal
    rw [hall]
    have : (rs.map fun r => r.cov.lines.length) = (rs.map (·.cov)).map fun c => c.lines.length := by
      rw [List.map_map]; rfl
    rw [this, hcov, List.map_map]; rfl
  exact ⟨hroot, fun hnd => by rw [hroot]; exact C12_totals_count_once rep _ hnd⟩

/-- Without it they do not: on the witness report the root total is 5 lines for the single listed
file with 1 line. -/
theorem C12_totals_false :
    ∃ rep, rewritePaths {} { files := [], dirs := [], cwd := [] } fiveSpellings = .ok rep ∧
      dirTotal (fun _ => true) rep = 5 ∧ listedTotal (fun _ => true) rep = 1 :=
  ⟨_, C12_duplicate_witness, by decide, by decide⟩

/-! ### symbolic links

`FS` carries symbolic links and `realpath` follows them, so `C12_unique_partial_canonical` and
`C12_canonical_record_is_merge` — stated through `fs.realpath` — ARE the statements for symlinked
layouts: every key that reaches an existing file below the source dir, through whatever links, is
canonicalised by `add_results` to the file's physical path, the spellings land on one map entry,
and the report has one record with the merged data. Without a source dir nothing is canonicalised
before `rewrite_paths`, and one file reached through two names is reported twice. -/

/-- `/s/lib/util.c` with the links `/s/include -> lib` and `/s/compat.c -> lib/util.c` -/
def linkFS : FS :=
  { files := [[[115], [108, 105, 98], [117, 116, 105, 108, 46, 99]]],
    dirs := [[[115]], [[115], [108, 105, 98]]], cwd := [[115]],
    links := [([[115], [105, 110, 99, 108, 117, 100, 101]], [108, 105, 98]),
              ([[115], [99, 111, 109, 112, 97, 116, 46, 99]], [108, 105, 98, 47, 117, 116, 105, 108, 46, 99])] }

/-- `lib/util.c`, `include/util.c`, `compat.c`: three names of one file -/
def linkBatch : List (Bytes × Cov) :=
  [([108, 105, 98, 47, 117, 116, 105, 108, 46, 99], { lines := [(1, 1)] }),
   ([105, 110, 99, 108, 117, 100, 101, 47, 117, 116, 105, 108, 46, 99], { lines := [(1, 2)] }),
   ([99, 111, 109, 112, 97, 116, 46, 99], { lines := [(1, 3)] })]

/-- With the source dir `/s`: ONE record, `lib/util.c`, with the summed count. -/
theorem C12_symlink_one_record :
    addThenRewrite { sourceDir := some [47, 115] } linkFS linkBatch
      = .ok [⟨[47, 115, 47, 108, 105, 98, 47, 117, 116, 105, 108, 46, 99],
              [108, 105, 98, 47, 117, 116, 105, 108, 46, 99], { lines := [(1, 6)] }⟩] := by
  decide +kernel

/-- … as an instance of the general theorem: the batch meets the hypotheses of
`C12_unique_partial_canonical` (every key canonicalises, THROUGH THE LINKS, to an existing regular
file below `/s`). -/
theorem C12_symlink_batch_is_canonical :
    ∀ kc ∈ linkBatch, ∃ names, names ≠ [] ∧ (∀ n ∈ names, RealName n ∧ 92 ∉ n) ∧
      linkFS.realpath (push (render ⟨true, [[115]]⟩) kc.1) = some (render ⟨true, [[115]] ++ names⟩) ∧
      linkFS.resolve (render ⟨true, [[115]] ++ names⟩) = some ([[115]] ++ names, .file) := by
  intro kc hkc
  refine ⟨[[108, 105, 98], [117, 116, 105, 108, 46, 99]], by decide, by decide, ?_, by decide +kernel⟩
  simp only [linkBatch, List.mem_cons, List.not_mem_nil, or_false] at hkc
  rcases hkc with rfl | rfl | rfl <;> decide +kernel

/-- Full statement "one record per source FILE": no two records of a report share the absolute
path. FALSE without a source dir (and for files that do not exist below it). -/
def C12_one_record_per_file_stmt : Prop :=
  ∀ (cfg : Cfg) (fs : FS) (batch : List (Bytes × Cov)) (rep : List Rec),
    addThenRewrite cfg fs batch = .ok rep → (rep.map (·.abs)).Nodup

/-- Without a source dir `add_results` keys the map by the raw strings; `rewrite_paths`
canonicalises each key's ABSOLUTE path on its own and keeps the key's lexical form as the relative
path: three records, one file (`/s/lib/util.c`), three names. A writer that files records under
the absolute path (covdir, when the relative path is absolute) counts the file more than once. -/
theorem C12_symlink_no_source_dir_witness :
    addThenRewrite {} linkFS linkBatch
      = .ok [⟨[47, 115, 47, 108, 105, 98, 47, 117, 116, 105, 108, 46, 99], [108, 105, 98, 47, 117, 116, 105, 108, 46, 99], { lines := [(1, 1)] }⟩,
             ⟨[47, 115, 47, 108, 105, 98, 47, 117, 116, 105, 108, 46, 99], [105, 110, 99, 108, 117, 100, 101, 47, 117, 116, 105, 108, 46, 99], { lines := [(1, 2)] }⟩,
             ⟨[47, 115, 47, 108, 105, 98, 47, 117, 116, 105, 108, 46, 99], [99, 111, 109, 112, 97, 116, 46, 99], { lines := [(1, 3)] }⟩] := by
  decide +kernel

theorem C12_one_record_per_file_false : ¬ C12_one_record_per_file_stmt := by
  intro h
  have := h _ _ _ _ C12_symlink_no_source_dir_witness
  revert this
  decide

/-- Under the canonical guard (links allowed) there is one record per physical file: the reported
paths are pairwise distinct, and the record named `names` carries the merge of ALL batch entries
whose key canonicalises — through whatever links — to the file `S/names`, so no other record
holds data of that file. -/
theorem C12_one_record_per_file_partial (cfg : Cfg) (fs : FS) (sn : List Bytes)
    (batch : List (Bytes × Cov)) (rep : List Rec)
    (hS : cfg.sourceDir = some (render ⟨true, sn⟩)) (hM : cfg.mapping = none)
    (hP : cfg.prefixDir = none ∨ cfg.prefixDir = some (render ⟨true, sn⟩))
    (hsn : ∀ n ∈ sn, RealName n ∧ 92 ∉ n)
    (hex : ∀ kc ∈ batch, ∃ names, names ≠ [] ∧ (∀ n ∈ names, RealName n ∧ 92 ∉ n) ∧
      fs.realpath (push (render ⟨true, sn⟩) kc.1) = some (render ⟨true, sn ++ names⟩) ∧
      fs.resolve (render ⟨true, sn ++ names⟩) = some (sn ++ names, .file))
    (h : addThenRewrite cfg fs batch = .ok rep) :
    (rep.map (·.rel)).Nodup ∧ ∀ r ∈ rep, ∃ names, names ≠ [] ∧ r.rel = join names ∧
      some r.cov = foldInto none
        ((batch.filter fun kc => addCanon fs cfg.sourceDir kc.1 = render ⟨true, sn ++ names⟩).map (·.2)) := by
  refine ⟨C12_unique_partial_canonical cfg fs sn batch rep hS hM hP hsn hex h, ?_⟩
  intro r hr
  obtain ⟨names, hne, _, e1, e2⟩ := C12_canonical_record_is_merge cfg fs sn batch rep hS hM hP hsn hex h r hr
  exact ⟨names, hne, e1, e2⟩

/-- the general theorems applied to the symlinked batch -/
example : ∀ rep, addThenRewrite { sourceDir := some (render ⟨true, [[115]]⟩) } linkFS linkBatch = .ok rep →
    (rep.map (·.rel)).Nodup :=
  fun rep h => C12_unique_partial_canonical _ linkFS [[115]] linkBatch rep rfl rfl (Or.inl rfl) (by decide)
    C12_symlink_batch_is_canonical h

/-! ### non-vacuity -/

/-- guard 1 on a concrete map: two clean keys, reported under themselves -/
example : ∃ rep, rewritePaths {} { files := [], dirs := [], cwd := [] }
      [([102, 111, 111, 47, 98, 97, 114, 46, 99], { lines := [(1, 1)] }),
       ([47, 115, 47, 97, 46, 99], { lines := [(2, 0)] })] = .ok rep ∧
    rep.map (·.rel) = [[102, 111, 111, 47, 98, 97, 114, 46, 99], [47, 115, 47, 97, 46, 99]] :=
  ⟨_, rfl, by decide⟩

/-- guard 2 on a concrete tree: `/s/foo/bar.c` exists, the batch spells it three ways; `add_results`
puts them on one entry and the report has one record `foo/bar.c` with the summed count -/
def exFS : FS := { files := [[[115], [102, 111, 111], [98, 97, 114, 46, 99]]],
                   dirs := [[[115]], [[115], [102, 111, 111]]], cwd := [[115]] }

example : addThenRewrite { sourceDir := some [47, 115], prefixDir := some [47, 115] } exFS
      [([102, 111, 111, 47, 98, 97, 114, 46, 99], { lines := [(1, 1)] }),
       ([102, 111, 111, 47, 46, 47, 98, 97, 114, 46, 99], { lines := [(1, 2)] }),
       ([102, 111, 111, 47, 47, 98, 97, 114, 46, 99], { lines := [(1, 3)] })]
    = .ok [⟨[47, 115, 47, 102, 111, 111, 47, 98, 97, 114, 46, 99],
            [102, 111, 111, 47, 98, 97, 114, 46, 99], { lines := [(1, 6)] }⟩] := by decide

example : exFS.realpath (push (render ⟨true, [[115]]⟩) [102, 111, 111, 47, 46, 47, 98, 97, 114, 46, 99])
      = some (render ⟨true, [[115]] ++ [[102, 111, 111], [98, 97, 114, 46, 99]]⟩) ∧
    exFS.resolve (render ⟨true, [[115]] ++ [[102, 111, 111], [98, 97, 114, 46, 99]]⟩)
      = some ([[115]] ++ [[102, 111, 111], [98, 97, 114, 46, 99]], .file) := by decide

/-- the covdir instance on a concrete report with two distinct paths: the hypotheses hold and the
root total is 1 + 2 = 3, the sum over the two listed files -/
example :
    let rep : List Rec := [⟨[47, 115, 47, 97, 46, 99], [97, 46, 99], { lines := [(1, 1)] }⟩,
                           ⟨[47, 115, 47, 98, 46, 99], [98, 46, 99], { lines := [(1, 0), (2, 5)] }⟩]
    let rs : List Stats.FileIn :=
      [{ relIsRel := true, openable := true, rel := [[97, 46, 99]], abs := [], cov := { lines := [(1, 1)] } },
       { relIsRel := true, openable := true, rel := [[98, 46, 99]], abs := [], cov := { lines := [(1, 0), (2, 5)] } }]
    rs.map (·.cov) = rep.map (·.cov) ∧ (rep.map (·.rel)).Nodup ∧
      (∃ t, Stats.covdir rs = .ok t ∧ t.stats.total = 3) ∧ listedTotal (fun _ => true) rep = 3 := by
  refine ⟨rfl, by decide, ⟨_, rfl, by decide⟩, by decide⟩

/-! ### second review, item 6: an EXISTING file below the source dir is not enough -/

/-- `/h/proj/src/a.c`, cwd `/h/proj` -/
def existFS : FS :=
  { files := [[[104], [112, 114, 111, 106], [115, 114, 99], [97, 46, 99]]],
    dirs := [[[104]], [[104], [112, 114, 111, 106]], [[104], [112, 114, 111, 106], [115, 114, 99]]],
    cwd := [[104], [112, 114, 111, 106]] }

/-- `/h/proj` -/
def hProj : Bytes := [47, 104, 47, 112, 114, 111, 106]
/-- `src/a.c` -/
def srcAC : Bytes := [115, 114, 99, 47, 97, 46, 99]
/-- `/h/proj/src/a.c` -/
def absAC : Bytes := [47, 104, 47, 112, 114, 111, 106, 47, 115, 114, 99, 47, 97, 46, 99]

/-- the report all three witnesses below produce: the existing file `src/a.c` twice, the two
inputs' counts side by side -/
def twoRecords : List Rec :=
  [⟨absAC, srcAC, { lines := [(1, 1)] }⟩, ⟨absAC, srcAC, { lines := [(1, 2)] }⟩]

/-- (a) "merge a Windows and a Linux tracefile": `-s /h/proj`, keys `src\a.c` and `src/a.c`,
`/h/proj/src/a.c` on disk: `add_results` canonicalises the second key only
(`/h/proj/src\a.c` does not exist), `rewrite_paths` turns the backslash of the first into '/'
afterwards — two records. -/
theorem C12_existing_backslash_witness :
    addThenRewrite { sourceDir := some hProj } existFS
        [([115, 114, 99, 92, 97, 46, 99], { lines := [(1, 1)] }), (srcAC, { lines := [(1, 2)] })]
      = .ok twoRecords := by decide +kernel

/-- (c) "merge from the build machine with -p": `-s /h/proj -p /builds/w`, keys
`/builds/w/src/a.c` and `src/a.c` — two records. -/
theorem C12_existing_prefix_witness :
    addThenRewrite { sourceDir := some hProj, prefixDir := some [47, 98, 117, 105, 108, 100, 115, 47, 119] } existFS
        [([47, 98, 117, 105, 108, 100, 115, 47, 119, 47, 115, 114, 99, 47, 97, 46, 99], { lines := [(1, 1)] }),
         (srcAC, { lines := [(1, 2)] })]
      = .ok twoRecords := by decide +kernel

/-- (g) a path mapping `obj/a.c ↦ src/a.c`, keys `obj/a.c` and `src/a.c` — two records. -/
theorem C12_existing_mapping_witness :
    addThenRewrite { sourceDir := some hProj, mapping := some [([111, 98, 106, 47, 97, 46, 99], srcAC)] } existFS
        [([111, 98, 106, 47, 97, 46, 99], { lines := [(1, 1)] }), (srcAC, { lines := [(1, 2)] })]
      = .ok twoRecords := by decide +kernel

/-- Guard 2 with its file-system hypothesis weakened from "every KEY canonicalises below `S`" to
"every reported record denotes an existing regular file below `S`" (the reading "files existing
under --source-dir"): same options, clean source dir. -/
def C12_existing_file_not_enough_stmt : Prop :=
  ∀ (cfg : Cfg) (fs : FS) (sn : List Bytes) (batch : List (Bytes × Cov)) (rep : List Rec),
    cfg.sourceDir = some (render ⟨true, sn⟩) → cfg.mapping = none →
    (cfg.prefixDir = none ∨ cfg.prefixDir = some (render ⟨true, sn⟩)) →
    (∀ n ∈ sn, RealName n ∧ 92 ∉ n) →
    addThenRewrite cfg fs batch = .ok rep →
    (∀ r ∈ rep, ∃ names, names ≠ [] ∧ (∀ n ∈ names, RealName n ∧ 92 ∉ n) ∧
      r.abs = render ⟨true, sn ++ names⟩ ∧ fs.resolve r.abs = some (sn ++ names, .file)) →
    (rep.map (·.rel)).Nodup

/-- FALSE: witness (a) — no mapping, no prefix, both records are the existing `/h/proj/src/a.c`. -/
theorem C12_existing_file_not_enough_false : ¬ C12_existing_file_not_enough_stmt := by
  intro h
  have := h { sourceDir := some hProj } existFS [[104], [112, 114, 111, 106]] _ _ (by decide) rfl
    (Or.inl rfl) (by decide) C12_existing_backslash_witness
    (by
      intro r hr
      refine ⟨[[115, 114, 99], [97, 46, 99]], by decide, by decide, ?_, ?_⟩
      · simp only [twoRecords, List.mem_cons, List.not_mem_nil, or_false] at hr
        rcases hr with rfl | rfl <;> decide
      · simp only [twoRecords, List.mem_cons, List.not_mem_nil, or_false] at hr
        rcases hr with rfl | rfl <;> decide +kernel)
  revert this
  decide

/-- What DOES hold for every batch, whatever its other keys, its options and the file system: all
the inputs whose key canonicalises to one path `p` (`realpath(S.join(key)) = p`) — together with an
input spelled `p` itself when that does not resolve — are folded, by the C01 merge and in batch
order, into the ONE map entry `p` of a map with pairwise distinct keys; `rewrite_paths` turns a map
entry into at most one record. (The per-file matcher of harness/c12 checks exactly this on the real
code.) -/
theorem C12_canonicalising_keys_share_one_entry (fs : FS) (s : Bytes) (batch : List (Bytes × Cov))
    (p : Bytes) :
    NodupKeys (addResults (addCanon fs (some s)) [] batch) ∧
    get? (addResults (addCanon fs (some s)) [] batch) p
      = foldInto none ((batch.filter fun kc => addCanon fs (some s) kc.1 = p).map (·.2)) ∧
    (∀ kc ∈ batch, fs.realpath (push s kc.1) = some p → addCanon fs (some s) kc.1 = p) := by
  refine ⟨nodupKeys_addResults _ _ _ (by simp [NodupKeys, keys]), ?_, ?_⟩
  · rw [get?_addResults]; rfl
  · intro kc _ hr; simp [addCanon, hr]

/-! ### two different files under one reported path -/

/-- `/h/src/x.c` and `/h/x.c`; the source dir is `/h/src` -/
def outFS : FS :=
  { files := [[[104], [115, 114, 99], [120, 46, 99]], [[104], [120, 46, 99]]],
    dirs := [[[104]], [[104], [115, 114, 99]]], cwd := [[104]] }

/-- `-s /h/src`, keys `src/../x.c` and `x.c`: `guess_abs_path` finds that the source dir ENDS WITH
the key's ancestor `src`, strips it and resolves `/h/src/../x.c` = `/h/x.c`, a file outside the source
dir; `fixup_rel_path` cannot make that relative to `/h/src` and keeps the key's own normal form `x.c`
— which is also the name of `/h/src/x.c`. Two different files, one reported path. -/
theorem C12_outside_source_dir_witness :
    addThenRewrite { sourceDir := some [47, 104, 47, 115, 114, 99] } outFS
        [([115, 114, 99, 47, 46, 46, 47, 120, 46, 99], { lines := [(1, 1)] }), ([120, 46, 99], { lines := [(1, 2)] })]
      = .ok [⟨[47, 104, 47, 120, 46, 99], [120, 46, 99], { lines := [(1, 1)] }⟩,
             ⟨[47, 104, 47, 115, 114, 99, 47, 120, 46, 99], [120, 46, 99], { lines := [(1, 2)] }⟩] := by
  decide +kernel

/-- Full statement: a reported path names one file — two records with the same reported path have
the same absolute path. -/
def C12_one_path_one_file_stmt : Prop :=
  ∀ (cfg : Cfg) (fs : FS) (batch : List (Bytes × Cov)) (rep : List Rec),
    addThenRewrite cfg fs batch = .ok rep → ∀ r1 ∈ rep, ∀ r2 ∈ rep, r1.rel = r2.rel → r1.abs = r2.abs

theorem C12_one_path_one_file_false : ¬ C12_one_path_one_file_stmt := by
  intro h
  have := h _ _ _ _ C12_outside_source_dir_witness
    ⟨[47, 104, 47, 120, 46, 99], [120, 46, 99], { lines := [(1, 1)] }⟩ (by simp)
    ⟨[47, 104, 47, 115, 114, 99, 47, 120, 46, 99], [120, 46, 99], { lines := [(1, 2)] }⟩ (by simp) rfl
  revert this
  decide

/-- Under the canonical guard (every key canonicalises to a regular file below `S`) a reported path
names one file and one record. -/
theorem C12_one_path_one_file_partial (cfg : Cfg) (fs : FS) (sn : List Bytes)
    (batch : List (Bytes × Cov)) (rep : List Rec)
    (hS : cfg.sourceDir = some (render ⟨true, sn⟩)) (hM : cfg.mapping = none)
    (hP : cfg.prefixDir = none ∨ cfg.prefixDir = some (render ⟨true, sn⟩))
    (hsn : ∀ n ∈ sn, RealName n ∧ 92 ∉ n)
    (hex : ∀ kc ∈ batch, ∃ names, names ≠ [] ∧ (∀ n ∈ names, RealName n ∧ 92 ∉ n) ∧
      fs.realpath (push (render ⟨true, sn⟩) kc.1) = some (render ⟨true, sn ++ names⟩) ∧
      fs.resolve (render ⟨true, sn ++ names⟩) = some (sn ++ names, .file))
    (h : addThenRewrite cfg fs batch = .ok rep) :
    ∀ r1 ∈ rep, ∀ r2 ∈ rep, r1.rel = r2.rel → r1 = r2 :=
  eq_of_nodup_map _ _ (C12_unique_partial_canonical cfg fs sn batch rep hS hM hP hsn hex h)

/-! ### Java / Kotlin keys: the partial-path lookup -/

/-- a map key that is the canonical path of a regular file below the clean source dir `/sn` -/
def CanonKey (fs : FS) (sn : List Bytes) (k : Bytes) : Prop :=
  ∃ names, names ≠ [] ∧ (∀ n ∈ names, RealName n ∧ 92 ∉ n) ∧ k = render ⟨true, sn ++ names⟩ ∧
    fs.resolve (render ⟨true, sn ++ names⟩) = some (sn ++ names, .file)

/-- Every covered file is on disk (the canonical guard): whatever the extensions of the keys, the
lookup is switched off (`needed = false`), nothing is walked, and guard 2 carries over to
`rewrite_paths` WITH the Java/Kotlin step, for every walk order. -/
theorem C12_java_all_on_disk_unique (cfg : Cfg) (fs : FS) (sn : List Bytes) (ord : List (List Bytes))
    (batch : List (Bytes × Cov)) (rep : List Rec)
    (hS : cfg.sourceDir = some (render ⟨true, sn⟩)) (hM : cfg.mapping = none)
    (hP : cfg.prefixDir = none ∨ cfg.prefixDir = some (render ⟨true, sn⟩))
    (hsn : ∀ n ∈ sn, RealName n ∧ 92 ∉ n)
    (hex : ∀ kc ∈ batch, ∃ names, names ≠ [] ∧ (∀ n ∈ names, RealName n ∧ 92 ∉ n) ∧
      fs.realpath (push (render ⟨true, sn⟩) kc.1) = some (render ⟨true, sn ++ names⟩) ∧
      fs.resolve (render ⟨true, sn ++ names⟩) = some (sn ++ names, .file))
    (h : addThenRewriteJ cfg fs ord batch = .ok rep) :
    addThenRewrite cfg fs batch = .ok rep ∧ (rep.map (·.rel)).Nodup := by
  have hnd : needed cfg fs ((addResults (addCanon fs cfg.sourceDir) [] batch).map (·.1)) = false := by
    apply needed_false_of_all_exist
    intro s hs k hk
    rw [hS] at hs; cases hs
    rcases keys_addResults_subset _ _ _ k hk with h0 | ⟨kc, hkc, ek⟩
    · simp [keys] at h0
    · obtain ⟨names, hne, hn, hreal, hres⟩ := hex kc hkc
      have : k = render ⟨true, sn ++ names⟩ := by rw [← ek]; simp [addCanon, hS, hreal]
      rw [this]
      exact exists_canonical_key hP (fun n hn' => (hsn n hn').1) (fun n hn' => (hn n hn').1) hne hres
  have heq : addThenRewriteJ cfg fs ord batch = addThenRewrite cfg fs batch := by
    unfold addThenRewriteJ addThenRewrite
    exact rewritePathsJ_eq_rewritePaths cfg fs ord _ (walkPanics_of_not_needed hnd) fun _ _ => Or.inl hnd
  rw [heq] at h
  exact ⟨h, C12_unique_partial_canonical cfg fs sn batch rep hS hM hP hsn hex h⟩

/-- `/s/app/M.java`, `/s/webapp/M.java` -/
def siblingFS : FS :=
  { files := [[[115], [97, 112, 112], [77, 46, 106, 97, 118, 97]], [[115], [119, 101, 98, 97, 112, 112], [77, 46, 106, 97, 118, 97]]],
    dirs := [[[115]], [[115], [97, 112, 112]], [[115], [119, 101, 98, 97, 112, 112]]], cwd := [[115]] }

/-- the walk yields `webapp` before `app` -/
def siblingOrd : List (List Bytes) :=
  [[[115]], [[115], [119, 101, 98, 97, 112, 112]], [[115], [119, 101, 98, 97, 112, 112], [77, 46, 106, 97, 118, 97]],
   [[115], [97, 112, 112]], [[115], [97, 112, 112], [77, 46, 106, 97, 118, 97]]]

/-- Sibling modules with suffix-related NAMES are fine: `-s /s -p /s`, `app/M.java` (two spellings),
`webapp/M.java`, and a generated `gen/G.java` that is not on disk (so the lookup runs). The path
`app/M.java` has the candidates `webapp/M.java`, `app/M.java`; `webapp/M.java` does not END WITH
`app/M.java` component-wise, so `app/M.java` maps to itself although the walk yields `webapp` first:
three files, three records, the two spellings summed. (Seeded change C12-4 tests the suffix on the
strings: `webapp/M.java` then wins and the report lists it twice.) -/
theorem C12_java_sibling_modules_witness :
    addThenRewriteJ { sourceDir := some [47, 115], prefixDir := some [47, 115] } siblingFS siblingOrd
        [([97, 112, 112, 47, 77, 46, 106, 97, 118, 97], { lines := [(1, 1)] }),
         ([46, 47, 97, 112, 112, 47, 47, 77, 46, 106, 97, 118, 97], { lines := [(1, 2)] }),
         ([119, 101, 98, 97, 112, 112, 47, 77, 46, 106, 97, 118, 97], { lines := [(1, 10)] }),
         ([103, 101, 110, 47, 71, 46, 106, 97, 118, 97], { lines := [(1, 7)] })]
      = .ok [⟨[47, 115, 47, 97, 112, 112, 47, 77, 46, 106, 97, 118, 97], [97, 112, 112, 47, 77, 46, 106, 97, 118, 97], { lines := [(1, 3)] }⟩,
             ⟨[47, 115, 47, 119, 101, 98, 97, 112, 112, 47, 77, 46, 106, 97, 118, 97], [119, 101, 98, 97, 112, 112, 47, 77, 46, 106, 97, 118, 97], { lines := [(1, 10)] }⟩,
             ⟨[47, 115, 47, 103, 101, 110, 47, 71, 46, 106, 97, 118, 97], [103, 101, 110, 47, 71, 46, 106, 97, 118, 97], { lines := [(1, 7)] }⟩] := by
  decide +kernel

/-- `/s/app/M.java`, `/s/q/app/M.java` -/
def nestedFS : FS :=
  { files := [[[115], [97, 112, 112], [77, 46, 106, 97, 118, 97]], [[115], [113], [97, 112, 112], [77, 46, 106, 97, 118, 97]]],
    dirs := [[[115]], [[115], [97, 112, 112]], [[115], [113]], [[115], [113], [97, 112, 112]]], cwd := [[115]] }

/-- the walk yields `q` before `app` -/
def nestedOrd : List (List Bytes) :=
  [[[115]], [[115], [113]], [[115], [113], [97, 112, 112]], [[115], [113], [97, 112, 112], [77, 46, 106, 97, 118, 97]],
   [[115], [97, 112, 112]], [[115], [97, 112, 112], [77, 46, 106, 97, 118, 97]]]

/-- the result map after `add_results`: the canonical keys of the two existing files and the
generated file that is not on disk -/
def nestedMap : List (Bytes × Cov) :=
  [([47, 115, 47, 97, 112, 112, 47, 77, 46, 106, 97, 118, 97], { lines := [(1, 1)] }),
   ([47, 115, 47, 113, 47, 97, 112, 112, 47, 77, 46, 106, 97, 118, 97], { lines := [(1, 2)] }),
   ([103, 101, 110, 47, 71, 46, 106, 97, 118, 97], { lines := [(1, 7)] })]

/-- A nested module: `q/app/M.java` ENDS WITH `app/M.java` and the walk yields it first. Before fix
fdef150 the EXISTING file `app/M.java` — named by a key `add_results` canonicalised — was looked up
like a partial path and reported as `q/app/M.java`, next to that file's own record (former finding
C12-partial-path-remaps-existing-file). Since the fix a path that names a file below the source dir
is kept: three files, three records. -/
theorem C12_java_nested_no_remap_witness :
    addThenRewriteJ { sourceDir := some [47, 115], prefixDir := some [47, 115] } nestedFS nestedOrd
        [([97, 112, 112, 47, 77, 46, 106, 97, 118, 97], { lines := [(1, 1)] }),
         ([113, 47, 97, 112, 112, 47, 77, 46, 106, 97, 118, 97], { lines := [(1, 2)] }),
         ([103, 101, 110, 47, 71, 46, 106, 97, 118, 97], { lines := [(1, 7)] })]
      = .ok [⟨[47, 115, 47, 97, 112, 112, 47, 77, 46, 106, 97, 118, 97], [97, 112, 112, 47, 77, 46, 106, 97, 118, 97], { lines := [(1, 1)] }⟩,
             ⟨[47, 115, 47, 113, 47, 97, 112, 112, 47, 77, 46, 106, 97, 118, 97], [113, 47, 97, 112, 112, 47, 77, 46, 106, 97, 118, 97], { lines := [(1, 2)] }⟩,
             ⟨[47, 115, 47, 103, 101, 110, 47, 71, 46, 106, 97, 118, 97], [103, 101, 110, 47, 71, 46, 106, 97, 118, 97], { lines := [(1, 7)] }⟩] := by
  decide +kernel

/-- Regression about the OLD behaviour: on that map the lookup is needed, and the step without the
"names a file" test (`partialStep`, the code before fdef150) sends `app/M.java` to `q/app/M.java`,
the step of the current code (`partialStepF`) keeps it. -/
theorem C12_java_nested_remap_regression :
    let cfg : Cfg := { sourceDir := some [47, 115], prefixDir := some [47, 115] }
    let ks := nestedMap.map (·.1)
    needed cfg nestedFS ks = true ∧
    partialStep (needed cfg nestedFS ks) (fileToPaths nestedFS nestedOrd cfg ks) [97, 112, 112, 47, 77, 46, 106, 97, 118, 97]
      = [113, 47, 97, 112, 112, 47, 77, 46, 106, 97, 118, 97] ∧
    partialStepF nestedFS cfg.sourceDir (needed cfg nestedFS ks) (fileToPaths nestedFS nestedOrd cfg ks)
      [97, 112, 112, 47, 77, 46, 106, 97, 118, 97] = [97, 112, 112, 47, 77, 46, 106, 97, 118, 97] := by
  decide +kernel

/-- Statement for result maps in which SOME covered file is missing (so the lookup runs): the
records of the map keys that are canonical paths of existing files below `S` (any sub-list `sub` of
the map `m`; the other keys may be anything) have pairwise distinct reported paths. -/
def C12_java_existing_once_stmt : Prop :=
  ∀ (cfg : Cfg) (fs : FS) (sn : List Bytes) (ord : List (List Bytes)) (m sub : List (Bytes × Cov)),
    cfg.sourceDir = some (render ⟨true, sn⟩) → cfg.mapping = none →
    (cfg.prefixDir = none ∨ cfg.prefixDir = some (render ⟨true, sn⟩)) →
    (∀ n ∈ sn, RealName n ∧ 92 ∉ n) → NodupKeys m → sub.Sublist m →
    (∀ kc ∈ sub, CanonKey fs sn kc.1) →
    ((sub.filterMap fun kc => okPart (keyFnJ cfg fs ord m kc)).map (·.rel)).Nodup

/-- It holds at full strength since fix fdef150 (it was false before: the nested-module witness):
such a key names a file below the source dir, the lookup leaves it alone, and it is reported under
its own source-relative path — for every walk order and whatever the other keys are. -/
theorem C12_java_existing_once : C12_java_existing_once_stmt := by
  intro cfg fs sn ord m sub hS hM hP hsn hm hsub hcan
  have hsn1 : ∀ n ∈ sn, RealName n := fun n hn' => (hsn n hn').1
  have hsubnd : NodupKeys sub := by
    unfold NodupKeys keys at *
    exact List.Nodup.sublist (List.Sublist.map _ hsub) hm
  let G : Bytes → Bytes := fun c => (stripPrefix c (render ⟨true, sn⟩)).getD []
  have hG : ∀ names, (∀ n ∈ names, RealName n ∧ 92 ∉ n) →
      G (render ⟨true, sn ++ names⟩) = join names := by
    intro names hn
    simp [G, stripPrefix_render hsn1 (fun n hn' => (hn n hn').1)]
  apply nodup_rel_of_injective _ G sub hsubnd
  · intro kc hkc r hr
    obtain ⟨names, hne, hn, ek, hres⟩ := hcan kc hkc
    rw [ek, hG names hn]
    have hnf : namesFile fs cfg.sourceDir (keyPath cfg kc.1) = true := by
      rw [ek]; exact namesFile_canonical_key hS hM hP hsn hn hne hres
    have hr' : rewriteKey cfg fs kc = .ok (some r) := by
      have : keyFnJ cfg fs ord m kc = rewriteKey cfg fs kc :=
        rewriteKeyJ_eq_of_id (partialStepF_id (Or.inr (Or.inr (Or.inr hnf))))
      rw [this] at hr
      exact (keyRec_eq_some _ _ _ _).1 hr
    have : kc = (render ⟨true, sn ++ names⟩, kc.2) := by rw [← ek]
    rw [this] at hr'
    exact rewriteKey_canonical_key hS hM hP hsn hn hne hres hr'
  · intro k1 h1 k2 h2 e
    obtain ⟨kc1, m1, rfl⟩ := List.mem_map.1 h1
    obtain ⟨kc2, m2, rfl⟩ := List.mem_map.1 h2
    obtain ⟨n1, _, hn1, e1, _⟩ := hcan kc1 m1
    obtain ⟨n2, _, hn2, e2, _⟩ := hcan kc2 m2
    rw [e1, e2, hG n1 hn1, hG n2 hn2] at e
    have := join_injective (fun n h => (hn1 n h).1) (fun n h => (hn2 n h).1) e
    rw [e1, e2, this]

/-- the hypotheses on the nested-module map: its first two keys are canonical keys -/
example : ∀ kc ∈ nestedMap.take 2, CanonKey nestedFS [[115]] kc.1 := by
  intro kc hkc
  simp only [nestedMap, List.take, List.mem_cons, List.not_mem_nil, or_false] at hkc
  rcases hkc with rfl | rfl
  · exact ⟨[[97, 112, 112], [77, 46, 106, 97, 118, 97]], by decide, by decide, by decide, by decide +kernel⟩
  · exact ⟨[[113], [97, 112, 112], [77, 46, 106, 97, 118, 97]], by decide, by decide, by decide, by decide +kernel⟩

/-- on the sibling-module map each existing file's path is mapped to itself, with and without the
"names a file" test (component-wise `ends_with`) -/
example : ∀ kc ∈ [(([47, 115, 47, 97, 112, 112, 47, 77, 46, 106, 97, 118, 97] : Bytes), ({} : Cov)),
      ([47, 115, 47, 119, 101, 98, 97, 112, 112, 47, 77, 46, 106, 97, 118, 97], {})],
    let cfg : Cfg := { sourceDir := some [47, 115], prefixDir := some [47, 115] }
    let ks : List Bytes := [[47, 115, 47, 97, 112, 112, 47, 77, 46, 106, 97, 118, 97],
      [47, 115, 47, 119, 101, 98, 97, 112, 112, 47, 77, 46, 106, 97, 118, 97], [103, 101, 110, 47, 71, 46, 106, 97, 118, 97]]
    needed cfg siblingFS ks = true ∧
    partialStepF siblingFS cfg.sourceDir (needed cfg siblingFS ks) (fileToPaths siblingFS siblingOrd cfg ks) (keyPath cfg kc.1) = keyPath cfg kc.1 ∧
    partialStep (needed cfg siblingFS ks) (fileToPaths siblingFS siblingOrd cfg ks) (keyPath cfg kc.1) = keyPath cfg kc.1 := by
  decide +kernel

/-! ### `add_results` and canonical paths that are not UTF-8 (fix 7f9b2b3) -/

/-- `Rewrite.addCanon` — the key step all other C12 theorems use — is the key step of the code
(`Rewrite.addCanonU`: `Ok(p) if p.to_str().is_some() => p, _ => key`) whenever the canonical path, if
there is one, is well-formed UTF-8. -/
theorem C12_addCanonU_agrees (fs : FS) (src : Option Bytes) (key : Bytes)
    (h : ∀ s p, src = some s → fs.realpath (push s key) = some p → isUtf8 p = true) :
    addCanonU fs src key = addCanon fs src key :=
  addCanonU_eq_addCanon fs src key h

/-- `/s/ok/b.c`, `/s/<0xFF>/a.c`, and the link `/s/lnk -> <0xFF>` -/
def utf8FS : FS :=
  { files := [[[115], [111, 107], [98, 46, 99]], [[115], [255], [97, 46, 99]]],
    dirs := [[[115]], [[115], [111, 107]], [[115], [255]]], cwd := [[115]],
    links := [([[115], [108, 110, 107]], [255])] }

/-- Otherwise the name stays as given and such spellings are NOT merged: `lnk/a.c` and `lnk/./a.c`
both canonicalise to `/s/<0xFF>/a.c`, which is no `String`; they stay two entries, while the two
spellings of `ok/b.c` are folded into the entry `/s/ok/b.c`. (Before the fix `add_results` panicked
here; harness/c12 `utf8_witness` runs this on the real code.) -/
theorem C12_non_utf8_canonical_not_merged :
    addResultsU utf8FS (some [47, 115])
        [([108, 110, 107, 47, 97, 46, 99], { lines := [(1, 1)] }), ([108, 110, 107, 47, 46, 47, 97, 46, 99], { lines := [(1, 2)] }),
         ([111, 107, 47, 98, 46, 99], { lines := [(1, 3)] }), ([111, 107, 47, 46, 47, 98, 46, 99], { lines := [(1, 4)] })]
      = [([108, 110, 107, 47, 97, 46, 99], { lines := [(1, 1)] }), ([108, 110, 107, 47, 46, 47, 97, 46, 99], { lines := [(1, 2)] }),
         ([47, 115, 47, 111, 107, 47, 98, 46, 99], { lines := [(1, 7)] })] := by
  decide +kernel

/-! ### the HTML writer's view (it keys by the reported path; covdir keys by `Rec.treePath`) -/

/-- Under uniqueness of the relative reported paths the HTML totals count every file once: what the
directories selected by `inDir` add up (one summand per record with a relative reported path)
equals the sum over the rows listed below them. -/
theorem C12_html_totals_count_once (rep : List Rec) (inDir : Bytes → Bool)
    (h : ((htmlRecs rep).map (·.rel)).Nodup) : dirTotalH inDir rep = listedTotalH inDir rep := by
  unfold listedTotalH dirTotalH
  rw [shownH_of_nodup _ h, htmlRecs_idem]

/-- Without it they do not: on the five-spellings report the global HTML total is 5 lines for the
single listed row with 1 line. -/
theorem C12_html_totals_false :
    ∃ rep, rewritePaths {} { files := [], dirs := [], cwd := [] } fiveSpellings = .ok rep ∧
      dirTotalH (fun _ => true) rep = 5 ∧ listedTotalH (fun _ => true) rep = 1 :=
  ⟨_, C12_duplicate_witness, by decide, by decide⟩

/-- The same, instantiated with the HTML writer's model (`Stats.htmlGlobal`, tied to `output_html`
by C13): whatever way the records with a relative reported path are turned into the writer's input
(any `FileIn` list whose SHOWN members carry those records' data in order), the global line total —
what the badge and coverage.json are computed from — is the sum over all such records; so it counts
every file once exactly when no reported path repeats. A record with an ABSOLUTE reported path is
not in the HTML report at all (`gen_html` returns early), where covdir files it under its canonical
path (`Rec.treePath`). -/
theorem C12_html_global_counts_every_record (rep : List Rec) (rs : List Stats.FileIn)
    (hcov : (rs.filter (·.shown)).map (·.cov) = (htmlRecs rep).map (·.cov)) :
    (Stats.htmlGlobal rs).stats.totalLines = dirTotalH (fun _ => true) rep ∧
      (((htmlRecs rep).map (·.rel)).Nodup →
        (Stats.htmlGlobal rs).stats.totalLines = listedTotalH (fun _ => true) rep) := by
  have hroot : (Stats.htmlGlobal rs).stats.totalLines = dirTotalH (fun _ => true) rep := by
    rw [Stats.htmlGlobal_stats_eq, Stats.sumH_totalLines, List.map_map]
    have : ((fun s : Stats.HStats => s.totalLines) ∘ fun r : Stats.FileIn => Stats.htmlStats r.cov)
        = (fun c : Cov => c.lines.length) ∘ (·.cov) := rfl
    rw [this, ← List.map_map, hcov, List.map_map]
    unfold dirTotalH
    rw [List.filter_eq_self.2 (by simp)]
    rfl
  exact ⟨hroot, fun hnd => by rw [hroot]; exact C12_html_totals_count_once rep _ hnd⟩

/-- an absolute reported path: covdir files the record (under its canonical path), html does not -/
example :
    let rep : List Rec := [⟨[47, 115, 47, 97, 46, 99], [47, 115, 47, 97, 46, 99], { lines := [(1, 1)] }⟩,
                           ⟨[47, 115, 47, 98, 46, 99], [98, 46, 99], { lines := [(1, 0), (2, 5)] }⟩]
    dirTotal (fun _ => true) rep = 3 ∧ dirTotalH (fun _ => true) rep = 2 ∧
      listedTotalH (fun _ => true) rep = 2 := by decide

/-! ### a `..` behind a symbolic link: the reported path is lexical, the absolute path physical -/

/-- `/c/bar.c`, `/s/bar.c`, the directory `/s/d`, the link `/c/lnk -> /s/d`; cwd `/c` -/
def dotdotFS : FS :=
  { files := [[[99], [98, 97, 114, 46, 99]], [[115], [98, 97, 114, 46, 99]]],
    dirs := [[[99]], [[115]], [[115], [100]]], cwd := [[99]],
    links := [([[99], [108, 110, 107]], [47, 115, 47, 100])] }

/-- No source dir, keys `bar.c` and `lnk/../bar.c`. `canonicalize` walks the second physically:
`lnk` is `/s/d`, its parent is `/s`, the file is `/s/bar.c`. The reported path is the key's LEXICAL
normal form (`normalize_path` drops `lnk/..`): `bar.c` — the name of `/c/bar.c`, a different file,
which the first key reports under the same path. -/
theorem C12_dotdot_behind_link_witness :
    addThenRewrite {} dotdotFS
        [([98, 97, 114, 46, 99], { lines := [(1, 1)] }),
         ([108, 110, 107, 47, 46, 46, 47, 98, 97, 114, 46, 99], { lines := [(1, 2)] })]
      = .ok [⟨[47, 99, 47, 98, 97, 114, 46, 99], [98, 97, 114, 46, 99], { lines := [(1, 1)] }⟩,
             ⟨[47, 115, 47, 98, 97, 114, 46, 99], [98, 97, 114, 46, 99], { lines := [(1, 2)] }⟩] := by
  decide +kernel

/-- Full statement (no source dir, prefix or mapping): the reported path of a record, read from the
current directory, denotes the record's file. -/
def C12_reported_path_names_the_file_stmt : Prop :=
  ∀ (cfg : Cfg) (fs : FS) (kc : Bytes × Cov) (r : Rec),
    cfg.sourceDir = none → cfg.prefixDir = none → cfg.mapping = none →
    rewriteKey cfg fs kc = .ok (some r) → ∀ p, fs.realpath r.abs = some p → fs.realpath r.rel = some p

/-- FALSE: the record of `lnk/../bar.c` is (`/s/bar.c`, `bar.c`), and `bar.c` is `/c/bar.c`
(finding C12-dotdot-behind-link-resolved-lexically). -/
theorem C12_reported_path_names_the_file_false : ¬ C12_reported_path_names_the_file_stmt := by
  intro h
  have := h {} dotdotFS ([108, 110, 107, 47, 46, 46, 47, 98, 97, 114, 46, 99], { lines := [(1, 2)] })
    ⟨[47, 115, 47, 98, 97, 114, 46, 99], [98, 97, 114, 46, 99], { lines := [(1, 2)] }⟩ rfl rfl rfl
    (by decide +kernel) [47, 115, 47, 98, 97, 114, 46, 99] (by decide +kernel)
  revert this
  decide +kernel

/-- It holds for a key without `..` (the guard the witness violates; here: an absolute path in
normal form, no backslash): the record is (`realpath key`, `key`) — the absolute path IS the
physical file of the reported path, through whatever links. -/
theorem C12_reported_path_names_the_file_partial (cfg : Cfg) (fs : FS) (names : List Bytes) (cov : Cov)
    (r : Rec) (p : Bytes) (hS : cfg.sourceDir = none) (hP : cfg.prefixDir = none)
    (hM : cfg.mapping = none) (hn : ∀ n ∈ names, RealName n ∧ 92 ∉ n)
    (h : rewriteKey cfg fs (render ⟨true, names⟩, cov) = .ok (some r))
    (hp : fs.realpath (render ⟨true, names⟩) = some p) :
    r.rel = render ⟨true, names⟩ ∧ r.abs = p := by
  have hreal : ∀ n ∈ (⟨true, names⟩ : NPath).names, RealName n := fun n h' => (hn n h').1
  have hbs : ∀ n ∈ (⟨true, names⟩ : NPath).names, 92 ∉ n := fun n h' => (hn n h').2
  refine ⟨rewriteKey_rel_of_normal_key hS hP hM hreal hbs h, ?_⟩
  obtain ⟨a, rl, hres, hsel⟩ := (rewriteKey_some_iff _ _ _ _).1 h
  obtain ⟨_, _, _, _, er⟩ := (selectRec_some_iff _ _ _ _ _ _).1 hsel
  obtain ⟨r0, hg, _⟩ := resolveKey_some hres
  have hb : bsl (render ⟨true, names⟩) = render ⟨true, names⟩ := bsl_id (noBackslash_render hbs)
  simp only [keyPath_plain hP hM, hb, hS] at hg
  obtain ⟨ac, hac, hna, _⟩ := (getAbsPath_some_iff _ _ _ _ _).1 hg
  have hac' : ac = p := by
    simp [absCanon, absGuess, isRelative, hasRoot_render_true, canonOrNorm, hp] at hac
    exact hac.symm
  subst hac'
  obtain ⟨ns, hns, e⟩ := realpath_clean_of_abs (hasRoot_render_true names) hp
  rw [e, normalizePath_render (np := ⟨true, ns⟩) hns] at hna
  rw [er]; simp only; rw [e]; exact (Option.some.inj hna).symm

/-- the guard on the witness tree: the clean key `/c/lnk/bar.c`… does not exist, `/c/bar.c` does and
is reported as itself -/
example : rewriteKey {} dotdotFS ([47, 99, 47, 98, 97, 114, 46, 99], {})
    = .ok (some ⟨[47, 99, 47, 98, 97, 114, 46, 99], [47, 99, 47, 98, 97, 114, 46, 99], {}⟩) := by decide +kernel

end Grcov.Props.C12
