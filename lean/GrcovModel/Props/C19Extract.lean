/-
C19, part `Extract` — the extraction half of a run (fix 232bfd3: the producer extracts / links
into `tmp/inputs`, consumers keep `tmp/<i>`; review items 1, 18, 33).

* `C19_extractions_apart_from_workers`: for EVERY input name, archive number and worker index the
  destination of an extraction and a worker directory lie apart (neither at nor below the other).
  False of the layout before the fix (`C19_old_layout_extraction_inside_worker_dir`: the entry
  `0/a.gcno` was extracted to `tmp/0/a_1.gcno`, inside the working directory of consumer 0, which
  reads and deletes whatever it finds there — kept as a regression example).
* `C19_extract_dest_injective`, `C19_no_write_through_link`: resolved extraction destinations
  determine (stem, number, extension); so when every (stem, number, extension) belongs to one
  archive kind (`OwnerOK`, proved for the extractions derived from the Producer model in
  `C19_extracts_ok`) no path that the run opens for writing (zip extraction `File::create`, the tools'
  outputs, the report, the log) resolves to a name that is a link into a directory input.
* `C19_tmp_removed_last`, `C19_nothing_of_tmp_survives`: the last destination of a normal run is the
  removal of the temp dir's tree, and after it no path at or below the temp dir is left of what the
  run made (the `process::exit(1)` paths do not reach it: the harness counts what they leave).
* `C19_extracts_ok`: for a layout whose directory files have canonical relative names (what
  `WalkDir` + `strip_prefix` yield) the extractions DERIVED from the Producer model
  (`extractsOf`, zips by their raw entries) satisfy `RunOK.extracts` and `OwnerOK` — so
  `C19_all_dests_confined`, `C19_inputs_untouched` and the theorems above hold for
  `runInputOf ri o rargs` with no assumption about the extractions.
* `C19_numbered_dest_is_renameLast`: the component-level destination of Props/C19.lean
  (`renameLast`, `zipEntryDest`) is the string-level one the code builds (`extractDest`, tied by
  harness/c19 `extract.rs`) whenever the stem's last name is a real name; `...gcno` (stem `..`) is the
  exception, and its real destination `.._1.gcno` is confined all the same.
-/
import GrcovModel.Props.C19Dest
import GrcovModel.Lemmas.ConfineDerive
namespace Grcov.Props.C19
open Grcov Grcov.Confine
open Grcov.UPath (Bytes RealName)

/-- Extraction destinations and worker directories are apart, for every input name: no extracted
file, link or hard link (and no parent directory created for one) is at or below `tmp/<i>`, and no
worker directory is at or below an extraction destination. -/
theorem C19_extractions_apart_from_workers (ri : RunInput) (ok : RunOK ri) :
    ∀ e ∈ ri.extracts, ∀ k i : Nat,
      ¬ resolve (workerDir ri.tmp i) <+: resolve (extractDest ri.tmp e.stem k e.ext) ∧
      ¬ resolve (extractDest ri.tmp e.stem k e.ext) <+: resolve (workerDir ri.tmp i) := by
  intro e he k i
  obtain ⟨⟨pre, last, e1, hp, _, hl⟩, h47, _⟩ := ok.extracts e he
  rw [resolve_extractDest ri.tmp k h47 e1 hp hl, resolve_workerDir]
  constructor
  · intro h
    have h2 := (List.prefix_append_right_inj _).1 h
    obtain ⟨t, ht⟩ := h2
    simp only [List.cons_append, List.nil_append, List.cons.injEq] at ht
    exact dec_ne_inputs i ht.1
  · intro h
    have h2 := (List.prefix_append_right_inj _).1 h
    obtain ⟨t, ht⟩ := h2
    have hlen := congrArg List.length ht
    simp at hlen

/-- Regression example against the layout before fix 232bfd3 (`tmp_dir = tmp`): the entry
`0/a.gcno` of an input went to `tmp/0/a_1.gcno`, which lies inside the working directory of
consumer 0. -/
theorem C19_old_layout_extraction_inside_worker_dir :
    let tmp : Path := [.root, .normal [116]]
    resolve (workerDir tmp 0) <+: resolve (join tmp (toPath (numbered 1 [103, 99, 110, 111] [48, 47, 97]))) := by
  decide

/-- the same entry under the new layout -/
example : let tmp : Path := [.root, .normal [116]]
    resolve (extractDest tmp [48, 47, 97] 1 [103, 99, 110, 111])
      = [[116], [105, 110, 112, 117, 116, 115], [48], [97, 95, 49, 46, 103, 99, 110, 111]] := by decide

/-- Resolved extraction destinations determine the stem string, the archive number and the
extension (for well-formed stems and dot-free extensions): two different (stem, number, extension)
never share a file below `tmp/inputs`. -/
theorem C19_extract_dest_injective (tmp : Path) (stem stem' : Bytes) (n n' : Nat) (ext ext' : Bytes)
    (hs : StemOK stem) (hs' : StemOK stem') (he : 47 ∉ ext ∧ 46 ∉ ext) (he' : 47 ∉ ext' ∧ 46 ∉ ext')
    (h : resolve (extractDest tmp stem n ext) = resolve (extractDest tmp stem' n' ext')) :
    stem = stem' ∧ n = n' ∧ ext = ext' :=
  extractDest_inj tmp hs hs' he he' h

/-- every (stem, number, extension) under which something is extracted belongs to archives of one
kind: a zip's `File::create` and a directory's link never get the same name -/
def OwnerOK (ri : RunInput) : Prop :=
  ∀ e ∈ ri.extracts, ∀ e' ∈ ri.extracts, ∀ k ∈ e.n :: e.hardlinks, ∀ k' ∈ e'.n :: e'.hardlinks,
    e.stem = e'.stem → k = k' → e.ext = e'.ext → e.fromZip = e'.fromZip

/-- No write goes through a link. No path that the run opens for writing — a zip entry's
`File::create` below `tmp/inputs`, gcov's working directory, the merged profile, the report files,
the log — resolves to a name that is (or may be) a link into a directory input. The output and log
locations are required to lie apart from the temp dir (its name is chosen by `tempfile`, the user
cannot name it). -/
theorem C19_no_write_through_link (ri : RunInput) (ok : RunOK ri) (own : OwnerOK ri)
    (hroots : ∀ r : Root, r ≠ .tmp → Apart (rootPath ri r) ri.tmp) :
    ∀ p ∈ writeDests ri, ∀ q ∈ linkDests ri, resolve p ≠ resolve q := by
  intro p hp q hq heq
  -- the link: an extraction destination of a directory input
  obtain ⟨e', he', hzq, k', hk', rfl⟩ := (C19_link_dests ri q).1 hq
  obtain ⟨⟨pre', last', e1', hp', _, hl'⟩, h47', h46'⟩ := ok.extracts e' he'
  have hres' := resolve_extractDest ri.tmp k' h47' e1' hp' hl'
  -- the write
  unfold writeDests at hp
  obtain ⟨d, hd, rfl⟩ := List.mem_map.1 hp
  obtain ⟨hd, hw⟩ := List.mem_filter.1 hd
  have hunder := C19_all_dests_confined ri ok d hd
  by_cases hr : d.root = .tmp
  · -- a write below tmp: a zip extraction or a tool's output in a worker directory
    unfold dests destsCore at hd
    simp only [List.mem_append, List.mem_map, List.mem_flatMap, List.mem_range, List.mem_cons,
      List.not_mem_nil, or_false] at hd
    rcases hd with (((((((hd | hd) | hd) | hd) | hd) | hd) | hd) | hd) | hd
    · cases hl : ri.log with
      | none => simp [hl] at hd
      | some l => simp [hl] at hd; subst hd; simp at hr
    · rcases hd with rfl | rfl <;> simp [isWrite] at hw
    · obtain ⟨i, _, rfl⟩ := hd; simp [isWrite] at hw
    · obtain ⟨e, he, hd⟩ := hd
      unfold extractDests at hd
      simp only [List.mem_append, List.mem_cons, List.not_mem_nil, or_false, List.mem_map] at hd
      rcases hd with (rfl | rfl) | ⟨k, _, rfl⟩
      · simp [isWrite] at hw
      · have hz : e.fromZip = true := by
          cases hz : e.fromZip
          · simp [hz, isWrite] at hw
          · rfl
        obtain ⟨hs, h47, h46⟩ := ok.extracts e he
        obtain ⟨h1, h2, h3⟩ := extractDest_inj ri.tmp hs (ok.extracts e' he').1 ⟨h47, h46⟩ ⟨h47', h46'⟩ heq
        have := own e he e' he' e.n (by simp) k' hk' h1 h2 h3
        rw [hz, hzq] at this; cases this
      · cases hz : e.fromZip <;> simp [hz, isWrite] at hw
    · obtain ⟨j, _, hd⟩ := hd
      -- gcov writes into tmp/<i>
      have : ∃ rest, resolve d.path = resolve ri.tmp ++ dec j.1 :: rest := by
        unfold gcovDests at hd
        cases hg : gcovOutPath (workerDir ri.tmp j.1) j.2.1 j.2.2 with
        | none =>
          simp [hg] at hd; subst hd
          exact ⟨[], by simp [resolve_workerDir]⟩
        | some p =>
          simp only [hg, List.mem_cons, List.not_mem_nil, or_false] at hd
          rcases hd with rfl | rfl
          · exact ⟨[], by simp [resolve_workerDir]⟩
          · simp [isWrite] at hw
      obtain ⟨rest, hrest⟩ := this
      rw [hrest, hres'] at heq
      have := List.append_cancel_left heq
      simp only [List.cons.injEq] at this
      exact dec_ne_inputs _ this.1
    · obtain ⟨w, _, rfl⟩ := hd; simp [isWrite] at hw
    · obtain ⟨i, _, hd⟩ := hd
      rcases hd with rfl | rfl
      · have : resolve (profdataPath (workerDir ri.tmp i))
            = resolve ri.tmp ++ [dec i, bGrcovProfdata] := by
          simp only [profdataPath, workerDir_eq]
          rw [join_of_enclosed _ (enc1 _)]
          have : ri.tmp ++ [Comp.normal (dec i)] ++ [Comp.normal bGrcovProfdata]
              = ri.tmp ++ [dec i, bGrcovProfdata].map Comp.normal := by simp
          rw [this, resolve_append_normals]
        rw [this, hres'] at heq
        have := List.append_cancel_left heq
        simp only [List.cons.injEq] at this
        exact dec_ne_inputs _ this.1
      · simp [isWrite] at hw
    · -- the report is attributed to `out`
      exfalso
      unfold outDests at hd
      split at hd
      · simp at hd
      · simp at hd; subst hd; simp at hr
      · simp only [List.mem_append, List.mem_flatMap] at hd
        rcases hd with hd | ⟨r, _, hd⟩
        · unfold htmlFixedDests at hd
          simp only [List.mem_append, List.mem_cons, List.not_mem_nil, or_false, List.mem_map] at hd
          rcases hd with (((rfl | rfl | rfl) | ⟨b, _, rfl⟩) | rfl) | hd
          all_goals try (simp at hr)
          split at hd <;> simp at hd
          subst hd; simp at hr
        · unfold htmlEntryDests at hd
          split at hd
          · split at hd
            · simp at hd
              rcases hd with rfl | rfl | rfl | rfl <;> simp at hr
            · simp at hd
          · simp at hd
    · subst hd; simp [isWrite] at hw
  · -- a write at the output / log location, which lies apart from the temp dir
    obtain ⟨rest, hrest⟩ := hunder
    obtain ⟨h1, h2⟩ := hroots d.root hr
    rw [hrest, hres'] at heq
    have hpre : resolve (rootPath ri d.root) <+: resolve ri.tmp ++ (bInputs :: (pre' ++ [last' ++ 95 :: dec k' ++ 46 :: e'.ext])) :=
      ⟨rest, heq⟩
    rcases List.prefix_or_prefix_of_prefix hpre (List.prefix_append _ _) with h | h
    · exact h1 h
    · exact h2 h

/-! ### the temp dir is removed -/

/-- The last thing a normal run does to the file system is to remove the tree of its temp dir. -/
theorem C19_tmp_removed_last (ri : RunInput) :
    (dests ri).getLast? = some ⟨.removeTree, .tmp, ri.tmp⟩ := by
  unfold dests; simp

/-- Nothing of the temp dir survives a normal run: after the destinations of the run were carried
out in order, no path that the run made (directory, extracted file, link, tool output) resolves at
or below the temp dir — whatever was extracted, linked or written there. -/
theorem C19_nothing_of_tmp_survives (ri : RunInput) :
    ∀ p ∈ alive (dests ri), ¬ resolve ri.tmp <+: p := by
  intro p hp
  unfold alive dests at hp
  rw [List.foldl_append] at hp
  simp only [List.foldl_cons, List.foldl_nil, aliveStep] at hp
  obtain ⟨_, h⟩ := List.mem_filter.1 hp
  intro hpre
  have : (resolve ri.tmp).isPrefixOf p = true := List.isPrefixOf_iff_prefix.2 hpre
  simp [this] at h

/-- the run of `exRun` leaves the report files and the log, nothing below `/t/.tmpX` -/
example : (alive (dests exRun)).all (fun p => !([[116], [46, 116, 109, 112, 88]] : List (List Nat)).isPrefixOf p) = true := by
  decide

/-! ### string level = component level -/

/-- The destination the code builds from the stem STRING is the component-level destination of
`C19_enclosed_stays_in_tmp` — the stem's components with only the last name changed — whenever the
stem is a list of real names (i.e. except for file names like `...gcno`, whose stem is `..`). -/
theorem C19_numbered_dest_is_renameLast (tmp : Path) (names : List Bytes) (n : Nat) (ext : Bytes)
    (hne : names ≠ []) (hreal : ∀ s ∈ names, RealName s) (he : 47 ∉ ext) :
    extractDest tmp (UPath.join names) n ext
      = zipEntryDest (extractDir tmp) (toPath (UPath.join names)) (numbered n ext) := by
  obtain ⟨pre, last, rfl⟩ : ∃ pre last, names = pre ++ [last] :=
    ⟨names.dropLast, names.getLast hne, (List.dropLast_concat_getLast hne).symm⟩
  have hp : ∀ s ∈ pre, RealName s := fun s hs => hreal s (by simp [hs])
  have hl : RealName last := hreal last (by simp)
  unfold extractDest zipEntryDest
  rw [toPath_numbered n he rfl hp hl.2.1, toPath_join_real _ hreal]
  congr 1
  simp only [List.map_append, List.map_cons, List.map_nil]
  rw [renameLast_snoc]
  simp [numbered]

/-- the exception: `...gcno` has the stem `..`; the code writes `.._1.gcno` (confined), the
component-level view would rename nothing and climb -/
example : toPath (numbered 1 [103, 99, 110, 111] [46, 46]) = [.normal [46, 46, 95, 49, 46, 103, 99, 110, 111]] ∧
    renameLast (numbered 1 [103, 99, 110, 111]) (toPath [46, 46]) = [.parent] := by decide

/-! ### the extractions derived from the Producer model -/

/-- For every layout whose directory files have canonical relative names (zips are given by their
RAW entries: what `explore` accepts of them is canonical by construction), with every option
combination: the extractions the producer issues satisfy the hypotheses of the confinement
theorems — well-formed stems, the four extensions — and every (stem, number, extension) belongs to
one archive kind. -/
theorem C19_extracts_ok (ri : RunInput) (o : Producer.Opts) (rargs : List Producer.RArg)
    (hl : LayoutOK rargs) :
    (∀ e ∈ (runInputOf ri o rargs).extracts, StemOK e.stem ∧ 47 ∉ e.ext ∧ 46 ∉ e.ext) ∧
    OwnerOK (runInputOf ri o rargs) :=
  ⟨extractsOf_ok o rargs hl, extractsOf_owner o rargs hl⟩

/-- Accepted entry names (fix 2f541c3: a leading `./`, repeated separators and `.` segments are
accepted and spelled canonically; `..`, a root and NUL are rejected): for every raw name that
`explore` accepts and every extension it may carry, the extraction destination resolves below
`tmp/inputs` — in particular below the temp dir and apart from every worker directory. -/
theorem C19_accepted_zip_names_stay_in_inputs (tmp : Path) (raw c s e : Producer.Name) (k : Nat)
    (ext : Bytes) (hc : Producer.canonName raw = some c) (hs : Producer.splitExt c = some (s, e))
    (he : 47 ∉ ext) :
    ∃ rest, resolve (extractDest tmp s k ext) = resolve tmp ++ bInputs :: rest := by
  obtain ⟨names, h1, h2, _⟩ := Producer.canonName_spec hc
  obtain ⟨⟨pre, last, e1, hp, _, hl⟩, _⟩ := stemOK_of_splitExt ⟨names, h1, h2⟩ hs
  exact ⟨_, resolve_extractDest tmp k he e1 hp hl⟩

/-- `./a//b/./x.gcno` is accepted, listed as `a/b/x.gcno` and extracted to `tmp/inputs/a/b/x_1.gcno` -/
example : Producer.canonName [46, 47, 97, 47, 47, 98, 47, 46, 47, 120, 46, 103, 99, 110, 111]
      = some [97, 47, 98, 47, 120, 46, 103, 99, 110, 111] ∧
    resolve (extractDest [.root, .normal [116]] [97, 47, 98, 47, 120] 1 [103, 99, 110, 111])
      = [[116], [105, 110, 112, 117, 116, 115], [97], [98], [120, 95, 49, 46, 103, 99, 110, 111]] := by
  decide

/-- non-vacuity of `C19_extracts_ok`: a directory with `s/g.gcno`, `s/g.gcda`, `p.profraw` and a raw
zip with `./s//g.gcda`, `p.profraw`, a hostile `../x.profraw` and a directory entry: the producer
links the directory's files and extracts the zip's under the next numbers -/
def exLayout : List Producer.RArg :=
  [.dir 0 [⟨[115, 47, 103, 46, 103, 99, 110, 111], [111, 110, 99, 103, 42, 50, 50, 66], 1⟩,
           ⟨[115, 47, 103, 46, 103, 99, 100, 97], [], 2⟩,
           ⟨[112, 46, 112, 114, 111, 102, 114, 97, 119], [], 3⟩],
   .zip 1 [⟨[46, 47, 115, 47, 47, 103, 46, 103, 99, 100, 97], [], 4⟩,
           ⟨[112, 46, 112, 114, 111, 102, 114, 97, 119], [], 5⟩,
           ⟨[46, 46, 47, 120, 46, 112, 114, 111, 102, 114, 97, 119], [], 6⟩,
           ⟨[100, 47], [], 7⟩]]

example : LayoutOK exLayout := by
  intro r hr l fs e f hf
  simp only [exLayout, List.mem_cons, List.not_mem_nil, or_false] at hr
  rcases hr with rfl | rfl
  · injection e with e1 e2; subst e2
    simp only [List.mem_cons, List.not_mem_nil, or_false] at hf
    rcases hf with rfl | rfl | rfl
    · exact ⟨[[115], [103, 46, 103, 99, 110, 111]], by decide, by decide⟩
    · exact ⟨[[115], [103, 46, 103, 99, 100, 97]], by decide, by decide⟩
    · exact ⟨[[112, 46, 112, 114, 111, 102, 114, 97, 119]], by decide, by decide⟩
  · cases e

example : extractsOf ⟨false, false⟩ exLayout =
    [⟨false, [112], 1, Producer.bProfraw, []⟩, ⟨true, [112], 2, Producer.bProfraw, []⟩,
     ⟨false, [115, 47, 103], 1, Producer.bGcno, [2]⟩,
     ⟨false, [115, 47, 103], 1, Producer.bGcda, []⟩, ⟨true, [115, 47, 103], 2, Producer.bGcda, []⟩] := by
  decide

/-- … hence: every destination of a run of that layout is confined, whatever the raw names. -/
theorem C19_layout_dests_confined (ri : RunInput) (o : Producer.Opts) (rargs : List Producer.RArg)
    (hl : LayoutOK rargs) (hg : ∀ j ∈ ri.gcovJobs, 47 ∉ j.2.2)
    (hr : ∀ r ∈ ri.report, UPath.isRelative r.1 = true → SafeRel r.1) :
    ∀ d ∈ dests (runInputOf ri o rargs), Under (rootPath (runInputOf ri o rargs) d.root) d.path :=
  C19_all_dests_confined _ ⟨(C19_extracts_ok ri o rargs hl).1, hg, hr⟩

end Grcov.Props.C19
