/-
C11, part `Symlink` — symbolic links inside the model.
`Rewrite.FS` carries the link table, and `walk` / `resolve` / `realpath` / `exists` / `isFile` follow
links the way the kernel does (relative targets from the link's directory, ".." = physical parent
of the target, ELOOP after 40 links); `isLink` is `lstat`. All definitions of the pipeline are
unchanged, so EVERY theorem of Props/C11.lean, C11Partial.lean, C12.lean, C05Rewrite.lean is a
theorem about file systems WITH links (their only file-system lemmas, `walk_real` and
`realpath_clean…`, are re-proved for the link-following walk). This file adds: the link-free walk
is recovered on a tree without links; step fuel is irrelevant; what "lies under the source dir"
means with links, with a closed witness for every link situation (replayed by harness/c11 on
generated symlinked trees with the real link table handed to the model).
-/
import GrcovModel.Lemmas.RewriteSymlink
namespace Grcov.Props.C11
open Grcov Grcov.UPath Grcov.Glob Grcov.Rewrite

/-- On a tree without symbolic links `stat` is the link-free `stat` of the model as it was before
links were put inside (`resolve0`, kept verbatim). -/
theorem C11_symlink_noLinks_same (fs : FS) (h : fs.noLinks) (p : Bytes) : fs.resolve p = fs.resolve0 p :=
  resolve_noLinks fs h p

/-- The walk gives up only for ENOENT, ENOTDIR or ELOOP (40 links followed, loop or not — what
Linux does): the structural step fuel `resolve` passes is never the reason, any larger amount gives
the same answer. -/
theorem C11_symlink_fuel_irrelevant (fs : FS) (segs : List Bytes) (cur : List Bytes) (k : Kind)
    (m : Nat) (hm : fs.fuel segs ≤ m) :
    walk fs m maxLinks cur k segs = walk fs (fs.fuel segs) maxLinks cur k segs :=
  resolve_fuel_irrelevant fs segs cur k m hm

/-- The normal form holds on every file system, links or not: the reported relative path is a
stack of real names without backslash and the reported absolute path is a stack of real names
(`canonicalize` returns real names, `normalize_path` produces them). -/
theorem C11_symlink_normal_form (cfg : Cfg) (fs : FS) (kc : Bytes × Cov) (r : Rec)
    (h : rewriteKey cfg fs kc = .ok (some r)) :
    (∃ np : NPath, r.rel = render np ∧ ∀ n ∈ np.names, RealName n) ∧ 92 ∉ r.rel ∧
    (∃ np : NPath, r.abs = render np ∧ ∀ n ∈ np.names, RealName n) := by
  obtain ⟨a, rl, h1, hsel⟩ := (rewriteKey_some_iff _ _ _ _).1 h
  obtain ⟨_, _, _, _, e⟩ := (selectRec_some_iff _ _ _ _ _ _).1 hsel
  obtain ⟨r0, hg, hf⟩ := resolveKey_some h1
  obtain ⟨ac, _, hna, _⟩ := (getAbsPath_some_iff _ _ _ _ _).1 hg
  obtain ⟨npa, enpa, hreala, _⟩ := normalizePath_shape hna
  rw [e]
  exact ⟨(finalRel_shape hf).1, (finalRel_shape hf).2, ⟨npa, enpa, hreala⟩⟩

/-! ### "relative to the source directory whenever the file lies under it", with links -/

/-- The PHYSICAL reading, full statement: clean canonical source dir `S`; whenever the physical
location of the reported file (`realpath` of the reported absolute path) lies below `S`, the
reported relative path is that location with `S` stripped. FALSE
(finding C11-link-behind-missing-dir-not-canonical). -/
def C11_symlink_physical_stmt : Prop :=
  ∀ (cfg : Cfg) (fs : FS) (key : Bytes) (sn : List Bytes) (abs rel c : Bytes),
    (∀ n ∈ sn, RealName n) → cfg.sourceDir = some (render ⟨true, sn⟩) →
    fs.realpath (render ⟨true, sn⟩) = some (render ⟨true, sn⟩) →
    resolveKey cfg fs key = .ok (some (abs, rel)) → fs.realpath abs = some c →
    startsWith c (render ⟨true, sn⟩) = true → stripPrefix c (render ⟨true, sn⟩) = some rel

/-- `/s` (source dir) holds `lib/u.c`, `u.c`, `lib/sub/`, and the links `out -> /o`, `inc -> lib`,
`l.c -> u.c`, `dang -> nowhere/x.c`, `loop -> loop`, `deep -> lib/sub`, `c1 -> c2 -> lib/u.c`;
`/o` holds `a.c` and the link `in -> /s/lib`; `/l -> /s` -/
def symFS : FS :=
  { files := [[[111], [97, 46, 99]], [[115], [108, 105, 98], [117, 46, 99]], [[115], [117, 46, 99]]],
    dirs := [[[115]], [[111]], [[115], [108, 105, 98]], [[115], [108, 105, 98], [115, 117, 98]]],
    cwd := [[115]],
    links := [([[115], [111, 117, 116]], [47, 111]), ([[111], [105, 110]], [47, 115, 47, 108, 105, 98]),
      ([[115], [105, 110, 99]], [108, 105, 98]), ([[108]], [47, 115]), ([[115], [108, 46, 99]], [117, 46, 99]),
      ([[115], [100, 97, 110, 103]], [110, 111, 119, 104, 101, 114, 101, 47, 120, 46, 99]),
      ([[115], [108, 111, 111, 112]], [108, 111, 111, 112]),
      ([[115], [100, 101, 101, 112]], [108, 105, 98, 47, 115, 117, 98]),
      ([[115], [99, 49]], [99, 50]), ([[115], [99, 50]], [108, 105, 98, 47, 117, 46, 99])] }

/-- Witness: key `nx/../l.c` (no directory `nx`). `canonicalize` fails on the path as spelled, the
lexical normal form `/s/l.c` is the link `l.c -> u.c`, and the key is reported as
(`/s/l.c`, `l.c`) although the file it reaches is `/s/u.c`: the same file is reported as `u.c` for
the key `u.c` and as `l.c` for this one. -/
theorem C11_symlink_physical_false : ¬ C11_symlink_physical_stmt := by
  intro h
  have hw : resolveKey { sourceDir := some [47, 115] } symFS [110, 120, 47, 46, 46, 47, 108, 46, 99]
      = .ok (some ([47, 115, 47, 108, 46, 99], [108, 46, 99])) := by decide +kernel
  have hc : symFS.realpath [47, 115, 47, 108, 46, 99] = some [47, 115, 47, 117, 46, 99] := by decide +kernel
  have := h _ symFS _ [[115]] _ _ _ (by decide) rfl (by decide +kernel) hw hc (by decide)
  revert this
  decide

/-- The physical reading holds under the guard the witness violates: the reported absolute path
is canonical (it is its own `realpath` — always the case when `canonicalize` succeeded on the
guessed path). Then the physical location IS the reported absolute path, it is `S/names`, and the
reported relative path is the final form of `names` (`names` itself when no name contains a
backslash). Holds for every file system with links, key, prefix and mapping. -/
theorem C11_symlink_physical_partial (cfg : Cfg) (fs : FS) (key : Bytes) (sn : List Bytes)
    (abs rel c : Bytes) (hsn : ∀ n ∈ sn, RealName n)
    (hS : cfg.sourceDir = some (render ⟨true, sn⟩))
    (h : resolveKey cfg fs key = .ok (some (abs, rel)))
    (hcanon : fs.realpath abs = some abs) (hc : fs.realpath abs = some c)
    (hunder : startsWith c (render ⟨true, sn⟩) = true) :
    ∃ names, (∀ n ∈ names, RealName n) ∧ c = render ⟨true, sn ++ names⟩ ∧
      stripPrefix c (render ⟨true, sn⟩) = some (render ⟨false, names⟩) ∧
      normalizePath (bsl (render ⟨false, names⟩)) = some rel ∧
      ((∀ n ∈ names, 92 ∉ n) → rel = render ⟨false, names⟩) := by
  have e : c = abs := by rw [hcanon] at hc; exact (Option.some.inj hc).symm
  subst e
  exact relative_under_source hsn hS h hunder

/-- What the code does in each link situation (source dir `/s` unless said otherwise). -/
theorem C11_symlink_situations :
    -- a link inside the source dir that points OUTSIDE it: reported relative to the source dir
    -- under the link's name, with the physical absolute path outside
    resolveKey { sourceDir := some [47, 115] } symFS [111, 117, 116, 47, 97, 46, 99]
      = .ok (some ([47, 111, 47, 97, 46, 99], [111, 117, 116, 47, 97, 46, 99])) ∧
    -- a link OUTSIDE that points inside: canonicalised and reported relative to the source dir
    resolveKey { sourceDir := some [47, 115] } symFS [47, 111, 47, 105, 110, 47, 117, 46, 99]
      = .ok (some ([47, 115, 47, 108, 105, 98, 47, 117, 46, 99], [108, 105, 98, 47, 117, 46, 99])) ∧
    -- a directory link inside the source dir: reported under the physical path
    resolveKey { sourceDir := some [47, 115] } symFS [105, 110, 99, 47, 117, 46, 99]
      = .ok (some ([47, 115, 47, 108, 105, 98, 47, 117, 46, 99], [108, 105, 98, 47, 117, 46, 99])) ∧
    -- a chain of file links
    resolveKey { sourceDir := some [47, 115] } symFS [99, 49]
      = .ok (some ([47, 115, 47, 108, 105, 98, 47, 117, 46, 99], [108, 105, 98, 47, 117, 46, 99])) ∧
    -- ".." after a link is the physical parent of the TARGET (`deep -> lib/sub`): `deep/../u.c`
    -- is `lib/u.c`, not `u.c`
    resolveKey { sourceDir := some [47, 115] } symFS [100, 101, 101, 112, 47, 46, 46, 47, 117, 46, 99]
      = .ok (some ([47, 115, 47, 108, 105, 98, 47, 117, 46, 99], [108, 105, 98, 47, 117, 46, 99])) ∧
    -- a dangling link and a loop (ELOOP) cannot be canonicalised: reported under their own names
    resolveKey { sourceDir := some [47, 115] } symFS [100, 97, 110, 103]
      = .ok (some ([47, 115, 47, 100, 97, 110, 103], [100, 97, 110, 103])) ∧
    resolveKey { sourceDir := some [47, 115] } symFS [108, 111, 111, 112]
      = .ok (some ([47, 115, 47, 108, 111, 111, 112], [108, 111, 111, 112])) ∧
    -- the source dir itself given through a link (`/l -> /s`; library only, `main` canonicalises
    -- it): a relative key is reported relative, an absolute key below the link is reported
    -- ABSOLUTE although the file lies below the source dir
    resolveKey { sourceDir := some [47, 108] } symFS [117, 46, 99]
      = .ok (some ([47, 115, 47, 117, 46, 99], [117, 46, 99])) ∧
    resolveKey { sourceDir := some [47, 108] } symFS [47, 108, 47, 117, 46, 99]
      = .ok (some ([47, 115, 47, 117, 46, 99], [47, 115, 47, 117, 46, 99])) := by
  refine ⟨?_, ?_, ?_, ?_, ?_, ?_, ?_, ?_, ?_⟩ <;> decide +kernel

/-- `lstat` does not follow the last component, `stat` does; a link in the middle is followed by
both -/
example : symFS.isLink [47, 115, 47, 108, 46, 99] = true ∧ symFS.isFile [47, 115, 47, 108, 46, 99] = true ∧
    symFS.isLink [47, 115, 47, 105, 110, 99, 47, 117, 46, 99] = false ∧
    symFS.isLink [47, 115, 47, 100, 97, 110, 103] = true ∧ symFS.exists [47, 115, 47, 100, 97, 110, 103] = false ∧
    symFS.exists [47, 115, 47, 108, 111, 111, 112] = false := by decide +kernel

/-- the guard of `C11_symlink_physical_partial` on a concrete link: `inc/u.c` is reported with
the canonical absolute path `/s/lib/u.c`, which is its own `realpath` -/
example : symFS.realpath [47, 115, 47, 108, 105, 98, 47, 117, 46, 99] = some [47, 115, 47, 108, 105, 98, 47, 117, 46, 99] := by
  decide +kernel

end Grcov.Props.C11
