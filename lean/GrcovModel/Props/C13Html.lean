/-
C13, part Html (second review, items 22, 23, 24).

* Item 22 — "HTML file stats equal the counts of the LISTED lines". The header of a file page is
  `get_stats(result)`: it counts the lines of the RECORD. The page lists one row per line of the
  SOURCE (`Writers.Docs.htmlRows`). The two agree exactly when the source has at least as many lines
  as the record's highest line (`C13_html_file_listed`, the guard of C03's
  `C03_html_rows_cover_all_lines`); with a short or stale source the header counts lines no row
  shows (`C13_html_file_listed_false`; finding C13-html-header-counts-unlisted-lines).
* Item 23 — directory / index / global sums when a path repeats. `HtmlStats::add` runs for every
  record, the row map (`BTreeMap::insert`) keeps one row per name: the summary is no longer the sum
  of the rows (`C13_html_sums_false`, `…_partial` under `ShownDistinct`; finding
  C13-html-duplicate-path). What always holds: the global totals are the sum over all records the
  writer looks at (`C13_html_global_counts_every_record`).
* Item 24 — which figure is printed (`Stats/Rounded.lean`): half away from zero for the page
  percentages and covdir, half to even with exactly `p` decimals for coverage.json and markdown; the
  two agree unless the exact rate is at a tie with an even floor (`C13_rounding_modes_differ_iff`),
  the rounded value is within half a unit of the last place (`C13_rounded_within_half_unit`).
-/
import GrcovModel.Lemmas.StatsHtml
namespace Grcov.Props.C13
open Grcov AList Grcov.Stats Grcov.Writers Grcov.Writers.Docs

/-! ## item 22: the header of a file page and its rows -/

/-- Full statement: for every source text, the "lines" figures at the top of a file page are the
counts of the rows the page lists — total = rows with a count, covered = rows with a count > 0. -/
def C13_html_file_listed_stmt : Prop :=
  ∀ (src : List Nat) (c : Cov), NodupKeys c.lines → (∀ kv ∈ c.lines, 1 ≤ kv.1) →
    (htmlStats c).totalLines = (htmlRows src c.lines).countP (fun r => decide (0 ≤ r.count)) ∧
    (htmlStats c).coveredLines = (htmlRows src c.lines).countP (fun r => decide (0 < r.count))

/-- FALSE: a source of two lines (`x\ny\n`) and the record `{1:0, 2:0, 5:3, 9:4}` (a stale or
truncated source): the header says `2 / 4`, the page lists two rows, neither covered. -/
theorem C13_html_file_listed_false : ¬ C13_html_file_listed_stmt := by
  intro h
  have := (h [120, 10, 121, 10] { lines := [(1, 0), (2, 0), (5, 3), (9, 4)] }
    (by unfold NodupKeys keys; decide) (by decide)).1
  revert this
  decide

/-- It holds when the source has at least as many lines (as `str::lines` counts them after lossy
decoding) as the highest line of the record. -/
theorem C13_html_file_listed (src : List Nat) (c : Cov) (hnd : NodupKeys c.lines)
    (h1 : ∀ kv ∈ c.lines, 1 ≤ kv.1) (hlen : lastKey c.lines ≤ (lossyLines src).length) :
    (htmlStats c).totalLines = (htmlRows src c.lines).countP (fun r => decide (0 ≤ r.count)) ∧
    (htmlStats c).coveredLines = (htmlRows src c.lines).countP (fun r => decide (0 < r.count)) := by
  obtain ⟨ht, hc⟩ := htmlRows_counts src c.lines hnd h1 hlen
  exact ⟨ht.symm, hc.symm⟩

/-- the guard on a concrete page: three source lines, highest instrumented line 3 -/
example : lastKey [(1, 5), (3, 0)] ≤ (lossyLines [97, 10, 98, 10, 99]).length ∧
    (htmlRows [97, 10, 98, 10, 99] [(1, 5), (3, 0)]).map (·.count) = [5, -1, 0] := by decide

/-! ## item 23: sums under duplicate paths -/

/-- Full statement: on every directory page and on `index.html` the summary at the top is the sum
of the rows, for every result set. -/
def C13_html_sums_stmt : Prop :=
  ∀ rs : List FileIn,
    (∀ dp ∈ (html rs).dirPages, dp.2.stats = sumH (dp.2.rows.map (·.2))) ∧
    (html rs).index.stats = sumH ((html rs).index.rows.map (·.2))

/-- `d/a.c` twice (2 lines none hit; 2 lines one hit) and `d/b.c` (1 line, hit) -/
def dupWitness : List FileIn :=
  [ { relIsRel := true, openable := true, rel := [[100], [97, 46, 99]], abs := [], cov := { lines := [(1, 0), (2, 0)] } },
    { relIsRel := true, openable := true, rel := [[100], [97, 46, 99]], abs := [], cov := { lines := [(1, 1), (2, 0)] } },
    { relIsRel := true, openable := true, rel := [[100], [98, 46, 99]], abs := [], cov := { lines := [(1, 1)] } } ]

/-- FALSE: the page of `d` says `2 / 5` lines, its rows are `a.c 1 / 2` and `b.c 1 / 1` (the first
record of `d/a.c` was replaced in the row map, its lines stay in the sums); the global index row of
`d` and the global totals carry the 5 as well. -/
theorem C13_html_sums_false : ¬ C13_html_sums_stmt := by
  intro h
  have := (h dupWitness).1
  revert this
  decide

theorem C13_html_duplicate_witness_figures :
    (html dupWitness).dirPages.map (fun dp => (dp.2.stats.totalLines, dp.2.stats.coveredLines,
      dp.2.rows.map fun row => (row.2.totalLines, row.2.coveredLines))) = [(5, 2, [(2, 1), (1, 1)])] ∧
    (htmlGlobal dupWitness).stats.totalLines = 5 := by decide

/-- It holds when no two shown records have the same reported path. -/
theorem C13_html_sums_partial (rs : List FileIn) (hnd : ShownDistinct rs) :
    (∀ dp ∈ (html rs).dirPages, dp.2.stats = sumH (dp.2.rows.map (·.2))) ∧
    (html rs).index.stats = sumH ((html rs).index.rows.map (·.2)) :=
  ⟨fun dp hdp => (html_dirPages_sum rs hnd dp hdp).1, html_index_sum rs hnd⟩

/-- What holds for EVERY result set, duplicates included: the global totals (behind the badge and
coverage.json) are the sums over all records the writer looks at — a path that occurs twice is
counted twice. -/
theorem C13_html_global_counts_every_record (rs : List FileIn) :
    (htmlGlobal rs).stats = sumH ((rs.filter (·.shown)).map fun r => htmlStats r.cov) ∧
    (htmlGlobal rs).stats.totalLines = ((rs.filter (·.shown)).map fun r => r.cov.lines.length).sum ∧
    (htmlGlobal rs).stats.coveredLines = ((rs.filter (·.shown)).map fun r => countPos r.cov.lines).sum := by
  refine ⟨htmlGlobal_stats_eq rs, ?_, ?_⟩
  · rw [htmlGlobal_stats_eq, sumH_totalLines, List.map_map]; rfl
  · rw [htmlGlobal_stats_eq, sumH_coveredLines, List.map_map]; rfl

/-! ## item 24: the figure that is printed -/

/-- Off a tie the rounding mode does not matter: index.html (half away from zero) and
coverage.json (half to even) round the same exact rate to the same figure. -/
theorem C13_rounding_modes_agree_off_tie (p : Nat) (r : Rate) (h : atTie p r = false) :
    roundedTo .halfAway p r = roundedTo .halfEven p r :=
  roundedTo_eq_off_tie p r h

/-- They differ exactly when the exact rate lies half way between two printable values and the
lower one is even: then the page shows the upper value and coverage.json the lower one. -/
theorem C13_rounding_modes_differ_iff (p : Nat) (r : Rate) :
    roundedTo .halfAway p r ≠ roundedTo .halfEven p r ↔ atTie p r = true ∧ scaledFloor p r % 2 = 0 := by
  cases h : atTie p r with
  | false => simp [roundedTo_eq_off_tie p r h]
  | true =>
    obtain ⟨h1, h2⟩ := roundedTo_at_tie p r h
    rw [h1, h2]
    by_cases he : scaledFloor p r % 2 = 0 <;> simp [he]

/-- Whatever the mode, the rounded figure is within half a unit of the last printed place of the
exact rate: `|n / 10^p − num / den| ≤ 10^-p / 2`, cross-multiplied. -/
theorem C13_rounded_within_half_unit (m : RMode) (p : Nat) (r : Rate) (hd : r.Finite) :
    2 * absDiff (roundedTo m p r * r.den) (r.num * 10 ^ p) ≤ r.den :=
  roundedTo_close m p r hd

/-- 1 of 8 lines at precision 0 (12.5 exactly): the page prints 13, coverage.json 12; at precision 1
both print 12.5. 1 of 800 at precision 2: 0.13 and 0.12. -/
example : roundedTo .halfAway 0 (htmlPercent 1 8) = 13 ∧ roundedTo .halfEven 0 (htmlPercent 1 8) = 12 ∧
    roundedTo .halfAway 1 (htmlPercent 1 8) = 125 ∧ roundedTo .halfEven 1 (htmlPercent 1 8) = 125 ∧
    roundedTo .halfAway 2 (htmlPercent 1 800) = 13 ∧ roundedTo .halfEven 2 (htmlPercent 1 800) = 12 := by decide

/-- "100.00" is what 24999 of 25000 lines (99.996 %) prints at precision 2 — the text's "within the
precision the format prints" allows it — while 9999 of 10000 prints 99.99 -/
example : roundedTo .halfAway 2 (htmlPercent 24999 25000) = 10000 ∧
    roundedTo .halfEven 2 (htmlPercent 24999 25000) = 10000 ∧
    roundedTo .halfAway 2 (htmlPercent 9999 10000) = 9999 := by decide

/-- what the second-generation check accepts and rejects at 59 of 60 lines: at precision 0 the page
figure is `98` or `98.0`; `98.3333333` and `98.6` (accepted by `printedOK`, which only bounds the
distance) are not; coverage.json at precision 2 is `98.33`, not `98.3`, not `98.330`. -/
example : (tolOf "html" 0).map (fun t =>
      ([[57, 56], [57, 56, 46, 48], [57, 56, 46, 51, 51, 51, 51, 51, 51, 51], [57, 56, 46, 54]].map fun s =>
        (printedOK t (htmlPercent 59 60) s, printedOK2 t ⟨.halfAway, false⟩ 0 (htmlPercent 59 60) s)))
      = some [(true, true), (true, true), (true, false), (true, false)] ∧
    (tolOf "html" 2).map (fun t =>
      ([[57, 56, 46, 51, 51], [57, 56, 46, 51], [57, 56, 46, 51, 51, 48]].map fun s =>
        printedOK2 t ⟨.halfEven, true⟩ 2 (htmlPercent 59 60) s)) = some [true, false, false] := by decide

/-- at the tie 1/8, precision 0, both neighbours pass (a float computation may land on either side
of a tie it cannot represent); which one the exact computation prints is `printedExact` -/
example : (tolOf "html" 0).map (fun t =>
      (printedOK2 t ⟨.halfAway, false⟩ 0 (htmlPercent 1 8) [49, 51], printedOK2 t ⟨.halfAway, false⟩ 0 (htmlPercent 1 8) [49, 50],
       printedOK2 t ⟨.halfAway, false⟩ 0 (htmlPercent 1 8) [49, 52])) = some (true, true, false) ∧
    printedExact ⟨.halfAway, false⟩ 0 (htmlPercent 1 8) [49, 51] = true ∧
    printedExact ⟨.halfAway, false⟩ 0 (htmlPercent 1 8) [49, 50] = false ∧
    printedExact ⟨.halfEven, true⟩ 0 (htmlPercent 1 8) [49, 50] = true := by decide

end Grcov.Props.C13
