/-
C20 ∘ C19 — the paths of the `Consumer.WorkDirs` model are the destinations of C19's `Confine`
model: an extraction destination `extractDest tmp stem n ext` (what `producer.rs` builds with
`join`, for a well-formed stem) and a worker directory `workerDir tmp i` RESOLVE (symbolic links
and `..` inside `tmp` followed, `Confine.resolve`) to `layoutNew`'s extraction path and to
`WorkDirs.workerDir` over the resolved temp dir. So `C20_private_directory` speaks about exactly
the destinations for which C19 proves `C19_extractions_apart_from_workers` (package W2; both rest
on the same two facts: worker names are decimal numerals, `inputs` is not one).
-/
import GrcovModel.Lemmas.ConfineExtract
import GrcovModel.Props.C19Extract
import GrcovModel.Props.C20WorkDirs
namespace Grcov.Props.C20
open Grcov Grcov.Consumer.WorkDirs

/-- C19 and C20 write worker indices and archive numbers with the same decimal digits. -/
theorem C20_c19_decimal_names_agree (fuel n : Nat) : Confine.decDigits fuel n = decDigits fuel n := by
  induction fuel generalizing n with
  | zero => rfl
  | succ f ih => simp [Confine.decDigits, decDigits, ih]

/-- C19's worker directory, resolved, is the worker directory of the `WorkDirs` model. -/
theorem C20_c19_worker_dir (tmp : Confine.Path) (i : Nat) :
    Confine.resolve (Confine.workerDir tmp i) = workerDir (Confine.resolve tmp) i := by
  rw [Confine.resolve_workerDir]
  simp [workerDir, Confine.dec, dec, C20_c19_decimal_names_agree]

/-- C19's extraction destination of a well-formed stem, resolved, is an extraction path of the
`WorkDirs` model: `tmp/inputs/<directories of the stem>/<last>_<n>.<ext>`. -/
theorem C20_c19_extract_dest (tmp : Confine.Path) (stem ext : UPath.Bytes) (n : Nat)
    (pre : List UPath.Bytes) (last : UPath.Bytes) (he : 47 ∉ ext)
    (hs : stem = UPath.join (pre ++ [last])) (hpre : ∀ s ∈ pre, UPath.RealName s) (hl : 47 ∉ last) :
    Confine.resolve (Confine.extractDest tmp stem n ext)
      = (layoutNew (Confine.resolve tmp) (pre ++ [last ++ 95 :: Confine.dec n ++ 46 :: ext])).1
        ++ (layoutNew (Confine.resolve tmp) (pre ++ [last ++ 95 :: Confine.dec n ++ 46 :: ext])).2 := by
  rw [Confine.resolve_extractDest tmp n he hs hpre hl]
  simp [layoutNew, INPUTS, Confine.bInputs]

/-- … hence no such destination is at or below a worker directory (C20's own statement of the
apartness C19 proves as `C19_extractions_apart_from_workers`). -/
theorem C20_c19_dest_apart (tmp : Confine.Path) (stem ext : UPath.Bytes) (n i : Nat)
    (pre : List UPath.Bytes) (last : UPath.Bytes) (he : 47 ∉ ext)
    (hs : stem = UPath.join (pre ++ [last])) (hpre : ∀ s ∈ pre, UPath.RealName s) (hl : 47 ∉ last) :
    ¬ Confine.resolve (Confine.workerDir tmp i) <+: Confine.resolve (Confine.extractDest tmp stem n ext) := by
  rw [C20_c19_worker_dir, C20_c19_extract_dest tmp stem ext n pre last he hs hpre hl]
  exact C20_extractions_apart_from_workers _ _ _ i

end Grcov.Props.C20

namespace Grcov.Props.C20
open Grcov Grcov.Consumer.WorkDirs

/-- Composition with C19 (`RunOK`, `C19_extractions_apart_from_workers`): in a run that satisfies
C19's `RunOK`, EVERY extraction (any archive number `k`) resolves to an extraction path of the
`WorkDirs` model — so the events `C20_private_directory` quantifies over include all of the run's
extractions — and, by C19's theorem, lies apart from every worker directory of that model. -/
theorem C20_c19_run_extractions (ri : Confine.RunInput) (ok : Grcov.Props.C19.RunOK ri) :
    ∀ e ∈ ri.extracts, ∀ k i : Nat,
      (∃ rel, Confine.resolve (Confine.extractDest ri.tmp e.stem k e.ext)
          = (layoutNew (Confine.resolve ri.tmp) rel).1 ++ (layoutNew (Confine.resolve ri.tmp) rel).2) ∧
      ¬ workerDir (Confine.resolve ri.tmp) i <+: Confine.resolve (Confine.extractDest ri.tmp e.stem k e.ext) := by
  intro e he k i
  obtain ⟨⟨pre, last, e1, hp, _, hl⟩, h47, _⟩ := ok.extracts e he
  refine ⟨⟨_, C20_c19_extract_dest ri.tmp e.stem e.ext k pre last h47 e1 hp hl⟩, ?_⟩
  rw [← C20_c19_worker_dir]
  exact (Grcov.Props.C19.C19_extractions_apart_from_workers ri ok e he k i).1

end Grcov.Props.C20
