/-
C09, byte level of the JSON form — `C09_json_fidelity` carried from serde_json's VALUE TREE down to
the BYTES of the JSON text (`Gcov.JsonBytes`, GrcovModel/Gcov/JsonBytes.lean):
`parseGcovJsonBytes flt bs = Json.fromReader (readTree flt bs)`, `readTree` = white-space stripping
+ JSON number grammar + the library's byte-level reader `Writers.JsonBytes.jsonParse` + serde_json's
three number classes.

Trusted below this level: gzip (flate2) – the model starts from the decompressed bytes; the f64
VALUE of a number token that is not a u64/i64 integer literal (`flt`, serde_json's float reader,
which is not correctly rounded: the harness takes it from serde_json itself); UTF-8 validation of
strings; `\uD800`–`\uDFFF` escapes (surrogate pairs: gcov never writes them), the token `-0`
(serde_json's −0.0) – the last three are excluded from the tie and counted. That `readTree` IS
serde_json's reader is the tie (harness stream `jsonbytes.*`: verdict and value tree on generated
texts – compact, GCC-style blanks, random white space – and on byte-level mutations of them).
Not proved: a constructor of the JSON TEXT from a `Doc` (compact or pretty) with its read-back
theorem; `C09_json_fidelity_bytes` is stated for every text that reads as the document, the
white-space theorems say which blanks are insignificant, and `exGcov14Bytes` is a closed instance.
-/
import GrcovModel.Lemmas.GcovJsonBytes
namespace Grcov.Props.C09
open Grcov AList Grcov.Gcov Grcov.Gcov.Spec Grcov.Gcov.JsonBytes

/-- Fidelity at byte level: for every well-formed gcov document `d`, every float oracle and every
JSON text `bs` that reads (white space anywhere between tokens, any escapes, any key order) as a
value tree with the same read content as `d.toJson` – in particular as `d.toJson` itself, or with
the unknown keys of gcov 13/14 added at any level (`DocRel`) – `parse_gcov_gz` on those bytes
returns exactly what the document says. -/
theorem C09_json_fidelity_bytes (flt : List Nat → Option JNum) (d : Doc) (h : d.WF) (bs : List Nat)
    (j : Json) (hr : readTree flt bs = some j) (hj : JsonL.DocRel d.toJson j) :
    parseGcovJsonBytes flt bs = .ok (semJson d) := by
  unfold parseGcovJsonBytes
  rw [hr]
  simp only [Json.fromReader]
  rw [← JsonL.toResults_sim hj]
  exact JsonL.toResults_toJson d h

/-- Which white space is insignificant: outside strings, white space after a byte that does not
belong to a number or literal (a bracket, colon, comma or closing quote) is dropped, and so is
white space before such a byte, whatever precedes; texts that are equal after that removal read
the same. (White space INSIDE a number or literal, or between two scalars, makes the reader fail –
as serde_json does.) -/
theorem C09_json_bytes_whitespace :
    (∀ ws r pend, ws.all isJsonWs = true → stripGo 0 false pend (ws ++ r) = stripGo 0 false pend r) ∧
    (∀ ws r b prev pend, ws.all isJsonWs = true → isJsonWs b = false → isWordByte b = false →
      stripGo 0 prev pend (ws ++ b :: r) = stripGo 0 prev false (b :: r)) ∧
    (∀ bs bs', stripWs bs = stripWs bs' → jsonParse' bs = jsonParse' bs') :=
  ⟨fun ws r pend h => stripGo_ws_after_nonword ws r h pend,
   fun ws r b prev pend h h1 h2 => stripGo_ws_before_nonword ws r h b h1 h2 prev pend,
   jsonParse'_congr⟩

/-- The variant reader agrees with the library's `jsonParse` on the latter's domain: a text
without white space whose number tokens follow the JSON grammar. -/
theorem C09_json_bytes_reader_extends_jsonParse (bs : List Nat)
    (h : ∀ b ∈ bs, isJsonWs b = false) (hw : wordsOk (bs.length + 1) 0 false bs = true) :
    jsonParse' bs = Grcov.Writers.JsonBytes.jsonParse bs :=
  jsonParse'_eq bs h hw

/-- Any bytes: `Ok` or `Err(InvalidData)`, never a panic (true by construction of the model, like
`C09_json_never_panics`); bytes the text reader rejects are `Err(InvalidData)`. -/
theorem C09_json_bytes_never_panic (flt : List Nat → Option JNum) (bs : List Nat) :
    (∀ site, parseGcovJsonBytes flt bs ≠ .panic site)
    ∧ (readTree flt bs = none → parseGcovJsonBytes flt bs = .err "InvalidData") :=
  ⟨fun site => JsonL.fromReader_ne_panic _ site, fun h => by simp [parseGcovJsonBytes, h, Json.fromReader]⟩

/-! ### non-vacuity -/

def exGcov14Bytes : List Nat :=
  [123, 10, 32, 32, 34, 102, 111, 114, 109, 97, 116, 95, 118, 101, 114, 115, 105, 111, 110, 34, 58, 32, 34, 50, 34, 44, 32, 34, 103, 99, 99, 95, 118, 101, 114, 115, 105, 111, 110, 34, 58, 32, 34, 49, 52, 46, 50, 46, 48, 34, 44, 10, 32, 32, 34, 99, 117, 114, 114, 101, 110, 116, 95, 119, 111, 114, 107, 105, 110, 103, 95, 100, 105, 114, 101, 99, 116, 111, 114, 121, 34, 58, 32, 34, 47, 98, 47, 92, 117, 48, 48, 101, 57, 34, 44, 32, 34, 100, 97, 116, 97, 95, 102, 105, 108, 101, 34, 58, 32, 34, 97, 46, 103, 99, 100, 97, 34, 44, 10, 32, 32, 34, 102, 105, 108, 101, 115, 34, 58, 32, 91, 10, 32, 32, 32, 32, 123, 34, 102, 105, 108, 101, 34, 58, 32, 34, 97, 46, 99, 34, 44, 10, 32, 32, 32, 32, 32, 34, 102, 117, 110, 99, 116, 105, 111, 110, 115, 34, 58, 32, 91, 123, 34, 110, 97, 109, 101, 34, 58, 32, 34, 102, 34, 44, 32, 34, 100, 101, 109, 97, 110, 103, 108, 101, 100, 95, 110, 97, 109, 101, 34, 58, 32, 34, 102, 40, 105, 110, 116, 44, 32, 99, 104, 97, 114, 41, 34, 44, 32, 34, 115, 116, 97, 114, 116, 95, 108, 105, 110, 101, 34, 58, 32, 51, 44, 32, 34, 115, 116, 97, 114, 116, 95, 99, 111, 108, 117, 109, 110, 34, 58, 32, 49, 44, 10, 32, 32, 32, 32, 32, 32, 32, 32, 32, 32, 32, 32, 32, 32, 32, 32, 32, 32, 32, 32, 34, 101, 110, 100, 95, 108, 105, 110, 101, 34, 58, 32, 57, 44, 32, 34, 101, 110, 100, 95, 99, 111, 108, 117, 109, 110, 34, 58, 32, 49, 44, 32, 34, 98, 108, 111, 99, 107, 115, 34, 58, 32, 52, 44, 32, 34, 98, 108, 111, 99, 107, 115, 95, 101, 120, 101, 99, 117, 116, 101, 100, 34, 58, 32, 50, 44, 32, 34, 101, 120, 101, 99, 117, 116, 105, 111, 110, 95, 99, 111, 117, 110, 116, 34, 58, 32, 53, 46, 48, 101, 48, 125, 93, 44, 10, 32, 32, 32, 32, 32, 34, 108, 105, 110, 101, 115, 34, 58, 32, 91, 10, 32, 32, 32, 32, 32, 32, 32, 123, 34, 108, 105, 110, 101, 95, 110, 117, 109, 98, 101, 114, 34, 58, 32, 51, 44, 32, 34, 102, 117, 110, 99, 116, 105, 111, 110, 95, 110, 97, 109, 101, 34, 58, 32, 34, 102, 34, 44, 32, 34, 99, 111, 117, 110, 116, 34, 58, 32, 55, 44, 32, 34, 117, 110, 101, 120, 101, 99, 117, 116, 101, 100, 95, 98, 108, 111, 99, 107, 34, 58, 32, 102, 97, 108, 115, 101, 44, 10, 32, 32, 32, 32, 32, 32, 32, 32, 34, 98, 108, 111, 99, 107, 95, 105, 100, 115, 34, 58, 32, 91, 49, 44, 32, 50, 93, 44, 32, 34, 98, 114, 97, 110, 99, 104, 101, 115, 34, 58, 32, 91, 123, 34, 99, 111, 117, 110, 116, 34, 58, 32, 48, 44, 32, 34, 116, 104, 114, 111, 119, 34, 58, 32, 102, 97, 108, 115, 101, 44, 32, 34, 102, 97, 108, 108, 116, 104, 114, 111, 117, 103, 104, 34, 58, 32, 116, 114, 117, 101, 44, 32, 34, 115, 111, 117, 114, 99, 101, 95, 98, 108, 111, 99, 107, 95, 105, 100, 34, 58, 32, 50, 125, 44, 10, 32, 32, 32, 32, 32, 32, 32, 32, 32, 32, 32, 32, 32, 32, 32, 32, 32, 32, 32, 32, 32, 32, 32, 32, 32, 32, 32, 32, 32, 32, 32, 32, 32, 32, 32, 32, 32, 32, 32, 32, 32, 32, 123, 34, 99, 111, 117, 110, 116, 34, 58, 49, 56, 52, 52, 54, 55, 52, 52, 48, 55, 51, 55, 48, 57, 53, 53, 49, 54, 49, 53, 44, 34, 116, 104, 114, 111, 119, 34, 58, 102, 97, 108, 115, 101, 44, 34, 102, 97, 108, 108, 116, 104, 114, 111, 117, 103, 104, 34, 58, 102, 97, 108, 115, 101, 125, 93, 44, 10, 32, 32, 32, 32, 32, 32, 32, 32, 34, 99, 97, 108, 108, 115, 34, 58, 32, 91, 93, 44, 32, 34, 99, 111, 110, 100, 105, 116, 105, 111, 110, 115, 34, 58, 32, 91, 93, 125, 44, 10, 32, 32, 32, 32, 32, 32, 32, 123, 34, 98, 114, 97, 110, 99, 104, 101, 115, 34, 58, 32, 91, 93, 44, 32, 34, 117, 110, 101, 120, 101, 99, 117, 116, 101, 100, 95, 98, 108, 111, 99, 107, 34, 58, 32, 116, 114, 117, 101, 44, 32, 34, 99, 111, 117, 110, 116, 34, 58, 32, 48, 44, 32, 34, 108, 105, 110, 101, 95, 110, 117, 109, 98, 101, 114, 34, 58, 32, 52, 125, 10, 32, 32, 32, 32, 32, 93, 125, 10, 32, 32, 93, 10, 125, 10]

def exFloatTok : List Nat := [53, 46, 48, 101, 48]

/-- serde_json's value of the one float token of the example -/
def exFlt (t : List Nat) : Option JNum := if t = exFloatTok then some (.flt false 5 0) else none

/-- a pretty-printed gcov 14 file (line breaks, indentation, blanks after `:` and `,`, a `é`
escape, `block_ids` / `calls` / `conditions` / `source_block_id`, a line object with its keys in
another order, a u64::MAX count, a float execution count) reads as what it says -/
example : parseGcovJsonBytes exFlt exGcov14Bytes
    = .ok [([97, 46, 99],
            { lines := [(3, 7), (4, 0)], branches := [(3, [false, true])],
              functions := [([102, 40, 105, 110, 116, 44, 32, 99, 104, 97, 114, 41], ⟨3, true⟩)] })] := by
  decide +kernel

/-- white space inside a number, and a number with a leading zero, are reader errors -/
example : jsonParse' [49, 32, 50] = none ∧ jsonParse' [48, 49] = none
    ∧ (jsonParse' [91, 32, 49, 32, 44, 10, 50, 32, 93]).isSome = true := by decide +kernel

end Grcov.Props.C09
