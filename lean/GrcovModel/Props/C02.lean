/-
C02 — every input is counted exactly once, for every thread count and interleaving.
Theorems about the transition system `Pipeline` (model of main.rs/lib.rs/producer.rs threading),
quantified over every worker count `n`, every item list, every fault environment `fate` and every
schedule (`Run` = any finite sequence of enabled steps).
Helper lemmas: GrcovModel/Lemmas/Pipeline.lean.
-/
import GrcovModel.Lemmas.Pipeline
namespace Grcov.Props.C02
open Grcov.Pipeline

/-- Conservation: in every reachable state each item is in exactly one place (still to send, in
the queue, held by a worker, merged, rejected, or lost with a dead worker) – nothing is dropped
and nothing is duplicated, whatever the interleaving. -/
theorem C02_conservation (fate : Item → Fate) (n : Nat) (rx : Bool) (items : List Item)
    (tr : List Step) (s : State) (h : Run fate (init n rx items) tr s) :
    (everywhere s).Perm items := by
  rw [List.perm_iff_count]
  intro x
  have := run_cnt h x
  rw [cnt_init] at this
  exact this

/-- Stop-marker bookkeeping in every reachable state: markers in the queue + workers that have
consumed one = markers sent so far (or no worker is left). -/
theorem C02_stop_markers (fate : Item → Fate) (n : Nat) (rx : Bool) (items : List Item)
    (tr : List Step) (s : State) (h : Run fate (init n rx items) tr s) : StopInv s :=
  run_stopInv h (stopInv_init n rx items)

/-- the merged list only ever holds items that were inputs, each at most as often as it was given -/
theorem C02_never_twice (fate : Item → Fate) (n : Nat) (rx : Bool) (items : List Item)
    (tr : List Step) (s : State) (h : Run fate (init n rx items) tr s) (x : Item) :
    s.merged.count x ≤ items.count x := by
  have := (C02_conservation fate n rx items tr s h).count_eq x
  simp only [everywhere, List.count_append] at this
  omega

/-- **Exactly once.** Whenever the process ends with exit status 0 – whatever the thread count,
the faults and the interleaving – every input has been either merged or rejected by its parser,
exactly as often as it was given (`Perm`), nothing is left in the queue or in a worker's hands,
merged items are exactly those whose parse succeeds and rejected ones those it fails for. -/
theorem C02_exactly_once (fate : Item → Fate) (n : Nat) (hn : 1 ≤ n) (rx : Bool) (items : List Item)
    (tr : List Step) (s : State) (h : Run fate (init n rx items) tr s) (hd : s.mainPc = .done 0) :
    (s.merged ++ s.rejected).Perm items ∧ (∀ x ∈ s.merged, fate x = .ok) ∧
      (∀ x ∈ s.rejected, fate x = .reject) := by
  have hi := run_flowInv h (flowInv_init fate n rx items)
  have hnn : s.n = n := (run_n h).1
  obtain ⟨h1, h2, h3, h4⟩ := done0_all_accounted fate s hi (by omega) hd
  refine ⟨?_, hi.mergedOk, hi.rejectedRej⟩
  have := C02_conservation fate n rx items tr s h
  simpa [everywhere, h1, h2, h3, h4] using this

/-- Without faults the merged multiset is exactly the input multiset: no artifact dropped, none
counted twice, for every number of workers and every interleaving. -/
theorem C02_exactly_once_no_faults (n : Nat) (hn : 1 ≤ n) (rx : Bool) (items : List Item)
    (tr : List Step) (s : State) (h : Run (fun _ => Fate.ok) (init n rx items) tr s)
    (hd : s.mainPc = .done 0) : s.merged.Perm items := by
  obtain ⟨hp, _, hr⟩ := C02_exactly_once (fun _ => Fate.ok) n hn rx items tr s h hd
  have : s.rejected = [] := by
    cases hrej : s.rejected with
    | nil => rfl
    | cons x xs => have := hr x (by simp [hrej]); cases this
  simpa [this] using hp

/-- The order in which the paths are given (the producer's order) is irrelevant to what is
merged: two runs on permuted item lists that both end with status 0 merge the same multiset. -/
theorem C02_path_order_irrelevant (fate : Item → Fate) (n : Nat) (hn : 1 ≤ n) (rx : Bool)
    (items items' : List Item) (p : items.Perm items') (tr tr' : List Step) (s s' : State)
    (h : Run fate (init n rx items) tr s) (h' : Run fate (init n rx items') tr' s')
    (hd : s.mainPc = .done 0) (hd' : s'.mainPc = .done 0) :
    (s.merged ++ s.rejected).Perm (s'.merged ++ s'.rejected) :=
  ((C02_exactly_once fate n hn rx items tr s h hd).1.trans p).trans
    (C02_exactly_once fate n hn rx items' tr' s' h' hd').1.symm

/-- non-vacuity: a complete run for n = 2 and three items in which both workers take part -/
example : ∃ s, replay (fun _ => .ok) (init 2 false [7, 8, 9])
    [.prodSend, .prodSend, .recv 1, .prodSend, .recv 0, .finish 0, .prodExit, .recv 0, .main,
     .finish 1, .main, .finish 0, .main, .recv 1, .recv 0, .main, .main, .main, .main] = some s
    ∧ s.mainPc = .done 0 ∧ s.merged = [8, 7, 9] := by
  refine ⟨_, rfl, ?_, ?_⟩ <;> decide

end Grcov.Props.C02
