/-
C02 — every input is counted exactly once, for every thread count and interleaving.

* `Props/C02Pipeline.lean`: the transition system `Pipeline` (threads, bounded queue, result-map
  mutex): conservation, exactly-once, mutual exclusion, whole batches, and the composition with the
  aggregation model C01 (`reportOf`): the report is schedule independent.
* `Props/C02Run.lean`: ONE WHOLE RUN from input bytes to report bytes (`Cli.RunAll.run`), all seven
  report types; permutations of the inputs; the report decodes to the records.
* `Props/C02EndToEnd.lean`: from the COMMAND LINE to the report: `Producer.run` (C17: discovery over
  directories, zips and plain files) composed with the pipeline and the aggregation
  (`C02_end_to_end`, `C02_end_to_end_packaging`), with the whole-run model (`C02_end_to_end_bytes`),
  and the schedule independence of the bytes of sorted types (`C02_run_schedule_sorted_bytes`).
-/
import GrcovModel.Props.C02Pipeline
import GrcovModel.Props.C02Run
import GrcovModel.Props.C02EndToEnd
