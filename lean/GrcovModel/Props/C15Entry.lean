/-
C15, "a function is reported executed iff it was entered at least once" – the shape condition made
explicit.  `add_line_count` looks at `edges.first()`: the arc with id 0.  That is the entry arc only
if the ARCS record of block 0 comes first in the file and block 0 has a single outgoing arc –
which is how LLVM and GCC write notes (blocks in order, the entry block first, one arc from the
entry block into the body).  `EntryFirst` states it (decidable); under it, a spanning forest and a
conserved flow, executed ⇔ the flow out of (= into) the entry block is positive.  Without it the
claim is false of the model AND of the real code: `C15_entry_first_needed` (a notes file whose ARCS
record of block 2 precedes that of block 0; the function is entered five times and reported as
not executed).  No compiler writes such a file; the harness generates them and records what the
real code does.
-/
import GrcovModel.Lemmas.GcnoFinal
import GrcovModel.Lemmas.GcnoFlow
import GrcovModel.Lemmas.GcnoCert
namespace Grcov.Props.C15
open Grcov Grcov.Gcno AList Outcome

/-- arc 0 leaves block 0 and is block 0's only outgoing arc -/
def EntryFirst (f : Func) : Bool :=
  match f.arcs[0]?, f.blocks[0]? with
  | some a, some b => a.src == 0 && b.destination == [0]
  | _, _ => false

/-- how often the function was entered: the flow out of the entry block -/
def entryFlow (f : Func) (F : Nat → Nat) : Nat :=
  match f.blocks[0]? with
  | some b => (b.destination.map F).sum
  | none => 0

/-- the flow into the entry block (for compiler-written notes: the flow on the virtual exit→entry
arc, the only arc into block 0) -/
def entryInflow (f : Func) (F : Nat → Nat) : Nat :=
  match f.blocks[0]? with
  | some b => (b.source.map F).sum
  | none => 0

/-- a conserved flow enters the entry block as often as it leaves it -/
theorem C15_entry_flow_conserved (f : Func) (F : Nat → Nat) (hF : Flow f F) :
    entryFlow f F = entryInflow f F := by
  unfold entryFlow entryInflow
  cases h : f.blocks[0]? with
  | none => rfl
  | some b => exact (hF.conserve 0 b h).symm

/-- **Executed iff entered, under the shape condition.** For a function with at least two blocks
whose on-tree arcs (with the virtual arc) form a spanning forest, whose counters are those of a
conserved flow `F`, and whose arc 0 is the only arc out of block 0 (`EntryFirst`): reading the
counters, `count_on_tree` and `add_line_count` report the function executed iff the flow out of the
entry block – equivalently into it – is positive. -/
theorem C15_executed_iff_entry_flow (version : Nat) (f : Func) (depth parc root F : Nat → Nat)
    (hn : f.blocks.length ≥ 2) (hT : SpanForest (addVirtualArc version f) depth parc root)
    (hF : Flow (addVirtualArc version f) F) (hE : EntryFirst (addVirtualArc version f) = true) :
    ∃ c c', accArcs f.blocks.length 0 f.arcs Cnt.zero (flowVals F f.arcs 0) = ok c ∧
      countOnTree version f c = ok (addVirtualArc version f, c') ∧
      ∀ (ex : Bool) (ls : List (Nat × Nat)),
        addLineCount (addVirtualArc version f) c' = ok (ex, ls) →
          ex = decide (entryFlow (addVirtualArc version f) F > 0) ∧
          ex = decide (entryInflow (addVirtualArc version f) F > 0) := by
  obtain ⟨c, c', h1, h2, h3, _⟩ := flow_recovered hn hT hF
  refine ⟨c, c', h1, h2, ?_⟩
  intro ex ls h
  have hflow : entryFlow (addVirtualArc version f) F = F 0 := by
    unfold EntryFirst at hE
    unfold entryFlow
    cases ha : (addVirtualArc version f).arcs[0]? with
    | none => rw [ha] at hE; simp at hE
    | some a =>
      cases hb : (addVirtualArc version f).blocks[0]? with
      | none => rw [ha, hb] at hE; simp at hE
      | some b =>
        rw [ha, hb] at hE
        simp only [Bool.and_eq_true, beq_iff_eq] at hE
        simp [hE.2]
  have hex : ex = decide (F 0 > 0) := by
    rw [addLineCount_executed h]
    have harcs := addVirtualArc_arcs (version := version) hn
    have : ∃ a : Arc, (addVirtualArc version f).arcs[0]? = some a := by
      rw [harcs]
      cases f.arcs <;> simp
    obtain ⟨a, ha⟩ := this
    have hne : (addVirtualArc version f).arcs.isEmpty = false := by
      rw [harcs]; cases f.arcs <;> simp
    simp only [entered, hne, Bool.not_false, Bool.true_and]
    rw [h3 0 a ha]
  exact ⟨by rw [hflow]; exact hex, by rw [← C15_entry_flow_conserved _ _ hF, hflow]; exact hex⟩

/-! ### without `EntryFirst` the claim fails -/

/-- five blocks, the ARCS record of block 2 BEFORE that of block 0:
arcs 0: 2→3, 1: 2→4*, 2: 0→2*, 3: 3→1*, 4: 4→1, 5 (virtual): 1→0* -/
def swappedFunc : Func :=
  match build 48 7
    [.func 1 11 22 [102] [97, 46, 99] 10 0, .blocks 5,
     .arcs 2 [(3, 0), (4, 1)], .arcs 0 [(2, 1)], .arcs 3 [(1, 1)], .arcs 4 [(1, 0)],
     .lines 2 [.file [97, 46, 99], .line 10], .lines 3 [.file [97, 46, 99], .line 11],
     .lines 4 [.file [97, 46, 99], .line 12]] with
  | .ok g => g.funcs.headD ⟨0, 0, 0, 0, 0, [], [], [], []⟩
  | _ => ⟨0, 0, 0, 0, 0, [], [], [], []⟩

/-- five runs, all through block 4: arc 0 (2→3) carries nothing -/
def swappedFlow (e : Nat) : Nat := [0, 5, 5, 0, 5, 5].getD e 0

/-- the executed flags a result reports -/
def executedFlags (o : Outcome (List (Bytes × Cov))) : Option (List Bool) :=
  match o with
  | .ok r => some (r.flatMap fun p => p.2.functions.map fun q => q.2.executed)
  | _ => none

/-- **`EntryFirst` is needed.** The on-tree arcs of `swappedFunc` form a spanning tree, `swappedFlow`
is conserved, the function is entered five times – and it is reported as NOT executed (all its
lines 0), because arc 0 is not the entry arc. The real code does the same. -/
theorem C15_entry_first_needed :
    isSpanTree (addVirtualArc 48 swappedFunc) = true ∧
    flowB (addVirtualArc 48 swappedFunc) swappedFlow = true ∧
    EntryFirst (addVirtualArc 48 swappedFunc) = false ∧
    entryFlow (addVirtualArc 48 swappedFunc) swappedFlow = 5 ∧
    flowVals swappedFlow swappedFunc.arcs 0 = [0, 5] ∧
    executedFlags (compute ⟨48, 7, [swappedFunc]⟩ [⟨48, 7, [.func 3 1 11 22, .arcs 4 [0, 5]]⟩] true)
      = some [false] := by
  decide +kernel

/-- non-vacuity: the same function with its ARCS records in block order satisfies `EntryFirst`
and is reported executed -/
def orderedFunc : Func :=
  match build 48 7
    [.func 1 11 22 [102] [97, 46, 99] 10 0, .blocks 5,
     .arcs 0 [(2, 1)], .arcs 2 [(3, 0), (4, 1)], .arcs 3 [(1, 1)], .arcs 4 [(1, 0)],
     .lines 2 [.file [97, 46, 99], .line 10], .lines 3 [.file [97, 46, 99], .line 11],
     .lines 4 [.file [97, 46, 99], .line 12]] with
  | .ok g => g.funcs.headD ⟨0, 0, 0, 0, 0, [], [], [], []⟩
  | _ => ⟨0, 0, 0, 0, 0, [], [], [], []⟩

example : EntryFirst (addVirtualArc 48 orderedFunc) = true ∧
    isSpanTree (addVirtualArc 48 orderedFunc) = true ∧
    executedFlags (compute ⟨48, 7, [orderedFunc]⟩ [⟨48, 7, [.func 3 1 11 22, .arcs 4 [0, 5]]⟩] true)
      = some [true] := by decide +kernel

end Grcov.Props.C15
