/-
C14, part Gcno — the gcno/gcda binary reader (`Gcno::compute` of src/reader.rs, model
`Grcov.Gcno.computeBytes` of Gcno.lean + Gcno/Bin.lean, tied to the real code by the C15/C08/C14
harnesses).  For ALL byte strings, both endiannesses, all versions:

* the byte readers (`readGcno`, `readGcda`) never crash and never run out of fuel;
* `build` (`read_gcno`) never crashes; what it builds is well-formed (arc endpoints are block
  numbers, adjacency lists hold arc ids) – the fact every index expression downstream relies on;
* `read_gcda` on any bytes, `count_on_tree`/`propagate_counts` on ANY well-formed shape (no
  spanning-tree assumption – a corrupt file has arbitrary tree flags): the only crash is the known
  finding C14-gcno-counter-overflow (u64 sums), and the depth fuel `propFuel` is never exhausted;
* `finalize` with its line counts and the cycle search (`look_for_circuit`, a variant of Johnson's
  algorithm): every index is in range, `get_cycle_count` never underflows (no arc is twice on the
  path) and the depth fuel `circuitFuel` suffices (no block is twice on the stack) – from the stack
  invariant "a block on the recursion stack stays in `blocked`" (Lemmas/GcnoSafeJohnson.lean);
  hence `Gcno::compute` on ANY bytes is a value, an error or the overflow crash, and never runs out
  of fuel (`C14_gcno_bytes_never_crash`, `C14_gcno_bytes_terminate`);
* a truncated gcda yields an error, the overflow crash, or exactly the state after a prefix of the
  complete records of the whole file; the record stream of the cut file never holds a counter
  that is not in the file (`TruncOf`);
* sizes: the record streams are linear in the input, and so are the block tables: all functions
  of an accepted file together have at most as many blocks as the file has bytes
  (`C14_gcno_blocks_linear`; finding C14-gcno-repeated-blocks-alloc, fixed in /repo ed627d5).

What a theorem about the model cannot say (measured by the correspondence run): the time of the
cycle search, which is exponential in the worst case (elementary circuits of a line's blocks).
-/
import GrcovModel.Lemmas.GcnoSafeTop
import GrcovModel.Lemmas.GcnoSafeBlocks
namespace Grcov.Props.C14
open Grcov Grcov.Gcno Grcov.Gcno.Outcome

/-- No byte string makes the gcno byte reader crash or run out of fuel: the outcome of
`readGcno` is a record stream or an error, for every version and both byte orders. -/
theorem C14_gcno_read_never_crashes (bs : List Nat) :
    (∀ s, readGcno bs ≠ .crash s) ∧ readGcno bs ≠ .diverge :=
  ⟨fun _ => (readGcno_sat bs).ne_crash id, (readGcno_sat bs).ne_diverge⟩

/-- No byte string makes the gcda byte reader crash or run out of fuel – neither in the header
nor in the record loop. -/
theorem C14_gcda_read_never_crashes (bs : List Nat) :
    (∀ s, readGcda bs ≠ .crash s) ∧ readGcda bs ≠ .diverge ∧
    ∀ p, readGcda bs = .ok p → (∀ s, p.rest ≠ .crash s) ∧ p.rest ≠ .diverge :=
  ⟨fun _ => (readGcda_sat bs).ne_crash id, (readGcda_sat bs).ne_diverge,
   fun _ hp => ⟨fun _ => ((readGcda_sat bs).of_ok hp).ne_crash id,
     ((readGcda_sat bs).of_ok hp).ne_diverge⟩⟩

/-- `read_gcno` as a whole (bytes → shape) never crashes and never runs out of fuel, and the
shape it returns is well-formed. -/
theorem C14_gcno_build_never_crashes (gcno : List Nat) :
    (∀ s, ((readGcno gcno).bind fun x => build x.1 x.2.1 x.2.2) ≠ .crash s) ∧
    ((readGcno gcno).bind fun x => build x.1 x.2.1 x.2.2) ≠ .diverge ∧
    ∀ g, ((readGcno gcno).bind fun x => build x.1 x.2.1 x.2.2) = .ok g → g.WF :=
  ⟨fun _ => (readBuild_sat gcno).ne_crash id, (readBuild_sat gcno).ne_diverge,
   fun _ hg => (readBuild_sat gcno).of_ok hg⟩

/-- `build` on ANY record list without crash markers (the byte reader never emits one) never
crashes. -/
theorem C14_gcno_build_records (version checksum : Nat) (recs : List NRec)
    (h : ∀ r ∈ recs, r.notCrash) :
    (∀ s, build version checksum recs ≠ .crash s) ∧ build version checksum recs ≠ .diverge :=
  ⟨fun _ => (build_sat version checksum h).ne_crash id, (build_sat version checksum h).ne_diverge⟩

/-- `Gcno::read(Gcda)` on any bytes against a well-formed shape: an error, a new state, or the
overflow crash (known finding); never another crash, never out of fuel. -/
theorem C14_gcda_add_crash_only_overflow (g : Notes) (hg : g.WF) (st : State) (bs : List Nat) :
    (∀ s, addGcdaBytes g st bs = .crash s → s = .overflow) ∧ addGcdaBytes g st bs ≠ .diverge :=
  ⟨fun s h => Classical.byContradiction fun hs => (addGcdaBytes_sat hg st bs).ne_crash hs h,
   (addGcdaBytes_sat hg st bs).ne_diverge⟩

/-- `stop` (`count_on_tree` / `propagate_counts`) on any well-formed shape and any counters: only
the overflow crash; the depth fuel `propFuel` is never exhausted, whatever the tree flags are. -/
theorem C14_gcno_stop_crash_only_overflow (g : Notes) (hg : g.WF) (st : State) :
    (∀ s, stop g st = .crash s → s = .overflow) ∧ stop g st ≠ .diverge :=
  ⟨fun s h => Classical.byContradiction fun hs => (stop_sat hg st).ne_crash hs h,
   (stop_sat hg st).ne_diverge⟩

/-- **Everything before `finalize`, for all byte strings**: reading the notes, building the shape,
reading any number of gcda buffers and `stop` end in a value or an error; the only crash is the
overflow finding; no fuel runs out. -/
theorem C14_gcno_until_stop (gcno : List Nat) (gcdas : List (List Nat)) :
    (∀ s, readAndStop gcno gcdas = .crash s → s = .overflow) ∧ readAndStop gcno gcdas ≠ .diverge :=
  ⟨fun s h => Classical.byContradiction fun hs => (readAndStop_sat gcno gcdas).ne_crash hs h,
   (readAndStop_sat gcno gcdas).ne_diverge⟩

/-- `finalize` (line counts, cycle search, branches) on well-formed functions: a value or the
overflow crash; no index out of range, no underflow in the cycle search, no fuel exhausted. -/
theorem C14_gcno_finalize_crash_only_overflow (branch : Bool) (fs : List (Func × Cnt))
    (h : ∀ fc ∈ fs, fc.1.WF) :
    (∀ s, finalize branch fs = .crash s → s = .overflow) ∧ finalize branch fs ≠ .diverge :=
  ⟨fun s hc => Classical.byContradiction fun hs => (finalize_ov branch h).ne_crash hs hc,
   (finalize_ov branch h).ne_diverge⟩

/-- **`Gcno::compute` on all byte strings never crashes except by the known overflow**: for every
gcno buffer, every list of gcda buffers and either branch setting, a crash of `computeBytes` is the
u64 overflow of finding C14-gcno-counter-overflow – never an index, an `unwrap`, a string, an empty
arc list or an underflow. -/
theorem C14_gcno_bytes_never_crash (gcno : List Nat) (gcdas : List (List Nat)) (branch : Bool)
    (s : Site) (hc : computeBytes gcno gcdas branch = .crash s) : s = .overflow :=
  Classical.byContradiction fun hs => (computeBytes_sat gcno gcdas branch).ne_crash hs hc

/-- **`Gcno::compute` on all byte strings terminates**: the fuels of the model (`propFuel` for
`propagate_counts`, `circuitFuel` for `look_for_circuit`, the buffer length for the record loops)
are never exhausted – the recursions of the real code are bounded by the number of blocks. -/
theorem C14_gcno_bytes_terminate (gcno : List Nat) (gcdas : List (List Nat)) (branch : Bool) :
    computeBytes gcno gcdas branch ≠ .diverge :=
  (computeBytes_sat gcno gcdas branch).ne_diverge

theorem C14_gcno_compute_split (gcno : List Nat) (gcdas : List (List Nat)) (branch : Bool) :
    computeBytes gcno gcdas branch = (readAndStop gcno gcdas).bind (finalize branch) :=
  computeBytes_eq gcno gcdas branch

/-! ### truncated gcda -/

/-- **The record stream of a truncated gcda.** Cut a gcda buffer anywhere. If the header of the
cut buffer can be read, so can the header of the whole buffer (same version, same checksum), and
the record stream of the cut buffer is `TruncOf` the record stream of the whole one: the same
records one by one, ending silently (a prefix of the complete records) or with the marker
`fail short`, possibly after a counter record that holds a prefix of the counters of the same
record of the whole file. -/
theorem C14_truncated_gcda_records (bs : List Nat) (n : Nat) (p' : GcdaBytes)
    (h : readGcda (bs.take n) = .ok p') :
    ∃ p, readGcda bs = .ok p ∧ p.version = p'.version ∧
      ∀ cs recs', p'.rest = .ok (cs, recs') → ∃ recs, p.rest = .ok (cs, recs) ∧ TruncOf recs' recs :=
  readGcda_prefix (List.take_prefix n bs) h

/-- **Never counts that were not in the file**: every counter record of the truncated stream is,
at the same position, a counter record of the whole stream, and its counters are a prefix of
that record's counters; and the truncated stream is a prefix of the complete records unless it
carries the failure marker. -/
theorem C14_truncated_gcda_counters (t f : List DRec) (h : TruncOf t f) :
    ((∃ k, t = f.take k) ∨ DRec.fail .short ∈ t) ∧
    ∀ (i len : Nat) (vs' : List Nat), t[i]? = some (DRec.arcs len vs') →
      ∃ vs, f[i]? = some (DRec.arcs len vs) ∧ vs' <+: vs :=
  ⟨h.take_or_fail, h.counters⟩

/-- **A truncated gcda (the artifact a killed test process leaves behind)** against well-formed
notes yields an error, the overflow crash, or exactly the state reached after a prefix `recs.take k`
of the complete records `recs` of the whole file – never anything else. -/
theorem C14_truncated_gcda (g : Notes) (hg : g.WF) (st : State) (bs : List Nat) (n : Nat) :
    (∃ k, addGcdaBytes g st (bs.take n) = .err k) ∨
    addGcdaBytes g st (bs.take n) = .crash .overflow ∨
    ∃ st' p cs recs k, addGcdaBytes g st (bs.take n) = .ok st' ∧ readGcda bs = .ok p ∧
      p.rest = .ok (cs, recs) ∧ addGcda g st ⟨p.version, cs, recs.take k⟩ = .ok st' := by
  cases h : addGcdaBytes g st (bs.take n) with
  | ok st' =>
    obtain ⟨p, cs, recs, k, h1, h2, h3⟩ := addGcdaBytes_prefix g st st' (List.take_prefix n bs) h
    exact .inr (.inr ⟨st', p, cs, recs, k, rfl, h1, h2, h3⟩)
  | err k => exact .inl ⟨k, rfl⟩
  | crash s =>
    have := (C14_gcda_add_crash_only_overflow g hg st (bs.take n)).1 s h
    exact .inr (.inl (this ▸ rfl))
  | diverge => exact absurd h (C14_gcda_add_crash_only_overflow g hg st (bs.take n)).2

/-- the same for notes of any shape (no well-formedness needed): an accepted truncated gcda is the
result of a record prefix -/
theorem C14_truncated_gcda_ok (g : Notes) (st st' : State) (bs : List Nat) (n : Nat)
    (h : addGcdaBytes g st (bs.take n) = .ok st') :
    ∃ p cs recs k, readGcda bs = .ok p ∧ p.rest = .ok (cs, recs) ∧
      addGcda g st ⟨p.version, cs, recs.take k⟩ = .ok st' :=
  addGcdaBytes_prefix g st st' (List.take_prefix n bs) h

/-! ### sizes -/

/-- The gcda record stream is linear in the input: the number of records plus the number of
counters they hold is at most the number of bytes. -/
theorem C14_gcda_records_linear (le : Bool) (version fuel : Nat) (hf : Bool) (bs : List Nat) :
    ((parseDRecs le version fuel hf bs).map DRec.size).sum ≤ bs.length :=
  parseDRecs_size le version fuel hf bs

/-- The gcno record stream without the block tables is linear in the input: the number of
records plus the bytes of all names, the number of arcs and of line items is at most the
number of bytes; and every BLOCKS record announces at most as many blocks as there are bytes. -/
theorem C14_gcno_records_linear (le : Bool) (version blen fuel total : Nat) (hf : Bool)
    (bs : List Nat) :
    ((parseRecs le version blen fuel total hf bs).map NRec.size).sum ≤ bs.length ∧
    ∀ n, NRec.blocks n ∈ parseRecs le version blen fuel total hf bs → n ≤ bs.length :=
  ⟨parseRecs_size le version blen fuel total hf bs,
   fun n h => parseRecs_blocks le version blen fuel total hf bs n h⟩

/-- **The block tables are linear in the input** (since the fix of finding
C14-gcno-repeated-blocks-alloc, /repo ed627d5: `read_functions` keeps the running total of the
blocks appended by BLOCKS records and rejects the file once it exceeds the buffer length): whenever
`read_gcno` accepts a byte string, all functions together have at most as many blocks as the file
has bytes. With `C14_gcno_records_linear` the whole shape is linear in the input. -/
theorem C14_gcno_blocks_linear (bs : List Nat) (g : Notes) (h : readBuild bs = .ok g) :
    (g.funcs.map fun f => f.blocks.length).sum ≤ bs.length :=
  readBuild_totalBlocks h

/-- **The known finding C14-gcno-counter-overflow is reachable**: two runs whose gcda carry the
counter 2^64-1 for the same arc make `Gcno::compute` crash by overflow (a panic in a debug build):
`overflow` cannot be removed from the statements above. -/
theorem C14_gcno_counter_overflow_reachable :
    ∃ gcno gcdas, computeBytes gcno gcdas true = .crash .overflow :=
  ⟨tinyGcno, [tinyGcda 255 255, tinyGcda 255 255],
   Outcome.eq_crash_of (by decide +kernel)⟩

/-! ### non-vacuity: closed files (`tinyGcno`: format 4.2, one function, two blocks, one counted
arc; `tinyGcda lo hi`: its 48-byte gcda, the counter in bytes 36..44) -/

/-- real inputs meet the hypotheses: the pair is read and computed, the notes are built -/
example : (computeBytes tinyGcno [tinyGcda 1 0] true).isOk = true := by decide +kernel
example : (computeBytes tinyGcno [tinyGcda 1 0, tinyGcda 2 0] true).isOk = true := by decide +kernel
example : builtBlocks tinyGcno = some [2] := by decide +kernel
example : (readAndStop tinyGcno [tinyGcda 1 0]).isOk = true := by decide +kernel
/-- a line spread over two blocks with a loop: its count goes through `get_line_count` and the
cycle search (one entry + three rounds of the self loop) -/
example : lineOf (computeBytes loopGcno [loopGcda] true) 5 = some 4 := by decide +kernel
example : lineOf (computeBytes loopGcno [loopGcda] true) 6 = some 4 := by decide +kernel
/-- the gcda cut in the middle of its counter: an error -/
example : (addTo tinyGcno ((tinyGcda 1 0).take 40)).errKind? = some .short := by decide +kernel
/-- the gcda cut after its function record, two bytes into the next tag: accepted, with the
records read so far (the loop stops silently) -/
example : (addTo tinyGcno ((tinyGcda 1 0).take 30)).isOk = true := by decide +kernel
/-- the gcda cut exactly at the record boundary: `skip!` is strict, an error -/
example : (addTo tinyGcno ((tinyGcda 1 0).take 28)).errKind? = some .short := by decide +kernel
/-- the former witness of the block-table finding (152 bytes, six BLOCKS records announcing 204
blocks) is now rejected: "Unexpected total number of blocks" -/
example : blocksWitness.length = 152 ∧ (readBuild blocksWitness).errKind? = some .blockCount :=
  ⟨blocksWitness_length, blocksWitness_rejected⟩

end Grcov.Props.C14
