/-
C14, part Gcno — the gcno/gcda binary reader (`Gcno::compute` of src/reader.rs, model
`Grcov.Gcno.computeBytes` of Gcno.lean + Gcno/Bin.lean, tied to the real code by the C15/C08/C14
harnesses).  For ALL byte strings, both endiannesses, all versions:

* the byte readers (`readGcno`, `readGcda`) never crash and never run out of fuel;
* `build` (`read_gcno`) never crashes; what it builds is well-formed (arc endpoints are block
  numbers, adjacency lists hold arc ids) – the fact every index expression downstream relies on;
* `read_gcda` on any bytes, `count_on_tree`/`propagate_counts` on ANY well-formed shape (no
  spanning-tree assumption – a corrupt file has arbitrary tree flags): the only crash is the known
  finding C14-gcno-counter-overflow (u64 sums), and the depth fuel `propFuel` is never exhausted;
* `finalize`: every index is in range (`idxBlock`, `idxArc`, `idxFunc`, `idxList`, `noArcs`,
  `str` are unreachable everywhere);
* a truncated gcda yields an error, the overflow crash, or exactly the state after a prefix of the
  complete records of the whole file; the record stream of the cut file never holds a counter
  that is not in the file (`TruncOf`);
* sizes: the record streams are linear in the input, except for the number of blocks announced by
  BLOCKS records of format ≥ 8 (each bounded by the bytes left, but a file may repeat the record:
  see `C14_gcno_blocks_not_linear` – finding C14-gcno-repeated-blocks-alloc).

NOT proved (named here, tied and measured only): for the cycle search of `get_cycles_count`
(`lookForCircuit`, a variant of Johnson's algorithm) two outcomes are not excluded by a theorem:
`crash underflow` in `get_cycle_count` (needs: no arc twice on the path) and exhaustion of
`circuitFuel` (needs: no block twice on the stack).  Both follow from the stack invariant of
Johnson's algorithm ("a block on the stack stays blocked"), which is not proved for this variant;
an exhaustive search over all digraphs with ≤ 4 blocks × all block subsets and 300 000 random
multigraphs with ≤ 7 blocks found no violation.  Hence `C14_gcno_bytes_crash_sites_partial`
allows `underflow` next to `overflow`, and there is no `computeBytes … ≠ diverge` theorem; the
full statements hold for everything before `finalize` (`C14_gcno_until_stop`).
-/
import GrcovModel.Lemmas.GcnoSafeTop
import GrcovModel.Lemmas.GcnoSafeSize
namespace Grcov.Props.C14
open Grcov Grcov.Gcno Grcov.Gcno.Outcome

/-- No byte string makes the gcno byte reader crash or run out of fuel: the outcome of
`readGcno` is a record stream or an error, for every version and both byte orders. -/
theorem C14_gcno_read_never_crashes (bs : List Nat) :
    (∀ s, readGcno bs ≠ .crash s) ∧ readGcno bs ≠ .diverge :=
  ⟨fun _ => (readGcno_sat bs).ne_crash id, (readGcno_sat bs).ne_diverge⟩

/-- No byte string makes the gcda byte reader crash or run out of fuel – neither in the header
nor in the record loop. -/
theorem C14_gcda_read_never_crashes (bs : List Nat) :
    (∀ s, readGcda bs ≠ .crash s) ∧ readGcda bs ≠ .diverge ∧
    ∀ p, readGcda bs = .ok p → (∀ s, p.rest ≠ .crash s) ∧ p.rest ≠ .diverge :=
  ⟨fun _ => (readGcda_sat bs).ne_crash id, (readGcda_sat bs).ne_diverge,
   fun _ hp => ⟨fun _ => ((readGcda_sat bs).of_ok hp).ne_crash id,
     ((readGcda_sat bs).of_ok hp).ne_diverge⟩⟩

/-- `read_gcno` as a whole (bytes → shape) never crashes and never runs out of fuel, and the
shape it returns is well-formed. -/
theorem C14_gcno_build_never_crashes (gcno : List Nat) :
    (∀ s, ((readGcno gcno).bind fun x => build x.1 x.2.1 x.2.2) ≠ .crash s) ∧
    ((readGcno gcno).bind fun x => build x.1 x.2.1 x.2.2) ≠ .diverge ∧
    ∀ g, ((readGcno gcno).bind fun x => build x.1 x.2.1 x.2.2) = .ok g → g.WF :=
  ⟨fun _ => (readBuild_sat gcno).ne_crash id, (readBuild_sat gcno).ne_diverge,
   fun _ hg => (readBuild_sat gcno).of_ok hg⟩

/-- `build` on ANY record list without crash markers (the byte reader never emits one) never
crashes. -/
theorem C14_gcno_build_records (version checksum : Nat) (recs : List NRec)
    (h : ∀ r ∈ recs, r.notCrash) :
    (∀ s, build version checksum recs ≠ .crash s) ∧ build version checksum recs ≠ .diverge :=
  ⟨fun _ => (build_sat version checksum h).ne_crash id, (build_sat version checksum h).ne_diverge⟩

/-- `Gcno::read(Gcda)` on any bytes against a well-formed shape: an error, a new state, or the
overflow crash (known finding); never another crash, never out of fuel. -/
theorem C14_gcda_add_crash_only_overflow (g : Notes) (hg : g.WF) (st : State) (bs : List Nat) :
    (∀ s, addGcdaBytes g st bs = .crash s → s = .overflow) ∧ addGcdaBytes g st bs ≠ .diverge :=
  ⟨fun s h => Classical.byContradiction fun hs => (addGcdaBytes_sat hg st bs).ne_crash hs h,
   (addGcdaBytes_sat hg st bs).ne_diverge⟩

/-- `stop` (`count_on_tree` / `propagate_counts`) on any well-formed shape and any counters: only
the overflow crash; the depth fuel `propFuel` is never exhausted, whatever the tree flags are. -/
theorem C14_gcno_stop_crash_only_overflow (g : Notes) (hg : g.WF) (st : State) :
    (∀ s, stop g st = .crash s → s = .overflow) ∧ stop g st ≠ .diverge :=
  ⟨fun s h => Classical.byContradiction fun hs => (stop_sat hg st).ne_crash hs h,
   (stop_sat hg st).ne_diverge⟩

/-- **Everything before `finalize`, for all byte strings**: reading the notes, building the shape,
reading any number of gcda buffers and `stop` end in a value or an error; the only crash is the
overflow finding; no fuel runs out. -/
theorem C14_gcno_until_stop (gcno : List Nat) (gcdas : List (List Nat)) :
    (∀ s, readAndStop gcno gcdas = .crash s → s = .overflow) ∧ readAndStop gcno gcdas ≠ .diverge :=
  ⟨fun s h => Classical.byContradiction fun hs => (readAndStop_sat gcno gcdas).ne_crash hs h,
   (readAndStop_sat gcno gcdas).ne_diverge⟩

/-- `finalize` on well-formed functions: no index is ever out of range; a crash is the overflow
finding or `underflow` of the cycle search (not excluded, see the head of this file). -/
theorem C14_gcno_finalize_sites_partial (branch : Bool) (fs : List (Func × Cnt))
    (h : ∀ fc ∈ fs, fc.1.WF) (s : Site) (hc : finalize branch fs = .crash s) :
    s = .overflow ∨ s = .underflow :=
  Classical.byContradiction fun hs => (finalize_sat branch h).ne_crash hs hc

/-- **`Gcno::compute` on all byte strings** (`computeBytes` is by definition the part before
`finalize` followed by `finalize`): no crash at an index, an `unwrap`, a string or an empty arc
list; what remains is the overflow finding and – not excluded – `underflow` in the cycle search. -/
theorem C14_gcno_bytes_crash_sites_partial (gcno : List Nat) (gcdas : List (List Nat)) (branch : Bool)
    (s : Site) (hc : computeBytes gcno gcdas branch = .crash s) : s = .overflow ∨ s = .underflow :=
  Classical.byContradiction fun hs => (computeBytes_sat gcno gcdas branch).ne_crash hs hc

theorem C14_gcno_compute_split (gcno : List Nat) (gcdas : List (List Nat)) (branch : Bool) :
    computeBytes gcno gcdas branch = (readAndStop gcno gcdas).bind (finalize branch) :=
  computeBytes_eq gcno gcdas branch

/-! ### truncated gcda -/

/-- **The record stream of a truncated gcda.** Cut a gcda buffer anywhere. If the header of the
cut buffer can be read, so can the header of the whole buffer (same version, same checksum), and
the record stream of the cut buffer is `TruncOf` the record stream of the whole one: the same
records one by one, ending silently (a prefix of the complete records) or with the marker
`fail short`, possibly after a counter record that holds a prefix of the counters of the same
record of the whole file. -/
theorem C14_truncated_gcda_records (bs : List Nat) (n : Nat) (p' : GcdaBytes)
    (h : readGcda (bs.take n) = .ok p') :
    ∃ p, readGcda bs = .ok p ∧ p.version = p'.version ∧
      ∀ cs recs', p'.rest = .ok (cs, recs') → ∃ recs, p.rest = .ok (cs, recs) ∧ TruncOf recs' recs :=
  readGcda_prefix (List.take_prefix n bs) h

/-- **Never counts that were not in the file**: every counter record of the truncated stream is,
at the same position, a counter record of the whole stream, and its counters are a prefix of
that record's counters; and the truncated stream is a prefix of the complete records unless it
carries the failure marker. -/
theorem C14_truncated_gcda_counters (t f : List DRec) (h : TruncOf t f) :
    ((∃ k, t = f.take k) ∨ DRec.fail .short ∈ t) ∧
    ∀ i len vs', t[i]? = some (.arcs len vs') → ∃ vs, f[i]? = some (.arcs len vs) ∧ vs' <+: vs :=
  ⟨h.take_or_fail, h.counters⟩

/-- **A truncated gcda (the artifact a killed test process leaves behind)** against well-formed
notes yields an error, the overflow crash, or exactly the state reached after a prefix `recs.take k`
of the complete records `recs` of the whole file – never anything else. -/
theorem C14_truncated_gcda (g : Notes) (hg : g.WF) (st : State) (bs : List Nat) (n : Nat) :
    (∃ k, addGcdaBytes g st (bs.take n) = .err k) ∨
    addGcdaBytes g st (bs.take n) = .crash .overflow ∨
    ∃ st' p cs recs k, addGcdaBytes g st (bs.take n) = .ok st' ∧ readGcda bs = .ok p ∧
      p.rest = .ok (cs, recs) ∧ addGcda g st ⟨p.version, cs, recs.take k⟩ = .ok st' := by
  cases h : addGcdaBytes g st (bs.take n) with
  | ok st' =>
    obtain ⟨p, cs, recs, k, h1, h2, h3⟩ := addGcdaBytes_prefix g st st' (List.take_prefix n bs) h
    exact .inr (.inr ⟨st', p, cs, recs, k, rfl, h1, h2, h3⟩)
  | err k => exact .inl ⟨k, rfl⟩
  | crash s =>
    have := (C14_gcda_add_crash_only_overflow g hg st (bs.take n)).1 s h
    exact .inr (.inl (this ▸ rfl))
  | diverge => exact absurd h (C14_gcda_add_crash_only_overflow g hg st (bs.take n)).2

/-- the same for notes of any shape (no well-formedness needed): an accepted truncated gcda is the
result of a record prefix -/
theorem C14_truncated_gcda_ok (g : Notes) (st st' : State) (bs : List Nat) (n : Nat)
    (h : addGcdaBytes g st (bs.take n) = .ok st') :
    ∃ p cs recs k, readGcda bs = .ok p ∧ p.rest = .ok (cs, recs) ∧
      addGcda g st ⟨p.version, cs, recs.take k⟩ = .ok st' :=
  addGcdaBytes_prefix g st st' (List.take_prefix n bs) h

/-! ### sizes -/

/-- The gcda record stream is linear in the input: the number of records plus the number of
counters they hold is at most the number of bytes. -/
theorem C14_gcda_records_linear (le : Bool) (version fuel : Nat) (hf : Bool) (bs : List Nat) :
    ((parseDRecs le version fuel hf bs).map DRec.size).sum ≤ bs.length :=
  parseDRecs_size le version fuel hf bs

/-- The gcno record stream without the block tables is linear in the input: the number of
records plus the bytes of all names, the number of arcs and of line items is at most the
number of bytes; and every BLOCKS record announces at most as many blocks as there are bytes. -/
theorem C14_gcno_records_linear (le : Bool) (version fuel : Nat) (hf : Bool) (bs : List Nat) :
    ((parseRecs le version fuel hf bs).map NRec.size).sum ≤ bs.length ∧
    ∀ n, NRec.blocks n ∈ parseRecs le version fuel hf bs → n ≤ bs.length :=
  ⟨parseRecs_size le version fuel hf bs, fun n h => parseRecs_blocks le version fuel hf bs n h⟩

/-- **Finding C14-gcno-repeated-blocks-alloc**: the block table is NOT linear in the input. A
152-byte gcno (format 12, one function, six BLOCKS records each announcing as many blocks as bytes
are left) builds a function with 204 blocks; with `k` such records the table has about `6 k²`
blocks for `12 k` bytes. -/
theorem C14_gcno_blocks_not_linear :
    ¬ ∀ (bs : List Nat) (g : Notes),
        ((readGcno bs).bind fun x => build x.1 x.2.1 x.2.2) = .ok g →
        ∀ f ∈ g.funcs, f.blocks.length ≤ bs.length := by
  intro h
  have := h blocksWitness _ blocksWitness_builds _ (List.mem_singleton.2 rfl)
  exact absurd this (by decide)

/-! ### non-vacuity -/

/-- a valid little gcno (format 4.2, one function, two blocks, one counted arc) and its gcda: the
hypotheses of the theorems above are met by real inputs, and the overflow crash is reachable
(two runs with a counter of 2^64-1): `overflow` cannot be removed from the statements -/
example : (computeBytes tinyGcno [tinyGcda 1 0] true).isOk = true := by decide +kernel
example : computeBytes tinyGcno [tinyGcda 255 255, tinyGcda 255 255] true = .crash .overflow := by
  decide +kernel
example : ∃ g, ((readGcno tinyGcno).bind fun x => build x.1 x.2.1 x.2.2) = .ok g ∧ g.funcs.length = 1 :=
  ⟨_, tinyGcno_builds, rfl⟩
/-- the gcda cut in the middle of its counter: an error -/
example : ∃ g, ((readGcno tinyGcno).bind fun x => build x.1 x.2.1 x.2.2) = .ok g ∧
    addGcdaBytes g State.zero ((tinyGcda 1 0).take 30) = .err .short :=
  ⟨_, tinyGcno_builds, by decide +kernel⟩
/-- the gcda cut after its function record: accepted, with the records read so far -/
example : ∃ g, ((readGcno tinyGcno).bind fun x => build x.1 x.2.1 x.2.2) = .ok g ∧
    (addGcdaBytes g State.zero ((tinyGcda 1 0).take 23)).isOk = true :=
  ⟨_, tinyGcno_builds, by decide +kernel⟩

end Grcov.Props.C14
