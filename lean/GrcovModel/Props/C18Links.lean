/-
C18 — part Links (second review, item 21): where the links of the index pages lead.

`C18_row_href_relative` says that a row link without `--abs-link-prefix` is a RELATIVE reference
whatever the name is (no scheme). This file says where that reference leads once a user agent has
resolved it and a server has decoded it (model `GrcovModel/Writers/Links.lean`, RFC 3986):

* for names without `#`, `?`, `%` (file names never contain `/`) the link of a file row leads to
  the page of that file and the link of a directory row to the index of that directory
  (`C18_row_link_target_partial`);
* in general it does NOT (`C18_row_link_target_false`): the name is copied into the reference
  without percent-encoding, so `p%41.c` links to the page of ANOTHER file (`pA.c`), `x#y.c` and
  `q?z.c` link to files that do not exist (the rest of the name becomes fragment / query), and a
  directory key with `%2e%2e%2f` makes the server open a path outside the directory
  (`C18_row_link_path_control`) – no script runs, but the name controls the path;
* with the proposed fix (`item | urlencode_strict`) every file row leads to its page, for every
  name (`C18_row_link_fixed`). Finding: C03-html-links-not-urlencoded.
-/
import GrcovModel.Lemmas.WritersLinks
import GrcovModel.Lemmas.Escape
namespace Grcov.Props.C18
open Grcov.Escape Grcov.Writers.Links

/-- Full statement: the link of the row of file `item` in the index of directory `loc` leads to
the page of `item` in that directory. -/
def C18_row_link_target_stmt : Prop :=
  ∀ (loc : List Bytes) (item : Bytes), 47 ∉ item → servedPath loc (fileRowUrl none item) = pagePath loc item

/-- `p%41.c` -/
def witPct : Bytes := [112, 37, 52, 49, 46, 99]
/-- `x#y.c` -/
def witHash : Bytes := [120, 35, 121, 46, 99]
/-- `q?z.c` -/
def witQuery : Bytes := [113, 63, 122, 46, 99]

/-- False of the templates: the row of `p%41.c` leads to `pA.c.html` – the page of the file
`pA.c`, another file's coverage under this file's name; the row of `x#y.c` leads to the file `x`
(fragment `y.c.html`), the row of `q?z.c` to the file `q` (query `z.c.html`): dead links. -/
theorem C18_row_link_target_false :
    ¬ C18_row_link_target_stmt ∧
    servedPath [] (fileRowUrl none witPct) = pagePath [] [112, 65, 46, 99] ∧
    servedPath [] (fileRowUrl none witHash) = [120] ∧
    (splitRef (fileRowUrl none witHash)).fragment = some ([121, 46, 99] ++ dotHtml) ∧
    servedPath [] (fileRowUrl none witQuery) = [113] ∧
    (splitRef (fileRowUrl none witQuery)).query = some ([122, 46, 99] ++ dotHtml) := by
  refine ⟨fun h => ?_, by decide, by decide, by decide, by decide, by decide⟩
  have := h [] witPct (by decide)
  revert this; decide

/-- True under exactly the guard the witnesses violate: a file name without `#`, `?`, `%` (and,
as every file name, without `/`) leads to its own page from the index of ANY directory; a
directory key without `#`, `?`, `%` whose segments are not `.` / `..` leads to that directory's
index from the top-level index. -/
theorem C18_row_link_target_partial :
    (∀ (loc : List Bytes) (item : Bytes), plainName item = true →
      servedPath loc (fileRowUrl none item) = pagePath loc item) ∧
    (∀ item : Bytes, plainDirKey item = true → servedPath [] (dirRowUrl none item) = dirIndexPath item) :=
  ⟨servedPath_fileRow, servedPath_dirRow⟩

/-- The name controls the path a server opens: the directory key `a/%2e%2e%2f%2e%2e%2fetc` (a
legal directory name on disk: no `.`/`..` component, no `/` inside `%2e%2e%2f…`) gives a row whose
link a server decodes to `a/../../etc/index.html`. -/
theorem C18_row_link_path_control :
    servedPath [] (dirRowUrl none
      [97, 47, 37, 50, 101, 37, 50, 101, 37, 50, 102, 37, 50, 101, 37, 50, 101, 37, 50, 102, 101, 116, 99])
      = [97, 47, 46, 46, 47, 46, 46, 47, 101, 116, 99, 47] ++ indexHtml := by decide

/-- The proposed fix (`"./" ~ item | urlencode_strict ~ ".html"`): for EVERY file name (bytes of
a UTF-8 string) the link leads to the page of that file – `urlencode_strict` leaves only
unreserved characters and `%XY`, which the server decodes back to the name. -/
theorem C18_row_link_fixed (loc : List Bytes) (item : Bytes) (h : ∀ b ∈ item, b < 256) :
    servedPath loc (fileRowUrlFixed item) = pagePath loc item ∧
    hasScheme (fileRowUrlFixed item) = false := by
  refine ⟨servedPath_fileRowFixed loc item h, ?_⟩
  simp only [fileRowUrlFixed, List.append_assoc]
  exact hasScheme_dotSlash _

/-- non-vacuity: ordinary names satisfy the guards; the fixed link of the witness leads home -/
example : plainName [109, 97, 105, 110, 46, 99] = true ∧ plainDirKey [115, 114, 99, 47, 108, 105, 98] = true ∧
    plainName witPct = false ∧ plainName witHash = false ∧ plainName witQuery = false := by decide
example : servedPath [[115, 114, 99]] (fileRowUrl none [109, 97, 105, 110, 46, 99])
    = [115, 114, 99, 47, 109, 97, 105, 110, 46, 99] ++ dotHtml := by decide
example : fileRowUrlFixed witPct = [46, 47, 112, 37, 50, 53, 52, 49, 46, 99] ++ dotHtml ∧
    servedPath [] (fileRowUrlFixed witPct) = pagePath [] witPct := by decide

end Grcov.Props.C18
