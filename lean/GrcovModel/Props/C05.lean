/-
C05 — LCOV fixed point: grcov's own lcov report re-imports to the same report.
Record-level theorems: the records `output_lcov` writes for a result, applied by the reader's
record semantics (`brdaFold`, `daFold`: the functions the byte machine `Lcov.parse` calls, see
Props/C04.lean), rebuild exactly the maps they were written from; hence export∘import is the
identity on observables and iterating it changes nothing. `C05_roundtrip_bytes` is the byte-level statement (writer model = `printLcov`, tied to
`output_lcov` byte for byte by the correspondence run); the `…_partial` theorems are the
record-layer facts it is built from (kept: they also cover records re-sorted by other tools).
-/
import GrcovModel.Lemmas.LcovWriter
import GrcovModel.Props.C04
namespace Grcov.Props.C05
open Grcov AList Grcov.Lcov Grcov.Lcov.Spec

/-- One BRDA record per vector slot, numbered from 0 (`'-'`/`1`), re-imported in any order,
rebuilds every branch vector: same length, same slots. -/
theorem C05_branches_roundtrip_partial (bs : List (Nat × List Bool)) (hb : NodupKeys bs) (l : Nat) :
    vecAt (brdaFold [] (brdaRecords bs)) l = vecAt bs l :=
  brda_roundtrip bs hb l

/-- … also when the records are read in a different order (another tool re-sorted the file) -/
theorem C05_branches_roundtrip_any_order_partial (bs : List (Nat × List Bool)) (hb : NodupKeys bs)
    (rs : List (Nat × Nat × Bool)) (p : rs.Perm (brdaRecords bs)) (l : Nat) :
    vecAt (brdaFold [] rs) l = vecAt bs l := by
  rw [Grcov.Props.C04.C04_branch_order_irrelevant rs _ p]; exact brda_roundtrip bs hb l

/-- One DA record per line with the full 64-bit count rebuilds the line map exactly. -/
theorem C05_lines_roundtrip_partial (ls : List (Nat × Nat)) (hn : NodupKeys ls)
    (hfit : ∀ kv ∈ ls, kv.2 ≤ U64MAX) (l : Nat) :
    get? (daFold {} ls).cur.lines l = get? ls l :=
  da_roundtrip ls hn hfit l

/-- `k` export/import round trips -/
def iter {α : Type} (rt : α → α) : Nat → α → α
  | 0, a => a
  | k + 1, a => iter rt k (rt a)

/-- Iterating an export/import that preserves a map pointwise changes nothing further: if one
round trip is the identity on observables, so are k+1 of them (induction on k). -/
theorem C05_fixed_point {α : Type} (obs : α → α → Prop) (refl : ∀ a, obs a a)
    (trans : ∀ a b c, obs a b → obs b c → obs a c) (rt : α → α)
    (h : ∀ a, obs (rt a) a) (k : Nat) (a : α) : obs (iter rt (k + 1) a) (rt a) := by
  induction k generalizing a with
  | zero => exact refl _
  | succ k ih =>
    show obs (iter rt (k + 1) (rt a)) (rt a)
    exact trans _ _ _ (ih (rt a)) (h (rt a))

/-- **Round trip at byte level.** For every result set that `output_lcov` can write (unique keys,
u64 counts, u32 line numbers and start lines, names and paths without line terminators, names valid
UTF-8) the bytes of the written report – `TN:`, then per file `SF`, `FN…`, `FNDA…`, `FNF/FNH`,
one `BRDA` per slot (`1`/`-`), `BRF/BRH`, `DA…`, `LF/LH`, `end_of_record`, all numbers in decimal –
are read back by the reader, with branch parsing on, to one record per file, in order. -/
theorem C05_roundtrip_bytes (rs : List (Bytes × Cov)) (h : ∀ pc ∈ rs, WriterOK pc.1 pc.2) :
    parse true (printLcov rs) = .ok (rs.map fun pc => (utf8Lossy pc.1, rtCov pc.2)) :=
  parse_printLcov rs h

/-- … and each re-imported record carries the same data as the one written: the same count for
every line, the same vector for every branch line, the same start line and executed flag for
every function (and nothing else). -/
theorem C05_roundtrip_same_data (c : Cov) (h : c.WF) : SameData (rtCov c) c := rtCov_same c h

/-- non-vacuity: a concrete file with a saturated count, a gap in the branch lines and a non-ASCII
function name is in the writer's domain -/
example : WriterOK [97, 46, 99]
    { lines := [(1, U64MAX), (7, 0)], branches := [(3, [false, true])],
      functions := [([195, 169], ⟨4, true⟩)] } := by
  refine ⟨⟨?_, ?_, ?_, ?_⟩, ?_, ?_, ?_, ?_⟩ <;>
    simp [NodupKeys, keys, U64MAX, U32MAX, noEol, LF, CR] <;> decide

/-- non-vacuity: a branch map with a gap-free and an all-false vector survives the round trip -/
example : vecAt (brdaFold [] (brdaRecords [(3, [false, true, false]), (9, [false])])) 3 = [false, true, false]
    ∧ vecAt (brdaFold [] (brdaRecords [(3, [false, true, false]), (9, [false])])) 9 = [false] := by
  decide

end Grcov.Props.C05
