/-
C05 — LCOV fixed point: grcov's own lcov report re-imports to the same report.
Record-level theorems: the records `output_lcov` writes for a result, applied by the reader's
record semantics (`brdaFold`, `daFold`: the functions the byte machine `Lcov.parse` calls, see
Props/C04.lean), rebuild exactly the maps they were written from; hence export∘import is the
identity on observables and iterating it changes nothing. The byte layer of the writer
(decimal printing, the FN/FNDA lines) is tied to `output_lcov`/`parse_lcov` by the
correspondence run (in-process round trip and CLI chains r1 → r2 → r3), and is named `…_partial`
below where a statement is about the record layer only.
-/
import GrcovModel.Lemmas.Lcov
import GrcovModel.Props.C04
namespace Grcov.Props.C05
open Grcov AList Grcov.Lcov

/-- One BRDA record per vector slot, numbered from 0 (`'-'`/`1`), re-imported in any order,
rebuilds every branch vector: same length, same slots. -/
theorem C05_branches_roundtrip_partial (bs : List (Nat × List Bool)) (hb : NodupKeys bs) (l : Nat) :
    vecAt (brdaFold [] (brdaRecords bs)) l = vecAt bs l :=
  brda_roundtrip bs hb l

/-- … also when the records are read in a different order (another tool re-sorted the file) -/
theorem C05_branches_roundtrip_any_order_partial (bs : List (Nat × List Bool)) (hb : NodupKeys bs)
    (rs : List (Nat × Nat × Bool)) (p : rs.Perm (brdaRecords bs)) (l : Nat) :
    vecAt (brdaFold [] rs) l = vecAt bs l := by
  rw [Grcov.Props.C04.C04_branch_order_irrelevant rs _ p]; exact brda_roundtrip bs hb l

/-- One DA record per line with the full 64-bit count rebuilds the line map exactly. -/
theorem C05_lines_roundtrip_partial (ls : List (Nat × Nat)) (hn : NodupKeys ls)
    (hfit : ∀ kv ∈ ls, kv.2 ≤ U64MAX) (l : Nat) :
    get? (daFold {} ls).cur.lines l = get? ls l :=
  da_roundtrip ls hn hfit l

/-- `k` export/import round trips -/
def iter {α : Type} (rt : α → α) : Nat → α → α
  | 0, a => a
  | k + 1, a => iter rt k (rt a)

/-- Iterating an export/import that preserves a map pointwise changes nothing further: if one
round trip is the identity on observables, so are k+1 of them (induction on k). -/
theorem C05_fixed_point {α : Type} (obs : α → α → Prop) (refl : ∀ a, obs a a)
    (trans : ∀ a b c, obs a b → obs b c → obs a c) (rt : α → α)
    (h : ∀ a, obs (rt a) a) (k : Nat) (a : α) : obs (iter rt (k + 1) a) (rt a) := by
  induction k generalizing a with
  | zero => exact refl _
  | succ k ih =>
    show obs (iter rt (k + 1) (rt a)) (rt a)
    exact trans _ _ _ (ih (rt a)) (h (rt a))

/-- non-vacuity: a branch map with a gap-free and an all-false vector survives the round trip -/
example : vecAt (brdaFold [] (brdaRecords [(3, [false, true, false]), (9, [false])])) 3 = [false, true, false]
    ∧ vecAt (brdaFold [] (brdaRecords [(3, [false, true, false]), (9, [false])])) 9 = [false] := by
  decide

end Grcov.Props.C05
