/-
C05 — LCOV fixed point: grcov's own lcov report re-imports to the same report.
Record-level theorems: the records `output_lcov` writes for a result, applied by the reader's
record semantics (`brdaFold`, `daFold`: the functions the byte machine `Lcov.parse` calls, see
Props/C04.lean), rebuild exactly the maps they were written from; hence export∘import is the
identity on observables and iterating it changes nothing (`C05_iterate`: from the first re-import on
the result set is literally fixed, and `C05_second_export_equals_first`: the second export is the
first export byte for byte, summary lines included). `C05_roundtrip_bytes` is the byte-level statement (writer model = `printLcov`, tied to
`output_lcov` byte for byte by the correspondence run); the `…_partial` theorems are the
record-layer facts it is built from (kept: they also cover records re-sorted by other tools).
-/
import GrcovModel.Lemmas.LcovWriter
import GrcovModel.Lemmas.LcovIterate
import GrcovModel.Props.C04
import GrcovModel.Props.C05Rewrite
import GrcovModel.Props.C05Cli
import GrcovModel.Props.C05Run
namespace Grcov.Props.C05
open Grcov AList Grcov.Lcov Grcov.Lcov.Spec

/-- One BRDA record per vector slot, numbered from 0 (`'-'`/`1`), re-imported in any order,
rebuilds every branch vector: same length, same slots. -/
theorem C05_branches_roundtrip_partial (bs : List (Nat × List Bool)) (hb : NodupKeys bs) (l : Nat) :
    vecAt (brdaFold [] (brdaRecords bs)) l = vecAt bs l :=
  brda_roundtrip bs hb l

/-- … also when the records are read in a different order (another tool re-sorted the file) -/
theorem C05_branches_roundtrip_any_order_partial (bs : List (Nat × List Bool)) (hb : NodupKeys bs)
    (rs : List (Nat × Nat × Bool)) (p : rs.Perm (brdaRecords bs)) (l : Nat) :
    vecAt (brdaFold [] rs) l = vecAt bs l := by
  rw [Grcov.Props.C04.C04_branch_order_irrelevant rs _ p]; exact brda_roundtrip bs hb l

/-- One DA record per line with the full 64-bit count rebuilds the line map exactly. -/
theorem C05_lines_roundtrip_partial (ls : List (Nat × Nat)) (hn : NodupKeys ls)
    (hfit : ∀ kv ∈ ls, kv.2 ≤ U64MAX) (l : Nat) :
    get? (daFold {} ls).cur.lines l = get? ls l :=
  da_roundtrip ls hn hfit l

/-- `k` export/import round trips -/
def iter {α : Type} (rt : α → α) : Nat → α → α
  | 0, a => a
  | k + 1, a => iter rt k (rt a)

/-- Iterating an export/import that preserves a map pointwise changes nothing further: if one
round trip is the identity on observables, so are k+1 of them (induction on k). -/
theorem C05_fixed_point {α : Type} (obs : α → α → Prop) (refl : ∀ a, obs a a)
    (trans : ∀ a b c, obs a b → obs b c → obs a c) (rt : α → α)
    (h : ∀ a, obs (rt a) a) (k : Nat) (a : α) : obs (iter rt (k + 1) a) (rt a) := by
  induction k generalizing a with
  | zero => exact refl _
  | succ k ih =>
    show obs (iter rt (k + 1) (rt a)) (rt a)
    exact trans _ _ _ (ih (rt a)) (h (rt a))

/-- **Round trip at byte level.** For every result set that `output_lcov` can write (unique keys,
u64 counts, u32 line numbers and start lines, names and paths without line terminators, names valid
UTF-8) the bytes of the written report – `TN:`, then per file `SF`, `FN…`, `FNDA…`, `FNF/FNH`,
one `BRDA` per slot (`1`/`-`), `BRF/BRH`, `DA…`, `LF/LH`, `end_of_record`, all numbers in decimal –
are read back by the reader, with branch parsing on, to one record per file, in order. -/
theorem C05_roundtrip_bytes (rs : List (Bytes × Cov)) (h : ∀ pc ∈ rs, WriterOK pc.1 pc.2) :
    parse true (printLcov rs) = .ok (rs.map fun pc => (utf8Lossy pc.1, rtCov pc.2)) :=
  parse_printLcov rs h

/-- … and each re-imported record carries the same data as the one written: the same count for
every line, the same vector for every branch line, the same start line and executed flag for
every function (and nothing else). -/
theorem C05_roundtrip_same_data (c : Cov) (h : c.WF) : SameData (rtCov c) c := rtCov_same c h

/-! ### iterating the round trip -/

/-- What the reader rebuilds is, list for list (order of the entries included), the record that was
written, minus the branch lines that carry no branch at all (for which nothing is written). -/
theorem C05_reimported_record (c : Cov) (h : c.WF) : rtCov c = dropEmpty c := rtCov_eq c h

/-- **The second export equals the first, byte for byte** – every SF, FN, FNDA, BRDA, DA line and
every summary line (FNF, FNH, BRF, BRH, LF, LH), in the same order. (`printLcov` emits the
function records in the order of the record's function list, whatever it is; `output_lcov` lists
them in name order since fix 73c9152 – `Cli.outputLcov`, `C05_functions_listed_in_name_order` –
and the correspondence run checks the bytes of the second export for every report.) -/
theorem C05_second_export_equals_first (rs : List (Bytes × Cov)) (h : ReportOK rs) :
    printLcov (roundtrip rs) = printLcov rs :=
  printLcov_roundtrip rs fun pc hpc => ⟨(h pc hpc).1.wf, (h pc hpc).2⟩

/-! ### fix 73c9152: the functions of a file are listed in name order -/

/-- `output_lcov` as a function of the DATA of the records (`Cli.outputLcov`: every record walked
in line order and, for its functions, in name order) lists the functions of every file in
ascending byte-wise name order, each exactly once – whatever order the function table iterates in. -/
theorem C05_functions_listed_in_name_order (c : Cov) :
    (Cli.sortCov c).functions.Pairwise (fun a b => MainGlue.bytesLe a.1 b.1 = true) ∧
    (Cli.sortCov c).functions.Perm c.functions :=
  ⟨Cli.sortFns_sorted c.functions, Cli.sortFns_perm c.functions⟩

/-- **The report does not depend on the iteration order of the function table**: two records that
differ only in the order of their (distinctly named) functions are written to the same bytes –
before the fix the same inputs gave byte-different reports from one run to the next. -/
theorem C05_output_independent_of_table_order (pre post : List (Bytes × Cov)) (p : Bytes) (c : Cov)
    (fs' : List (Name × Fn)) (hn : NodupKeys c.functions) (hp : c.functions.Perm fs') :
    Cli.outputLcov (pre ++ (p, { c with functions := fs' }) :: post)
      = Cli.outputLcov (pre ++ (p, c) :: post) := by
  have e : Cli.sortCov { c with functions := fs' } = Cli.sortCov c := by
    simp only [Cli.sortCov]
    rw [Cli.sortFns_eq_of_perm hp hn]
  simp only [Cli.outputLcov, List.map_append, List.map_cons, e]

/-- what a run prints is `output_lcov` of the reported records -/
theorem C05_cli_report_is_output_lcov (rep : List Rewrite.Rec) :
    Cli.printReport rep = Cli.outputLcov (rep.map fun r => (r.rel, r.cov)) := by
  simp only [Cli.printReport, Cli.printable, Cli.outputLcov, List.map_map]
  rfl

/-- a second export of a re-imported report lists the functions in the same (name) order: sorting
is idempotent -/
theorem C05_name_order_stable (c : Cov) : Cli.sortCov (Cli.sortCov c) = Cli.sortCov c := by
  simp [Cli.sortCov, Cli.sortByKey_idem, Cli.sortFns_idem]

/-- functions given in the order `zz`, `é`, `a`, `Z` are listed as `Z`, `a`, `zz`, `é` (byte order:
upper case before lower case, non-ASCII last) -/
example : (Cli.sortCov { functions := [([122, 122], ⟨1, true⟩), ([195, 169], ⟨2, false⟩), ([97], ⟨3, true⟩), ([90], ⟨4, false⟩)] }).functions.map (·.1)
    = [[90], [97], [122, 122], [195, 169]] := by decide

/-- The summary lines are reproduced: the re-imported record has the same number of functions
(FNF), executed functions (FNH), branches (BRF), taken branches (BRH), lines (LF) and hit lines
(LH) as the record written. -/
theorem C05_summary_lines_reproduced (c : Cov) (h : c.WF) :
    (rtCov c).functions.length = c.functions.length
    ∧ ((rtCov c).functions.filter fun nf => nf.2.executed).length
        = (c.functions.filter fun nf => nf.2.executed).length
    ∧ ((rtCov c).branches.map fun lv => lv.2.length).sum = (c.branches.map fun lv => lv.2.length).sum
    ∧ ((rtCov c).branches.map fun lv => (lv.2.filter id).length).sum
        = (c.branches.map fun lv => (lv.2.filter id).length).sum
    ∧ (rtCov c).lines.length = c.lines.length
    ∧ ((rtCov c).lines.filter fun lc => decide (lc.2 > 0)).length
        = (c.lines.filter fun lc => decide (lc.2 > 0)).length := by
  rw [rtCov_eq c h]
  exact ⟨rfl, rfl, sum_length_nonEmptyVecs c.branches, sum_taken_nonEmptyVecs c.branches, rfl, rfl⟩

/-- The writer's domain is closed under the round trip: what was re-imported can be exported again. -/
theorem C05_roundtrip_stays_writable (rs : List (Bytes × Cov)) (h : ReportOK rs) :
    ReportOK (roundtrip rs) := by
  intro pc hpc
  simp only [roundtrip, List.mem_map] at hpc
  obtain ⟨q, hq, rfl⟩ := hpc
  obtain ⟨hw, hp⟩ := h q hq
  exact ⟨writerOK_roundtrip q.1 q.2 hw hp, utf8Lossy_idem q.1⟩

/-- **Iterating the export/import any number of times changes nothing further.** For every report
in the writer's domain and every k ≥ 1: k rounds of `parse true ∘ printLcov` all succeed and end in
`roundtrip rs` – the result of the FIRST round, literally, whatever k; its export is the first
export byte for byte; it lists the same files in the same order, and each record carries the same
data as the one written (same count for every line, same vector for every branch line, same start
line and executed flag for every function). -/
theorem C05_iterate (rs : List (Bytes × Cov)) (h : ReportOK rs) (k : Nat) :
    reimportIter (k + 1) rs = some (roundtrip rs)
    ∧ printLcov (roundtrip rs) = printLcov rs
    ∧ (roundtrip rs).map (·.1) = rs.map (·.1)
    ∧ ∀ pc ∈ rs, SameData (rtCov pc.2) pc.2 := by
  have hb := C05_second_export_equals_first rs h
  have h1 : reimport rs = some (roundtrip rs) := by
    simp only [reimport, C05_roundtrip_bytes rs fun pc hpc => (h pc hpc).1]; rfl
  have h2 : reimport (roundtrip rs) = some (roundtrip rs) := by
    have : reimport (roundtrip rs) = reimport rs := by simp only [reimport, hb]
    rw [this, h1]
  have fix : ∀ k, reimportIter k (roundtrip rs) = some (roundtrip rs) := by
    intro k
    induction k with
    | zero => rfl
    | succ k ih => simp only [reimportIter, h2, Option.bind_some, ih]
  refine ⟨?_, hb, ?_, fun pc hpc => rtCov_same pc.2 (h pc hpc).1.wf⟩
  · simp only [reimportIter, h1, Option.bind_some, fix k]
  · simp only [roundtrip, List.map_map]
    apply List.map_congr_left
    intro pc hpc
    exact (h pc hpc).2

/-- non-vacuity: a report with a saturated count, an EMPTY branch vector (dropped by the round
trip: `rtCov c ≠ c`), functions in non-sorted order and a non-ASCII name is in the domain, and its
second export equals its first -/
example :
    let c : Cov := { lines := [(1, U64MAX), (7, 0)], branches := [(3, [false, true]), (9, [])],
                     functions := [([195, 169], ⟨4, true⟩), ([102], ⟨0, false⟩)] }
    rtCov c ≠ c ∧ printLcov (roundtrip [([97, 44, 98], c)]) = printLcov [([97, 44, 98], c)]
      ∧ reimportIter 3 [([97, 44, 98], c)] = some (roundtrip [([97, 44, 98], c)]) := by
  decide +kernel

example : ReportOK [([97, 44, 98], { lines := [(1, U64MAX), (7, 0)], branches := [(3, [false, true]), (9, [])],
                                     functions := [([195, 169], ⟨4, true⟩), ([102], ⟨0, false⟩)] })] := by
  intro pc hpc
  simp only [List.mem_singleton] at hpc; subst hpc
  refine ⟨⟨⟨?_, ?_, ?_, ?_⟩, ?_, ?_, ?_, ?_⟩, by decide⟩ <;>
    simp [NodupKeys, keys, U64MAX, U32MAX, noEol, LF, CR] <;> decide

/-- non-vacuity: a concrete file with a saturated count, a gap in the branch lines and a non-ASCII
function name is in the writer's domain -/
example : WriterOK [97, 46, 99]
    { lines := [(1, U64MAX), (7, 0)], branches := [(3, [false, true])],
      functions := [([195, 169], ⟨4, true⟩)] } := by
  refine ⟨⟨?_, ?_, ?_, ?_⟩, ?_, ?_, ?_, ?_⟩ <;>
    simp [NodupKeys, keys, U64MAX, U32MAX, noEol, LF, CR] <;> decide

/-- non-vacuity: a branch map with a gap-free and an all-false vector survives the round trip -/
example : vecAt (brdaFold [] (brdaRecords [(3, [false, true, false]), (9, [false])])) 3 = [false, true, false]
    ∧ vecAt (brdaFold [] (brdaRecords [(3, [false, true, false]), (9, [false])])) 9 = [false] := by
  decide

end Grcov.Props.C05
