/-
C02, part `Run` — "every input is counted exactly once" for ONE WHOLE RUN as a function from the
bytes of the inputs to the bytes of the report: `Cli.RunAll.run` (GrcovModel/Cli/RunAll.lean), the
composition of the component models (`Lcov.parse` / `Jacoco.Bytes.parseBytes` → `add_results` under
canonical keys → `rewrite_paths` with the exclusion markers → ordering → one of the seven writers
lcov, files, covdir, coveralls, coveralls+, cobertura, ActiveData), tied to the real binary byte for
byte by the `runall` streams of harness/c02 and harness/c16.

Which types main.rs sorts: NONE of the seven by default. main.rs 537 sorts the record list (stably,
by the displayed absolute path) exactly for the types listed in `--sort-output-types`, whose default
is `markdown` (`C02_run_sorted_iff`, `C02_run_default_unsorted`). Unsorted, the records come in the
iteration order of the result map – a hash map: the parameter `Opts.hash.recs`.

What is proved (Lemmas/CliRunAll.lean has the helper lemmas):
* the result map of the run is the `reportOf` of Props/C02.lean for the inputs numbered as listed, so
  the schedule theorems of that file are statements about THIS map (`C02_run_map_is_pipeline_report`);
  every entry is the aggregate (C01: any grouping, any order) of exactly the records the accepted
  inputs hold for that file (`C02_run_entry_is_aggregate`); what an lcov / JaCoCo input holds is what
  C04 / C10 say (`C02_run_contents_lcov`, `C02_run_contents_jacoco`);
* a rejected input contributes nothing: the report bytes are those of the run without it
  (`C02_run_rejected_contributes_nothing`);
* the records `rewrite_paths` returns are exactly the selected map entries (`C02_run_record_iff`);
* **permutation of the inputs** (`C02_run_perm`): either both runs end without a report, or the two
  reports are the writer's output on two lists of file records that are permutations of each other
  – the same report up to the order of the file records –, and for a sorted type whose records have
  pairwise distinct displayed paths they are the SAME BYTES (`C02_run_perm_sorted_bytes`), for all
  seven types. Hypotheses: the parsers' results are maps (`InputsWF`, what the Rust types
  guarantee) and the inputs agree on function start lines (`StartsAgree`: the property's own
  exception). Since fix 73c9152 every writer lists the functions of a file in name order
  (`sorted_functions`; `Cli.sortFns` in the model), so NOTHING is assumed about the iteration order
  of the function table any more; `C02_run_old_fn_order_regression` keeps the old behaviour
  (insertion order shows through) as a closed regression example about the old writer;
* **schedule independence of the bytes** (`C02_run_schedule_sorted_bytes`): for a sorted type the
  report bytes of the model run on the inputs in ANY merge order a real schedule can produce are
  those of `run` on the inputs as listed – this is what the `runpair` stream of harness/c02
  compares on the real binary (two runs with different `--threads`, argument order and
  perturbation seed are byte-identical after sorting the FILE records only);
* **the report decodes to the records it was written from**, type by type, with the strict readers
  of C03/C04/C18 (`C02_run_decodes_lcov`, `_files`, `_coveralls`, `_covdir`, `_cobertura`, `_ade`);
* for lcov inputs, lcov output and no `--excl-*` option the run is `Cli.run` of C05/C06
  (`C02_run_extends_cli_run`).
Fifth session: the inputs may also be LLVM-mode gcno/gcda items (`Input.gcno`; every theorem above is
about `contents`, whatever the kind: what such an item holds is `C15_run_contents_gcno`), markdown is an
eighth stream type (decoding: `C03_run_decodes_markdown`), html is `runHtml`
(`C02_run_html_perm_sorted_bytes`; pages: Props/C03Run.lean), and several `-t` with `-o <dir>` are
`runMulti` (`C02_run_multi_is_single_runs`: each file is the single-type run's bytes).
-/
import GrcovModel.Lemmas.CliRunAll
import GrcovModel.Lemmas.CliRunAllLcovWF
import GrcovModel.Lemmas.CliRunAllAde
import GrcovModel.Props.C03Docs
import GrcovModel.Props.C03JsonBytes
import GrcovModel.Props.C03CobBytes
import GrcovModel.Props.C04
import GrcovModel.Props.C10Bytes
namespace Grcov.Props.C02
open Grcov AList Grcov.Rewrite Grcov.Report Grcov.Props.C01 Grcov.Cli.RunAll
open Grcov.Lcov (utf8Lossy printLcov WriterOK dropEmpty rtCov_eq parse_printLcov LF CR)
open Grcov.FileFilter (applyFilters)
open Grcov.Writers Grcov.Writers.Docs Grcov.Writers.JsonBytes

/-! ### which types are sorted -/

/-- The writer of the run's type gets the sorted list iff the type is listed in
`--sort-output-types` (main.rs 537). -/
theorem C02_run_sorted_iff (o : Opts) :
    sortedFor o = true ↔ o.out.toMain ∈ o.sortTypes := by
  simp [sortedFor]

/-- With the default `--sort-output-types markdown` none of the seven types of the fourth session is
sorted – the records come in the iteration order of the result map – and markdown is. -/
theorem C02_run_default_unsorted (o : Opts) (h : o.sortTypes = [.markdown]) (rs : List Rec) :
    ordered o rs = if o.out = .markdown then MainGlue.sortRecs (o.hash.recs rs) else o.hash.recs rs := by
  unfold ordered sortedFor
  rw [h]
  cases o.out <;> rfl

/-! ### the result map -/

/-- The result map of the run is the report of the pipeline model (`reportOf`, Props/C02.lean) for
the inputs numbered in the order listed: `C02_report_schedule_independent`, `C02_report_is_aggregate`,
`C02_report_without_rejected` are statements about this map for every thread count and schedule. -/
theorem C02_run_map_is_pipeline_report (o : Opts) (w : World) (ins : List Input) :
    resultMap o w ins = reportOf (canonOf o w) (fun i => contents o.branch (ins.getD i (.lcov [])))
      (List.range ins.length) :=
  resultMap_eq_reportOf o w ins

/-- … in particular for every order `merged` in which the workers happen to merge the inputs
(`C02_exactly_once_no_faults`: at exit 0 the merge order `s.merged` of ANY schedule with ANY number
of threads is a permutation of the inputs): the map the real run ends with has, file by file,
observably the entries of the map of this model. -/
theorem C02_run_map_schedule_independent (o : Opts) (w : World) (ins : List Input) (hwf : InputsWF o ins)
    (merged : List Nat) (p : merged.Perm (List.range ins.length)) (k : Key) :
    ObsEqOpt
      (get? (reportOf (canonOf o w) (fun i => contents o.branch (ins.getD i (.lcov []))) merged) k)
      (get? (resultMap o w ins) k) := by
  rw [resultMap_eq_reportOf]
  refine report_order_irrelevant _ _ ?_ _ _ p k
  intro i kc hkc
  by_cases hi : i < ins.length
  · apply hwf kc
    simp only [allRecords, List.mem_flatMap]
    refine ⟨ins[i], List.getElem_mem hi, ?_⟩
    simpa [List.getD_eq_getElem?_getD, hi] using hkc
  · have : ins.getD i (.lcov []) = .lcov [] := by
      simp [List.getD_eq_getElem?_getD, List.getElem?_eq_none (Nat.le_of_not_lt hi)]
    rw [this] at hkc
    have he : ∀ b, contents b (.lcov []) = [] := by decide
    rw [he] at hkc
    cases hkc

/-- **Every entry is the C01 aggregate of what the inputs individually contain.** The entry filed
under `k` is the fold of `merge` over exactly the records, of exactly the accepted inputs, whose
canonical key is `k`; there is an entry iff there is such a record; and it is observably (`ObsEq`:
every line count, branch vector, function and executed flag) the evaluation of ANY grouping of ANY
permutation of those records – so `C01_sum_clamped`, `C01_branches_nary`, `C01_functions_nary` give its
closed form. -/
theorem C02_run_entry_is_aggregate (o : Opts) (w : World) (ins : List Input) (hwf : InputsWF o ins)
    (k : Key) :
    get? (resultMap o w ins) k = foldInto none (recordsAt o w ins k) ∧
    (get? (resultMap o w ins) k = none ↔ recordsAt o w ins k = []) ∧
    ∀ t : Tree Cov, t.leaves.Perm (recordsAt o w ins k) →
      ∃ c, get? (resultMap o w ins) k = some c ∧ ObsEq c t.eval := by
  have he := resultMap_entry o w ins k
  refine ⟨he, ?_, ?_⟩
  · rw [he]
    cases h : recordsAt o w ins k with
    | nil => simp [foldInto]
    | cons a cs => rw [foldInto_none_cons]; simp
  · intro t p
    rw [he]
    cases h : recordsAt o w ins k with
    | nil => rw [h] at p; exact absurd p.eq_nil (leaves_ne_nil t)
    | cons a cs =>
      rw [foldInto_none_cons]
      refine ⟨_, rfl, C01_grouping_invariant _ _ ?_ ?_⟩
      · intro c hc; rw [combL_leaves] at hc
        exact recordsAt_wf hwf k c (by rw [h]; simpa [Tree.leaves] using hc)
      · rw [combL_leaves]; rw [h] at p; simpa [Tree.leaves] using p.symm

/-- The hypothesis `InputsWF` ("the parsers return maps") is a theorem for lcov inputs: whatever the
bytes, every record `parse_lcov` returns has unique line / branch-line / function keys and counts
within `u64` (the invariant of the byte machine, Lemmas/CliRunAllLcovWF.lean). For JaCoCo inputs it
is the corresponding fact about `BTreeMap` / `FxHashMap` values, assumed. -/
theorem C02_run_lcov_inputs_are_maps (o : Opts) (ins : List Input) (h : ∀ i ∈ ins, ∃ b, i = .lcov b) :
    InputsWF o ins := by
  intro kc hkc
  simp only [allRecords, List.mem_flatMap] at hkc
  obtain ⟨i, hi, hm⟩ := hkc
  obtain ⟨b, rfl⟩ := h i hi
  simp only [contents, Grcov.Cli.parseInput] at hm
  cases hp : Lcov.parse o.branch b with
  | ok rs => rw [hp] at hm; exact Lcov.parse_wf o.branch b rs hp kc hm
  | err k => rw [hp] at hm; cases hm
  | panic s => rw [hp] at hm; cases hm

/-- What an lcov input contains is what C04 says: for every rendering of well-formed sections (C04's
quantifier) the records are the denotations of the sections, in order. -/
theorem C02_run_contents_lcov (branch : Bool) (eol : Lcov.Bytes) (heol : eol = [LF] ∨ eol = [CR, LF])
    (secs : List Lcov.Spec.Section) (hs : ∀ s ∈ secs, s.WellFormed) :
    contents branch (.lcov (Lcov.Spec.render eol secs))
      = secs.map fun s => (utf8Lossy s.sf, Lcov.Spec.sem branch s) := by
  simp [contents, Cli.parseInput, Grcov.Props.C04.C04_fidelity branch eol heol secs hs]

/-- What a JaCoCo input contains is what C10 says: for every byte-level serialisation of a report
(C10's quantifier) the records are the denotation of the report – whatever the branch flag. -/
theorem C02_run_contents_jacoco (branch : Bool) {r : Jacoco.Spec.Report} (s : Jacoco.Bytes.Serialisation r)
    (hg : Jacoco.Spec.good Jacoco.allocMax s.x = true) :
    contents branch (.jacoco (Jacoco.Bytes.jacocoXml s)) = Jacoco.Spec.sem r := by
  simp [contents, Grcov.Props.C10.C10_fidelity_bytes_default s hg]

/-- **A rejected input contributes nothing.** If the parser of an input returns an error, the
report – its bytes, for every type, option set and position of that input – is the report of the run
without it. -/
theorem C02_run_rejected_contributes_nothing (o : Opts) (w : World) (pre post : List Input) (i : Input)
    (h : rejected o.branch i) : run o w (pre ++ i :: post) = run o w (pre ++ post) :=
  run_drop o w pre post i (contents_of_rejected _ i h) (crash_of_rejected _ i h)

/-! ### from the map to the record list -/

/-- The records `rewrite_paths` returns are exactly the map entries whose key resolves to a path
that passes `--ignore`, `--keep-only`, `--ignore-not-existing` and – after the exclusion markers of
its own file – `--filter`; the record carries the entry's data minus the excluded keys. -/
theorem C02_run_record_iff (o : Opts) (w : World) (ins : List Input) (rs : List Rec)
    (h : records o w ins = .ok rs) (r : Rec) :
    r ∈ rs ↔ ∃ k c abs rel, get? (resultMap o w ins) k = some c ∧
      resolveKey o.cfg w.fs k = .ok (some (abs, rel)) ∧
      selectRec o.cfg w.fs abs rel (applyFilters (filterList o w abs) c) = some r := by
  obtain ⟨_, _, e⟩ := (rewritePathsF_eq_ok _ _ _ _ _).1 h
  subst e
  have hn := nodupKeys_resultMap o w ins
  simp only [List.mem_filterMap]
  constructor
  · rintro ⟨kc, hkc, hr⟩
    refine ⟨kc.1, kc.2, ?_⟩
    unfold keyRecF rewriteKeyF at hr
    cases hres : resolveKey o.cfg w.fs kc.1 with
    | panic s => rw [hres] at hr; simp [okPart] at hr
    | ok x =>
      cases x with
      | none => rw [hres] at hr; simp [okPart] at hr
      | some ar =>
        obtain ⟨a, rl⟩ := ar
        rw [hres] at hr
        exact ⟨a, rl, get?_of_mem hn hkc, rfl, by simpa [okPart, selectRecF_eq] using hr⟩
  · rintro ⟨k, c, a, rl, hg, hres, hsel⟩
    refine ⟨(k, c), mem_of_get? hg, ?_⟩
    unfold keyRecF rewriteKeyF
    simp only [hres, okPart, selectRecF_eq]
    exact hsel

/-! ### permutation of the inputs -/

/-- **Every permutation of the inputs.** Under the hypotheses of the header: either both runs end
without a report (a crashed parser, or a panic site of `rewrite_paths`: both depend on the set of
inputs only), or there are two lists of file records, permutations of each other, such that each
run's outcome is the writer's outcome on its list – the same report up to the order of the file
records; and if the type is sorted and the displayed absolute paths of the records are pairwise
distinct the two lists are the same list. All seven types, all options. -/
theorem C02_run_perm (o : Opts) (w : World) (ins₁ ins₂ : List Input) (hwf : InputsWF o ins₁)
    (hag : StartsAgree o w ins₁) (hh : o.hash.OK) (p : ins₁.Perm ins₂) :
    (∃ s₁ s₂, run o w ins₁ = .panic s₁ ∧ run o w ins₂ = .panic s₂) ∨
    ∃ L₁ L₂ : List Rec, L₁.Perm L₂ ∧ run o w ins₁ = render o L₁ ∧ run o w ins₂ = render o L₂ ∧
      (sortedFor o = true → (L₁.map MainGlue.sortKey).Nodup → L₁ = L₂) :=
  run_perm o w hwf hag hh p

/-- **Sorted types are byte-identical.** If the type is listed in `--sort-output-types` and no two
reported files have the same displayed absolute path, every permutation of the inputs gives the
same outcome – the same report bytes, function records included (no hypothesis on the order of the
function table: the writers sort it by name). -/
theorem C02_run_perm_sorted_bytes (o : Opts) (w : World) (ins₁ ins₂ : List Input) (hwf : InputsWF o ins₁)
    (hag : StartsAgree o w ins₁) (hh : o.hash.OK) (p : ins₁.Perm ins₂)
    (hs : sortedFor o = true)
    (hd : ∀ rs, records o w ins₁ = .ok rs → (rs.map MainGlue.sortKey).Nodup) :
    run o w ins₁ = run o w ins₂ ∨ ∃ s₁ s₂, run o w ins₁ = .panic s₁ ∧ run o w ins₂ = .panic s₂ := by
  cases hc₁ : ins₁.findSome? (crash o.branch) with
  | some s₁ =>
    cases hc₂ : ins₂.findSome? (crash o.branch) with
    | none => rw [(crash_perm o.branch p).2 hc₂] at hc₁; cases hc₁
    | some s₂ => exact Or.inr ⟨s₁, s₂, by simp [run, hc₁], by simp [run, hc₂]⟩
  | none =>
    have hc₂ := (crash_perm o.branch p).1 hc₁
    rcases records_perm o w hwf hag p with ⟨s₁, s₂, e₁, e₂⟩ | ⟨rs₁, rs₂, e₁, e₂, pp⟩
    · exact Or.inr ⟨s₁, s₂, by simp [run, hc₁, e₁], by simp [run, hc₂, e₂]⟩
    · left
      have hnd := hd rs₁ e₁
      have e : (ordered o rs₁).map (present o) = (ordered o rs₂).map (present o) := by
        simp only [ordered, hs, if_true]
        apply sorted_present_eq
        · exact (((hh.recsPerm rs₁).map _).trans pp).trans ((hh.recsPerm rs₂).map _).symm
        · exact (((hh.recsPerm rs₁).map MainGlue.sortKey).nodup_iff).2 hnd
      simp only [run, hc₁, hc₂, e₁, e₂, report, e]

/-! ### the report decodes to the records it was written from -/

/-- lcov: the strict reader (`parse_lcov` with branches on) reads from the report, section by
section in order, the path and the data of every record – every line count, every non-empty branch
vector, every function with start line and executed flag. -/
theorem C02_run_decodes_lcov (o : Opts) (L : List Rec) (ho : o.out = .lcov)
    (hw : ∀ r ∈ L, WriterOK r.rel r.cov ∧ utf8Lossy r.rel = r.rel) :
    ∃ B, render o L = .ok B ∧ Cli.parseInput true B = L.map fun r => (r.rel, dropEmpty r.cov) := by
  refine ⟨printLcov (L.map relCov), by simp [render, ho], ?_⟩
  unfold Cli.parseInput
  rw [parse_printLcov (L.map relCov) (by
    intro pc hpc; simp only [List.mem_map] at hpc; obtain ⟨r, hr, rfl⟩ := hpc; exact (hw r hr).1)]
  simp only [List.map_map]
  apply List.map_congr_left
  intro r hr
  simp [Function.comp, relCov, (hw r hr).2, rtCov_eq _ (hw r hr).1.wf]

/-- files: read line by line, the report lists the rel path of every record, in order. -/
theorem C02_run_decodes_files (o : Opts) (L : List Rec) (ho : o.out = .files)
    (h : ∀ r ∈ L, 10 ∉ r.rel) :
    ∃ B, render o L = .ok B ∧ splitLines B = L.map (·.rel) := by
  refine ⟨filesBytes (L.map toRes), by simp [render, ho], ?_⟩
  rw [Grcov.Props.C03.C03_files_list (L.map toRes) (by
    intro r hr; simp only [List.mem_map] at hr; obtain ⟨x, hx, rfl⟩ := hr; exact h x hx)]
  simp [List.map_map, Function.comp, toRes]

/-- coveralls / coveralls+: the strict JSON reader finds in `source_files`, in order, exactly the
file objects of the records – name, coverage array, branch quadruples and (coveralls+) functions
(`C03_coveralls_lines`, `…_branch_vectors`, `…_functions` say how they encode the record) – under the
writer's guard that no file's highest line is 2^32-1 (else it panics: `C03_coveralls_panic_iff`). -/
theorem C02_run_decodes_coveralls (o : Opts) (L : List Rec) (plus : Bool)
    (ho : o.out = if plus then .coverallsPlus else .coveralls)
    (hg : Grcov.Props.C03.CvGuard (L.map toRes)) (hgit : JsonBytes.wf o.pr.cvTop.git = true) :
    ∃ B, render o L = .ok B ∧
      (jsonParse B).bind decodeCoverallsJson = some ((L.map toRes).map (cvFileOk plus)) := by
  have hd := (Grcov.Props.C03.C03_coveralls_doc_partial true plus (L.map toRes) hg).1
  refine ⟨jsonSerialize (coverallsJson o.pr.cvTop o.pr.cvDigests ((L.map toRes).map (cvFileOk plus))), ?_,
    Grcov.Props.C03.C03_json_coveralls_bytes _ _ _ hgit⟩
  cases plus <;> simp [render, ho, hd]

/-- covdir: the strict JSON reader reads from the report the document of the tree in which every
record is filed under the directory chain of its path (`C03_covdir_tree`, `C03_covdir_document`,
`C03_covdir_results_partial` say what the tree holds); the writer panics iff a record cannot be
placed. -/
theorem C02_run_decodes_covdir (o : Opts) (L : List Rec) (ho : o.out = .covdir)
    (hfill : JsonBytes.FillOk o.pr.cdFill) :
    (covdirTree true (L.map toRes) = none → ∃ s, render o L = .panic s) ∧
    ∀ t, covdirTree true (L.map toRes) = some t →
      ∃ B, render o L = .ok B ∧ jsonParse B = some (covdirJson o.pr.cdFill t) := by
  constructor
  · intro h; exact ⟨"output_covdir", by simp [render, ho, h]⟩
  · intro t h
    exact ⟨_, by simp [render, ho, h], Grcov.Props.C03.C03_json_covdir_bytes _ hfill t⟩

/-- cobertura: the strict XML reader + document decoder read from the report, package by package in
order, the rel path of every record with its instrumented lines and hits, the branch vectors of the
lines that have a line entry, and the function names (`cobProj`) – under the guards of C03's byte
theorem (names without control characters) and the writer's `last + 1` guard. -/
theorem C02_run_decodes_cobertura (o : Opts) (L : List Rec) (ho : o.out = .cobertura)
    (hp : CobAde.lastPlusOnePanics (L.map relCov) = false)
    (hnd : ∀ r ∈ L, NodupKeys r.cov.lines) (hfill : CobBytes.FillOk o.pr.cobFill)
    (hok : CobBytes.DocOk (CobAde.coberturaDoc o.cfg.sourceDir (L.map relCov))) :
    ∃ B, render o L = .ok B ∧
      CobBytes.decodeReport B = some (L.map fun r => (r.rel, CobAde.cobProj r.cov)) := by
  refine ⟨CobBytes.reportBytes o.pr.cobFill (CobAde.coberturaDoc o.cfg.sourceDir (L.map relCov)), ?_, ?_⟩
  · simp [render, ho, CobAde.cobertura, hp]
  · rw [Grcov.Props.C03.C03_cobbytes_decode_bytes o.cfg.sourceDir (L.map relCov) o.pr.cobFill (by
      intro r hr; simp only [List.mem_map] at hr; obtain ⟨x, hx, rfl⟩ := hr; exact hnd x hx) hfill hok]
    simp [List.map_map, Function.comp, relCov]

/-- ActiveData: read line by line (serde_json never writes a raw line feed), the report is the list of
the documents of `adeDoc` – per file one record per function (in table order) and the file record
with covered / uncovered / orphan lines (`C03_ade_*` of Props/C03CobAde.lean say what they hold) –
and the strict JSON reader reads every line back to its document. The printed percentages only have
to look like floats (or be `null`). -/
theorem C02_run_decodes_ade (o : Opts) (L : List Rec) (ho : o.out = .ade)
    (hp : CobAde.lastPlusOnePanics (L.map relCov) = false)
    (hpct : ∀ p ∈ o.pr.adePcts, JsonBytes.wf p = true) :
    ∃ B, render o L = .ok B ∧
      (splitLines B).mapM jsonParse = some (adeLines o.pr.adePcts (CobAde.adeDoc (L.map relCov))) :=
  ⟨_, by simp [render, ho, CobAde.ade, hp], (adeBytes_lines _ hpct _).2⟩

/-! ### end to end, for the type that carries everything -/

/-- **From input bytes to the decoded report (lcov).** A run that writes an lcov report `B` within
the writer's domain: read back by the strict reader, `B` has exactly one section per record of
`rewrite_paths`, and every section `(p, c)` is a file of the result map – an entry `agg` (by
`C02_run_entry_is_aggregate` the C01 aggregate of what the accepted inputs hold for that file, by
`C02_run_contents_lcov` / `_jacoco` what C04 / C10 say they hold) whose key resolves to the reported
path `p` – with: the count of line `l` = the aggregate's, unless the exclusion markers of the file
remove `l`; the branch vector of line `l` likewise (an EMPTY vector has no record in the format);
every function with the aggregate's start line and executed flag. Nothing else is in the report. -/
theorem C02_run_lcov_end_to_end (o : Opts) (w : World) (ins : List Input) (B : Lcov.Bytes)
    (hwf : InputsWF o ins) (hh : o.hash.OK) (ho : o.out = .lcov) (hrun : run o w ins = .ok B)
    (hw : ∀ rs, records o w ins = .ok rs →
      ∀ r ∈ rs, WriterOK r.rel (present o r).cov ∧ utf8Lossy r.rel = r.rel) :
    ∃ rs, records o w ins = .ok rs ∧
      ((Grcov.Cli.parseInput true B).map (·.1)).Perm (rs.map (·.rel)) ∧
      ∀ pc ∈ Grcov.Cli.parseInput true B, ∃ k agg abs,
        get? (resultMap o w ins) k = some agg ∧
        resolveKey o.cfg w.fs k = .ok (some (abs, pc.1)) ∧
        (∀ l, get? pc.2.lines l
          = if FileFilter.removesLine (filterList o w abs) l then none else get? agg.lines l) ∧
        (∀ l, get? pc.2.branches l
          = (if FileFilter.removesBranch (filterList o w abs) l then none else get? agg.branches l).filter
              fun v => !v.isEmpty) ∧
        (∀ n, get? pc.2.functions n = get? agg.functions n) := by
  unfold run at hrun
  cases hc : ins.findSome? (crash o.branch) with
  | some s => rw [hc] at hrun; cases hrun
  | none =>
    rw [hc] at hrun
    cases hr : records o w ins with
    | panic s => rw [hr] at hrun; cases hrun
    | ok rs =>
      rw [hr] at hrun
      simp only [report] at hrun
      have hL : ∀ r' ∈ (ordered o rs).map (present o), WriterOK r'.rel r'.cov ∧ utf8Lossy r'.rel = r'.rel := by
        intro r' hr'
        simp only [List.mem_map] at hr'
        obtain ⟨r, hm, rfl⟩ := hr'
        exact hw rs hr r ((ordered_perm o hh rs).subset hm)
      obtain ⟨B', hB', hdec⟩ := C02_run_decodes_lcov o _ ho hL
      rw [hrun] at hB'
      cases hB'
      refine ⟨rs, rfl, ?_, ?_⟩
      · rw [hdec, List.map_map, List.map_map]
        exact (ordered_perm o hh rs).map _
      · intro pc hpc
        rw [hdec] at hpc
        simp only [List.mem_map] at hpc
        obtain ⟨r', ⟨r, hm, rfl⟩, rfl⟩ := hpc
        have hmem : r ∈ rs := (ordered_perm o hh rs).subset hm
        obtain ⟨k, c, abs, rel, hg, hres, hsel⟩ := (C02_run_record_iff o w ins rs hr r).1 hmem
        obtain ⟨_, _, _, _, er⟩ := (selectRec_some_iff _ _ _ _ _ _).1 hsel
        have hcw : c.WF := resultMap_wf o w ins hwf k c hg
        have hnd := applyFilters_nodup (filterList o w abs) c hcw.linesNodup hcw.branchesNodup
        subst er
        refine ⟨k, c, abs, hg, hres, fun l => ?_, fun l => ?_, fun n => ?_⟩
        · show get? (Grcov.Cli.sortByKey (applyFilters (filterList o w abs) c).lines) l = _
          rw [get?_sortByKey' _ hnd.1, FileFilter.applyFilters_lines]
        · show get? (Lcov.nonEmptyVecs (Grcov.Cli.sortByKey (applyFilters (filterList o w abs) c).branches)) l = _
          unfold Lcov.nonEmptyVecs
          rw [get?_filter _ (Grcov.Cli.nodupKeys_sortByKey _ hnd.2), get?_sortByKey' _ hnd.2,
            FileFilter.applyFilters_branches]
        · show get? (Grcov.Cli.sortFns (applyFilters (filterList o w abs) c).functions) n = _
          have hfn : (applyFilters (filterList o w abs) c).functions = c.functions :=
            FileFilter.applyFilters_functions _ _
          have hp := Grcov.Cli.sortFns_perm c.functions
          rw [hfn, get?_perm hp (nodupKeys_perm hp.symm hcw.functionsNodup) n]

/-! ### conservative extension of `Cli.run` -/

/-- For lcov inputs none of which crashes the parser, lcov output, no `--excl-*` option, unsorted,
and the hash maps iterating in insertion order, the run is `Cli.run` of GrcovModel/Cli.lean: the
fixed-point and sharding theorems of C05 / C06 are theorems about this model. -/
theorem C02_run_extends_cli_run (cfg : Cfg) (branch : Bool) (w : World) (bs : List Lcov.Bytes)
    (hc : ∀ b ∈ bs, ∀ s, Lcov.parse branch b ≠ .panic s) :
    run { cfg := cfg, branch := branch } w (bs.map .lcov) = Cli.run cfg branch w.fs bs := by
  let o : Opts := { cfg := cfg, branch := branch }
  have hcr : (bs.map Input.lcov).findSome? (crash branch) = none := by
    rw [List.findSome?_eq_none_iff]
    intro i hi
    simp only [List.mem_map] at hi
    obtain ⟨b, hb, rfl⟩ := hi
    simp only [crash]
    cases h : Lcov.parse branch b with
    | panic s => exact absurd h (hc b hb s)
    | ok rs => rfl
    | err k => rfl
  have hm : resultMap o w (bs.map .lcov) = Cli.resultMap cfg branch w.fs bs := by
    simp only [resultMap, Cli.resultMap, List.foldl_map]
    rfl
  have hr : records o w (bs.map .lcov) = Cli.report cfg branch w.fs bs := by
    have : o = o.noMarkers := rfl
    rw [this, records_noMarkers, hm]; rfl
  show run o w (bs.map .lcov) = _
  unfold run Cli.run
  rw [show o.branch = branch from rfl, hcr, hr]
  cases Cli.report cfg branch w.fs bs with
  | panic s => rfl
  | ok rep =>
    show render o ((ordered o rep).map (present o)) = .ok (Cli.printReport rep)
    have e1 : ordered o rep = rep := rfl
    have e2 : render o (rep.map (present o)) = .ok (printLcov ((rep.map (present o)).map relCov)) := rfl
    rw [e1, e2]
    unfold Cli.printReport Cli.printable
    congr 2
    rw [List.map_map]
    apply List.map_congr_left
    intro r _
    rfl

/-! ### html, and several `-t` at once (fifth session) -/

/-- **html: sorted sites are byte-identical under a permutation of the inputs.** With
`--sort-output-types html` and pairwise distinct displayed paths, every permutation of the inputs
gives the same html directory – every page, index, badge and `coverage.json`, byte for byte – or both
runs end without a report. (Unsorted, the jobs reach the consumer threads in another order; the
pages are the same set as long as no two records share a destination: `C03_run_html_page_of_record`.) -/
theorem C02_run_html_perm_sorted_bytes (o : Opts) (w : World) (ins₁ ins₂ : List Input) (hwf : InputsWF o ins₁)
    (hag : StartsAgree o w ins₁) (hh : o.hash.OK) (p : ins₁.Perm ins₂)
    (hs : sortedHtml o = true)
    (hd : ∀ rs, records o w ins₁ = .ok rs → (rs.map MainGlue.sortKey).Nodup) :
    runHtml o w ins₁ = runHtml o w ins₂ ∨
      ∃ s₁ s₂, runHtml o w ins₁ = .panic s₁ ∧ runHtml o w ins₂ = .panic s₂ := by
  cases hc₁ : ins₁.findSome? (crash o.branch) with
  | some s₁ =>
    cases hc₂ : ins₂.findSome? (crash o.branch) with
    | none => rw [(crash_perm o.branch p).2 hc₂] at hc₁; cases hc₁
    | some s₂ => exact Or.inr ⟨s₁, s₂, by simp [runHtml, hc₁], by simp [runHtml, hc₂]⟩
  | none =>
    have hc₂ := (crash_perm o.branch p).1 hc₁
    rcases records_perm o w hwf hag p with ⟨s₁, s₂, e₁, e₂⟩ | ⟨rs₁, rs₂, e₁, e₂, pp⟩
    · exact Or.inr ⟨s₁, s₂, by simp [runHtml, hc₁, e₁], by simp [runHtml, hc₂, e₂]⟩
    · left
      have hnd := hd rs₁ e₁
      have e : (orderedHtml o rs₁).map (present o) = (orderedHtml o rs₂).map (present o) := by
        simp only [orderedHtml, hs, if_true]
        apply sorted_present_eq
        · exact (((hh.recsPerm rs₁).map _).trans pp).trans ((hh.recsPerm rs₂).map _).symm
        · exact (((hh.recsPerm rs₁).map MainGlue.sortKey).nodup_iff).2 hnd
      simp only [runHtml, hc₁, hc₂, e₁, e₂, reportHtml, e]

/-- what one `-t` of a command line with several leaves in the output directory, against the run
with that type alone -/
def ArtifactOf (o : Opts) (w : World) (ins : List Input) : OutKind → Artifact → Prop
  | .stream t, a => ∃ b, run { o with out := t } w ins = .ok b ∧ a = .file (MainGlue.fixedName t.toMain) b
  | .html, a => ∃ fs, runHtml o w ins = .ok fs ∧ a = .dir (MainGlue.fixedName .html) fs

/-- … for all types of the command line, in order -/
def ArtifactsOf (o : Opts) (w : World) (ins : List Input) : List OutKind → List Artifact → Prop
  | [], [] => True
  | k :: ks, a :: as => ArtifactOf o w ins k a ∧ ArtifactsOf o w ins ks as
  | _, _ => False

/-- **Several `-t` at once = the single runs.** A run with several report types and `-o <directory>`
that ends normally leaves, per type in command-line order, exactly the bytes the run with that type
alone writes (same inputs, same options): the file named by `to_file_name`, or the directory `html`.
Every theorem about `run` / `runHtml` is therefore a theorem about each file of a multi-type run. -/
theorem C02_run_multi_is_single_runs (o : Opts) (w : World) (ins : List Input) (kinds : List OutKind)
    (arts : List Artifact) (h : runMulti o w ins kinds = .ok arts) :
    ArtifactsOf o w ins kinds arts := by
  unfold runMulti at h
  cases hc : ins.findSome? (crash o.branch) with
  | some s => rw [hc] at h; cases h
  | none =>
    rw [hc] at h
    cases hr : records o w ins with
    | panic s => rw [hr] at h; cases h
    | ok rs =>
      rw [hr] at h
      induction kinds generalizing arts with
      | nil =>
        simp only [writeKinds, Res.ok.injEq] at h
        subst h
        trivial
      | cons k ks ih =>
        unfold writeKinds at h
        cases k with
        | stream t =>
          simp only at h
          cases hrep : report { o with out := t } rs with
          | panic s => rw [hrep] at h; cases h
          | ok b =>
            rw [hrep] at h
            simp only at h
            cases hrest : writeKinds o w rs ks with
            | panic s => rw [hrest] at h; cases h
            | ok as =>
              rw [hrest] at h
              simp only [Res.ok.injEq] at h
              subst h
              refine ⟨⟨b, ?_, rfl⟩, ih as hrest⟩
              have hc' : ins.findSome? (crash ({ o with out := t } : Opts).branch) = none := hc
              have hr' : records { o with out := t } w ins = .ok rs := hr
              simp only [run, hc', hr', hrep]
        | html =>
          simp only at h
          cases hrep : reportHtml o w rs with
          | panic s => rw [hrep] at h; cases h
          | ok fs =>
            rw [hrep] at h
            simp only at h
            cases hrest : writeKinds o w rs ks with
            | panic s => rw [hrest] at h; cases h
            | ok as =>
              rw [hrest] at h
              simp only [Res.ok.injEq] at h
              subst h
              refine ⟨⟨fs, ?_, rfl⟩, ih as hrest⟩
              simp only [runHtml, hc, hr, hrep]

/-! ### closed witnesses and non-vacuity -/

namespace RunWit
/-- `a.c` (function `f`, lines 1 and 3, a two-way branch on line 3) and `b.c` -/
def l1 : Lcov.Bytes :=
  [84, 78, 58, 10, 83, 70, 58, 97, 46, 99, 10, 70, 78, 58, 49, 44, 102, 10, 70, 78, 68, 65, 58, 50,
   44, 102, 10, 68, 65, 58, 49, 44, 50, 10, 68, 65, 58, 51, 44, 48, 10, 66, 82, 68, 65, 58, 51, 44,
   48, 44, 48, 44, 49, 10, 66, 82, 68, 65, 58, 51, 44, 48, 44, 49, 44, 45, 10, 101, 110, 100, 95,
   111, 102, 95, 114, 101, 99, 111, 114, 100, 10, 83, 70, 58, 98, 46, 99, 10, 68, 65, 58, 50, 44,
   53, 10, 101, 110, 100, 95, 111, 102, 95, 114, 101, 99, 111, 114, 100, 10]
/-- `a.c` again: line 1 four more times, line 2, the other arm of the branch -/
def l2 : Lcov.Bytes :=
  [83, 70, 58, 97, 46, 99, 10, 68, 65, 58, 49, 44, 52, 10, 68, 65, 58, 50, 44, 49, 10, 66, 82, 68,
   65, 58, 51, 44, 48, 44, 48, 44, 45, 10, 66, 82, 68, 65, 58, 51, 44, 48, 44, 49, 44, 55, 10, 101,
   110, 100, 95, 111, 102, 95, 114, 101, 99, 111, 114, 100, 10]
/-- `a.c` with another function `g` -/
def l3 : Lcov.Bytes :=
  [83, 70, 58, 97, 46, 99, 10, 70, 78, 58, 50, 44, 103, 10, 70, 78, 68, 65, 58, 48, 44, 103, 10,
   68, 65, 58, 50, 44, 49, 10, 101, 110, 100, 95, 111, 102, 95, 114, 101, 99, 111, 114, 100, 10]
/-- a good section for `a.c`, then `DA:x,1`: the parser rejects the tracefile -/
def bad : Lcov.Bytes :=
  [83, 70, 58, 97, 46, 99, 10, 68, 65, 58, 49, 44, 57, 10, 101, 110, 100, 95, 111, 102, 95, 114,
   101, 99, 111, 114, 100, 10, 83, 70, 58, 97, 46, 99, 10, 68, 65, 58, 120, 44, 49, 10, 101, 110,
   100, 95, 111, 102, 95, 114, 101, 99, 111, 114, 100, 10]
/-- a JaCoCo report: `p/A.java`, line 1 with one branch of two taken -/
def j1 : Lcov.Bytes :=
  [60, 114, 101, 112, 111, 114, 116, 32, 110, 97, 109, 101, 61, 34, 114, 34, 62, 60, 112, 97, 99,
   107, 97, 103, 101, 32, 110, 97, 109, 101, 61, 34, 112, 34, 62, 60, 115, 111, 117, 114, 99, 101,
   102, 105, 108, 101, 32, 110, 97, 109, 101, 61, 34, 65, 46, 106, 97, 118, 97, 34, 62, 60, 108,
   105, 110, 101, 32, 110, 114, 61, 34, 49, 34, 32, 109, 105, 61, 34, 48, 34, 32, 99, 105, 61, 34,
   49, 34, 32, 109, 98, 61, 34, 49, 34, 32, 99, 98, 61, 34, 49, 34, 47, 62, 60, 47, 115, 111, 117,
   114, 99, 101, 102, 105, 108, 101, 62, 60, 47, 112, 97, 99, 107, 97, 103, 101, 62, 60, 47, 114,
   101, 112, 111, 114, 116, 62]
/-- the sorted lcov report of `l1`, `j1`, `l2` -/
def sortedReport : Lcov.Bytes :=
  [84, 78, 58, 10, 83, 70, 58, 97, 46, 99, 10, 70, 78, 58, 49, 44, 102, 10, 70, 78, 68, 65, 58, 49,
   44, 102, 10, 70, 78, 70, 58, 49, 10, 70, 78, 72, 58, 49, 10, 66, 82, 68, 65, 58, 51, 44, 48, 44,
   48, 44, 49, 10, 66, 82, 68, 65, 58, 51, 44, 48, 44, 49, 44, 49, 10, 66, 82, 70, 58, 50, 10, 66,
   82, 72, 58, 50, 10, 68, 65, 58, 49, 44, 54, 10, 68, 65, 58, 50, 44, 49, 10, 68, 65, 58, 51, 44,
   48, 10, 76, 70, 58, 51, 10, 76, 72, 58, 50, 10, 101, 110, 100, 95, 111, 102, 95, 114, 101, 99,
   111, 114, 100, 10, 83, 70, 58, 98, 46, 99, 10, 66, 82, 70, 58, 48, 10, 66, 82, 72, 58, 48, 10,
   68, 65, 58, 50, 44, 53, 10, 76, 70, 58, 49, 10, 76, 72, 58, 49, 10, 101, 110, 100, 95, 111, 102,
   95, 114, 101, 99, 111, 114, 100, 10, 83, 70, 58, 112, 47, 65, 46, 106, 97, 118, 97, 10, 66, 82,
   68, 65, 58, 49, 44, 48, 44, 48, 44, 49, 10, 66, 82, 68, 65, 58, 49, 44, 48, 44, 49, 44, 45, 10,
   66, 82, 70, 58, 50, 10, 66, 82, 72, 58, 49, 10, 76, 70, 58, 48, 10, 76, 72, 58, 48, 10, 101,
   110, 100, 95, 111, 102, 95, 114, 101, 99, 111, 114, 100, 10]
def w0 : World := { fs := { files := [], dirs := [], cwd := [] }, text := fun _ => none }
def lcovSorted : Grcov.Cli.RunAll.Opts := { out := .lcov, branch := true, sortTypes := [.lcov] }
/-- a record as the writers walked it BEFORE fix 73c9152: functions in the iteration order of the
table (in the model: insertion order) -/
def presentOld (r : Rec) : Rec :=
  { r with cov := { lines := Grcov.Cli.sortByKey r.cov.lines, branches := Grcov.Cli.sortByKey r.cov.branches
                    functions := r.cov.functions } }
/-- the run with the old writers -/
def runOld (o : Grcov.Cli.RunAll.Opts) (w : World) (ins : List Input) : Res Lcov.Bytes :=
  match records o w ins with
  | .panic s => .panic s
  | .ok rs => render o ((ordered o rs).map presentOld)
end RunWit
open RunWit

/-- Regression example about the OLD writers (before fix 73c9152 they listed the functions of a file
in the iteration order of the function table): `a.c` described by `l1` (function `f`) and `l3`
(function `g`) was reported with `FN:1,f` before `FN:2,g` or after it depending on the order in
which the inputs were merged – the SORTED lcov reports of the two orders differed. With the writers
of the fix (`run`) the two reports are the same bytes, as `C02_run_perm_sorted_bytes` says. -/
theorem C02_run_old_fn_order_regression :
    runOld lcovSorted w0 [.lcov l1, .lcov l3] ≠ runOld lcovSorted w0 [.lcov l3, .lcov l1] ∧
    run lcovSorted w0 [.lcov l1, .lcov l3] = run lcovSorted w0 [.lcov l3, .lcov l1] := by
  decide +kernel

/-- non-vacuity of `C02_run_perm` / `C02_run_perm_sorted_bytes`: two tracefiles and a JaCoCo report
that overlap in `a.c` meet the hypotheses (parser results are maps, start lines agree), the sorted
lcov run on them succeeds with pairwise distinct paths, and – as the theorem says – a permutation of
the inputs writes the same bytes -/
example : InputsWF lcovSorted [.lcov l1, .jacoco j1, .lcov l2] ∧
    StartsAgreeB lcovSorted w0 [.lcov l1, .jacoco j1, .lcov l2] ∧
    sortedFor lcovSorted = true ∧
    run lcovSorted w0 [.lcov l1, .jacoco j1, .lcov l2] = .ok sortedReport ∧
    run lcovSorted w0 [.lcov l2, .lcov l1, .jacoco j1] = .ok sortedReport := by
  decide +kernel

/-- … and with three inputs that name different functions of `a.c` (`f` in `l1`, `g` in `l3`): all
six orders of the inputs write the same sorted report -/
example : ∀ p ∈ [[Input.lcov l1, .lcov l3, .lcov l2], [.lcov l1, .lcov l2, .lcov l3],
      [.lcov l3, .lcov l1, .lcov l2], [.lcov l3, .lcov l2, .lcov l1], [.lcov l2, .lcov l1, .lcov l3],
      [.lcov l2, .lcov l3, .lcov l1]],
    run lcovSorted w0 p = run lcovSorted w0 [.lcov l1, .lcov l2, .lcov l3] := by
  decide +kernel

/-- unsorted covdir: the bytes do not depend on the order of the inputs either (the children of a
node are a `BTreeMap`), and the report is not trivial -/
example : run { out := .covdir, branch := true } w0 [.lcov l1, .jacoco j1, .lcov l2]
      = run { out := .covdir, branch := true } w0 [.lcov l2, .lcov l1, .jacoco j1] ∧
    (match run { out := .covdir, branch := true } w0 [.lcov l1, .jacoco j1, .lcov l2] with
     | .ok b => decide (200 < b.length) | .panic _ => false) = true := by
  decide +kernel

/-- `C02_run_multi_is_single_runs` on a closed case: `-t lcov -t markdown -t html -o dir` on a tracefile
and a JaCoCo report ends normally with three artifacts (`lcov`, `markdown.md`, the directory `html`), and
the first is the single lcov run's report -/
example :
    (match runMulti lcovSorted w0 [.lcov l1, .jacoco j1, .lcov l2] [.stream .lcov, .stream .markdown, .html] with
     | .ok [.file n b, .file n' _, .dir n'' fs] =>
       decide (n = MainGlue.fixedName .lcov) && decide (n' = MainGlue.fixedName .markdown) &&
       decide (n'' = MainGlue.fixedName .html) && decide (b = sortedReport) && decide (fs.length = 7)
     | _ => false) = true := by
  decide +kernel

/-- `C02_run_rejected_contributes_nothing` on a closed case: `bad` is rejected although its first
section is fine; nothing of it reaches the cobertura report -/
example : rejected true (.lcov bad) ∧
    run { out := .cobertura, branch := true } w0 [.lcov l1, .lcov bad, .lcov l2]
      = run { out := .cobertura, branch := true } w0 [.lcov l1, .lcov l2] :=
  ⟨⟨"InvalidRecord", by decide +kernel⟩, C02_run_rejected_contributes_nothing _ _ [.lcov l1] [.lcov l2] _
    ⟨"InvalidRecord", by decide +kernel⟩⟩


end Grcov.Props.C02
