/-
C18 — reports stay well-formed, part JsonBytes: the JSON reports (covdir, coveralls(+), ade) are
`jsonSerialize` of a value tree (`Writers/JsonBytes.lean`, tied byte for byte to the real writers),
and `jsonParse` accepts every such byte string and returns the tree it was made from. So a name –
any bytes: quotes, backslashes, control characters, text that looks like JSON syntax – is carried
exactly and can neither add nor remove a record or a key: what is read back has the objects and
keys of the document, and those do not depend on the bytes of any string value.
-/
import GrcovModel.Lemmas.WritersJsonBytes
namespace Grcov.Props.C18
open Grcov AList Grcov.Writers Grcov.Writers.Docs Grcov.Writers.JsonBytes
open Grcov.Escape (Bytes)

/-- every document the writers build is accepted by the reader and read as itself -/
theorem C18_json_valid_and_exact (j : Json) (h : wf j = true) : jsonParse (jsonSerialize j) = some j :=
  jsonParse_jsonSerialize j h

/-- the number of objects and of keys read back are those of the document: nothing a string
contains can add a record or a key -/
theorem C18_json_shape_preserved (j : Json) (h : wf j = true) :
    (jsonParse (jsonSerialize j)).map (fun x => (countObjs x, countKeys x)) = some (countObjs j, countKeys j) := by
  rw [jsonParse_jsonSerialize j h]; rfl

/-- a coveralls file entry read back from the bytes is the entry of the document, for ANY name and
digest bytes -/
theorem C18_json_coveralls_entry_exact (g : Bytes) (f : CvFile) :
    (jsonParse (jsonSerialize (cvFileJson g f))).bind decFile = some f := by
  rw [jsonParse_jsonSerialize _ (wf_cvFileJson g f)]
  exact decFile_cvFileJson g f

/-- hostile names: one file whose name is `"},{"name":"x` – one object with one name comes back -/
example : (jsonParse (jsonSerialize (cvFileJson [] ⟨[34, 125, 44, 123, 34, 110, 97, 109, 101, 34, 58, 34, 120], [], [], none⟩))).map
    (fun x => (countObjs x, countKeys x)) = some (1, 4) := by
  rw [jsonParse_jsonSerialize _ (wf_cvFileJson _ _)]; decide

end Grcov.Props.C18
