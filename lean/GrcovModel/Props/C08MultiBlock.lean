/-
C08, lines that live in several basic blocks (`get_line_count`, `get_cycles_count`,
`look_for_circuit`, `unblock` of src/reader.rs; the model is `getLineCount` of Gcno.lean, tied to
`Gcno::compute` by harness/c08).  gcov defines the count of such a line as the number of times
control ENTERS the line's blocks from outside plus the number of times it goes round a circuit
inside them.  Proved here, for every control-flow graph whose adjacency lists are consistent
(`Adj`, part of `SpanForest`; what `read_gcno` builds) and every counter assignment:

 1. no circuit among the line's blocks ⇒ the count is exactly the entering part (`entryPart`: per
    block occurrence the counts of the arcs from blocks that are not on the line; for the block
    numbered 0 its outgoing arcs, as the code does) – `C08_multi_block_acyclic`, and composed with
    flow recovery, from the gcda records to the reported line, in terms of the true flow –
    `C08_multi_block_acyclic_end_to_end`;
 2. any shape: entering part ≤ count ≤ entering part + total count of the arcs inside the line
    (each circuit found is paid for by the arcs it cancels), which for recovered flows is
    ≤ the sum of the line's block counts – `C08_multi_block_bounds`, `…_le_block_counts`,
    `…_bounds_end_to_end`;
    exactly one simple loop on the line ⇒ count = entering part + smallest count on the loop –
    `C08_multi_block_one_loop`, `…_one_loop_end_to_end`;
    k+1 copies of a gcda give (k+1) times every line count, multi-block lines with any circuit
    structure included (the search never looks at a counter value to decide where to go) –
    `C08_line_count_k_runs`; a function that was not entered reports 0 on all its lines –
    `C08_not_executed_all_lines_zero`;
 3. count > 0 ⇒ some block of the line has a positive count (always); conversely when every
    executed block is reached from the entered entry block along executed arcs (true of every
    real profile) – `C08_multi_block_positive_iff`.
The statements about the search are of the form "if it returns `ok`": it always returns, and its
only crash is the recorded u64 overflow (`C08_multi_block_search_total`, from the C14 package).
What stays open: an exact closed form for lines with several interlocking circuits – there the
result depends on the enumeration order (`C08_cycle_split_not_unique`, known finding
C08-irreducible-line-cycles); only the bounds of (2) are proved for them.
-/
import GrcovModel.Lemmas.GcnoMultiBlock
namespace Grcov.Props.C08
open Grcov Grcov.Gcno AList Outcome

/-! ### 1. no circuit on the line -/

/-- **Acyclic line.** `f` any function with consistent adjacency lists, `cnt` any arc counts,
`bs` the block occurrences of a line (any list, repetitions allowed). If no non-empty closed chain
of arcs stays among the blocks `bs` (`NoCycle`), then whenever `get_line_count` returns, it
returns the entering part: the cycle search adds nothing. -/
theorem C08_multi_block_acyclic (f : Func) (hA : Adj f) (cnt : Nat → Nat) (bs : List Nat)
    (hN : NoCycle f bs) (cyc cyc' : Nat → Nat) (n : Nat)
    (h : getLineCount f cnt bs cyc = ok (cyc', n)) : n = entryPart f cnt bs :=
  getLineCount_acyclic hA cnt bs hN cyc cyc' n h

/-- `NoCycle` is checkable: a rank that goes up along every arc inside the line (for instance the
block number, when the line's blocks are numbered in topological order) certifies it. -/
theorem C08_acyclic_certificate_sound (f : Func) (hA : Adj f) (bs : List Nat) (rk : Nat → Nat)
    (h : acyclicCert f bs rk = true) : NoCycle f bs :=
  noCycle_of_cert hA h

/-- **Acyclic line, end to end.** Notes with one function `f` (≥ 2 blocks) whose on-tree arcs with
the virtual arc form a spanning forest; `F` a conserved flow that enters the function; the gcda
that records `F`. If line `l` lives in the block occurrences `bs` (not exactly one) and these
blocks carry no circuit, then whenever `compute` accepts the gcda it reports for `l` the entering
part computed from the TRUE arc counts `F` – through `read_gcda`, `count_on_tree`, the multi-block
rule with its cycle search, and the merge of `finalize`. -/
theorem C08_multi_block_acyclic_end_to_end (version checksum : Nat) (f : Func)
    (depth parc root F : Nat → Nat) (br : Bool) (r : List (Bytes × Cov)) (l : Nat) (bs : List Nat)
    (hn : f.blocks.length ≥ 2) (hre : f.realEdgeCount < 4294967296)
    (hT : SpanForest (addVirtualArc version f) depth parc root)
    (hF : Flow (addVirtualArc version f) F) (hent : F 0 > 0)
    (hl : (l, bs) ∈ linesToBlock (addVirtualArc version f)) (hlen : bs.length ≠ 1)
    (hN : NoCycle (addVirtualArc version f) bs)
    (h : compute ⟨version, checksum, [f]⟩ [flowGcda version checksum f F] br = ok r) :
    ∃ cov, get? r f.fileName = some cov ∧
      get? cov.lines l = some (entryPart (addVirtualArc version f) F bs) := by
  obtain ⟨c', cov, cyc, cyc', n, h3, _, hcov, hg, hline⟩ :=
    compute_flowGcda_multi version checksum f depth parc root F br r l bs hn hre hT hF hent hl hlen h
  refine ⟨cov, hcov, ?_⟩
  rw [hline, getLineCount_acyclic hT.adj _ bs hN cyc cyc' n hg, entryPart_congr hT.adj h3]

/-! ### 2. any shape: bounds; one loop: exact -/

/-- **Bounds, any shape.** Whatever circuits the line's blocks carry and in whatever order the
search enumerates them: entering part ≤ count ≤ entering part + total count of the arcs with both
ends on the line. (Each circuit found contributes the smallest `cycles` on it and subtracts it
from its arcs, so what the search adds is paid for by those arcs.) -/
theorem C08_multi_block_bounds (f : Func) (hA : Adj f) (cnt : Nat → Nat) (bs : List Nat)
    (cyc cyc' : Nat → Nat) (n : Nat) (h : getLineCount f cnt bs cyc = ok (cyc', n)) :
    entryPart f cnt bs ≤ n ∧ n ≤ entryPart f cnt bs + intSum f cnt bs :=
  getLineCount_bounds hA cnt bs cyc cyc' n h

/-- …and when the block counters are the blocks' inflow = outflow (what `count_on_tree` leaves for
a conserved flow: `C08_block_count_is_inflow`) and the block numbered 0 has no predecessor on the
line, the upper bound is the sum of the line's block counts. -/
theorem C08_multi_block_le_block_counts (f : Func) (hA : Adj f) (cnt blkc : Nat → Nat)
    (bs : List Nat) (hC : CountsAreFlow f cnt blkc bs) (hE : EntryNoPred f bs)
    (cyc cyc' : Nat → Nat) (n : Nat) (h : getLineCount f cnt bs cyc = ok (cyc', n)) :
    n ≤ blkSum blkc bs := by
  have := (getLineCount_bounds hA cnt bs cyc cyc' n h).2
  rw [entry_plus_int_eq_blkSum cnt blkc bs hC hE] at this
  exact this

/-- block 0 with a self arc, on one line with block 2: arcs 0: 0→0, 1: 0→2*, 2: 2→1*, virtual 3: 1→0* -/
def selfEntryFunc : Func :=
  match build 48 7
    [.func 1 11 22 [102] [97, 46, 99] 10 0, .blocks 3,
     .arcs 0 [(0, 0), (2, 1)], .arcs 2 [(1, 1)],
     .lines 0 [.file [97, 46, 99], .line 11], .lines 2 [.file [97, 46, 99], .line 11]] with
  | .ok g => g.funcs.headD ⟨0, 0, 0, 0, 0, [], [], [], []⟩
  | _ => ⟨0, 0, 0, 0, 0, [], [], [], []⟩

def selfEntryFlow (e : Nat) : Nat := [5, 1, 1, 1].getD e 0

/-- The guard `EntryNoPred` of `C08_multi_block_le_block_counts` is needed: when the block
numbered 0 has a predecessor on the line (here a self arc – no compiler emits an arc into the
entry block) its outflow is counted by the first loop AND the circuit through it by the cycle
search: consistent counters, count 11, block counts 6 + 1. -/
theorem C08_multi_block_le_block_counts_guard_needed :
    wfShape (addVirtualArc 48 selfEntryFunc) = true ∧
    flowB (addVirtualArc 48 selfEntryFunc) selfEntryFlow = true ∧
    entryNoPredB (addVirtualArc 48 selfEntryFunc) [0, 2] = false ∧
    cyclesOf (getLineCount (addVirtualArc 48 selfEntryFunc) selfEntryFlow [0, 2] (fun _ => 0))
      = some 11 ∧
    blkSum (inflow (addVirtualArc 48 selfEntryFunc) selfEntryFlow) [0, 2] = 7 := by
  decide +kernel

/-- **Bounds, end to end**, in terms of the true flow `F`: the reported count of a multi-block line
lies between the entering part and the total inflow of the line's blocks. -/
theorem C08_multi_block_bounds_end_to_end (version checksum : Nat) (f : Func)
    (depth parc root F : Nat → Nat) (br : Bool) (r : List (Bytes × Cov)) (l : Nat) (bs : List Nat)
    (hn : f.blocks.length ≥ 2) (hre : f.realEdgeCount < 4294967296)
    (hT : SpanForest (addVirtualArc version f) depth parc root)
    (hF : Flow (addVirtualArc version f) F) (hent : F 0 > 0)
    (hl : (l, bs) ∈ linesToBlock (addVirtualArc version f)) (hlen : bs.length ≠ 1)
    (hbs : ∀ b ∈ bs, b < (addVirtualArc version f).blocks.length)
    (hE : EntryNoPred (addVirtualArc version f) bs)
    (h : compute ⟨version, checksum, [f]⟩ [flowGcda version checksum f F] br = ok r) :
    ∃ cov n, get? r f.fileName = some cov ∧ get? cov.lines l = some n ∧
      entryPart (addVirtualArc version f) F bs ≤ n ∧
      n ≤ blkSum (inflow (addVirtualArc version f) F) bs := by
  obtain ⟨c', cov, cyc, cyc', n, h3, h4, hcov, hg, hline⟩ :=
    compute_flowGcda_multi version checksum f depth parc root F br r l bs hn hre hT hF hent hl hlen h
  have hA := hT.adj
  have hb := getLineCount_bounds hA _ bs cyc cyc' n hg
  rw [entryPart_congr hA h3, intSum_congr hA h3] at hb
  have hC := countsAreFlow_of_flow hF hbs
  rw [entry_plus_int_eq_blkSum F _ bs hC hE] at hb
  exact ⟨cov, n, hcov, hline, hb.1, hb.2⟩

/-- **One simple loop on the line.** If the only circuit among the line's blocks is one simple
loop (`OneLoop`: listed from its smallest block `m`, every closed chain of arcs among `bs` uses
loop arcs only – other arcs inside the line, like the arc from a `for` statement's initialiser to
its condition, are allowed), then the count is the entering part plus the smallest count on the
loop's arcs. `bs` may repeat blocks; the loop is found from `m` and cancelled once. -/
theorem C08_multi_block_one_loop (f : Func) (hA : Adj f) (cnt : Nat → Nat) (bs loop : List Nat)
    (m : Nat) (hL : OneLoop f bs loop m) (hfit : ∀ e ∈ loop, cnt e ≤ U64MAX)
    (cyc cyc' : Nat → Nat) (n : Nat) (h : getLineCount f cnt bs cyc = ok (cyc', n)) :
    n = entryPart f cnt bs + minOn cnt loop :=
  getLineCount_oneLoop hA cnt hL hfit cyc cyc' n h

/-- `OneLoop` is checkable: `loopCert` (the loop is a closed chain from its smallest block through
pairwise different blocks of the line, and every other arc inside the line goes up in a rank that
is constant on the loop) implies it. -/
theorem C08_loop_certificate_sound (f : Func) (hA : Adj f) (bs loop : List Nat) (rk : Nat → Nat)
    (h : loopCert f bs loop rk = true) : ∃ m, OneLoop f bs loop m :=
  let ⟨m, hm, _⟩ := oneLoop_of_cert hA h
  ⟨m, hm⟩

/-- The classification the driver reports for a line (`lineClass`, compared by the harness with an
independent classification of the real `Gcno` state) is certified: class 0 ⇒ `NoCycle`, class 1 ⇒
`OneLoop` for the loop reported with it. -/
theorem C08_line_class_sound (f : Func) (hA : Adj f) (bs : List Nat) :
    ((lineClass f bs).1 = 0 → NoCycle f bs) ∧
    ((lineClass f bs).1 = 1 → ∃ m, OneLoop f bs (lineClass f bs).2 m) :=
  lineClass_sound hA bs

/-- **One loop, end to end**, in terms of the true flow `F`: entering part + smallest flow on the
loop (for a one-line `for`/`while`: times the statement was reached + times the back arc was
taken). -/
theorem C08_multi_block_one_loop_end_to_end (version checksum : Nat) (f : Func)
    (depth parc root F : Nat → Nat) (br : Bool) (r : List (Bytes × Cov)) (l : Nat)
    (bs loop : List Nat) (m : Nat)
    (hn : f.blocks.length ≥ 2) (hre : f.realEdgeCount < 4294967296)
    (hT : SpanForest (addVirtualArc version f) depth parc root)
    (hF : Flow (addVirtualArc version f) F) (hent : F 0 > 0)
    (hl : (l, bs) ∈ linesToBlock (addVirtualArc version f)) (hlen : bs.length ≠ 1)
    (hL : OneLoop (addVirtualArc version f) bs loop m)
    (h : compute ⟨version, checksum, [f]⟩ [flowGcda version checksum f F] br = ok r) :
    ∃ cov, get? r f.fileName = some cov ∧
      get? cov.lines l = some (entryPart (addVirtualArc version f) F bs + minOn F loop) := by
  obtain ⟨c', cov, cyc, cyc', n, h3, _, hcov, hg, hline⟩ :=
    compute_flowGcda_multi version checksum f depth parc root F br r l bs hn hre hT hF hent hl hlen h
  have hA := hT.adj
  have hloop : ∀ e ∈ loop, c'.arc e = F e := fun e he => by
    obtain ⟨a, ha⟩ := hL.walk.arcs_some e he
    exact h3 e a ha
  have hfit : ∀ e ∈ loop, c'.arc e ≤ U64MAX := by
    intro e he
    obtain ⟨a, ha⟩ := hL.walk.arcs_some e he
    obtain ⟨blk, hblk, hin⟩ := hA.mem_src ha
    rw [hloop e he]
    exact Nat.le_trans (le_sum_of_mem F blk.source e hin) (hF.bounded _ blk hblk)
  refine ⟨cov, hcov, ?_⟩
  rw [hline, getLineCount_oneLoop hA _ hL hfit cyc cyc' n hg, entryPart_congr hA h3,
    minOn_congr loop hloop]

/-- **k+1 runs scale every line**, multi-block lines with any circuit structure included: for all
notes and every gcda, if `compute` accepts k+1 copies it accepts one, and every line count of the
k+1 copies is (k+1) times the count of one copy. (The cycle search decides where to go from the
shape alone – even a circuit whose smallest count is 0 is "found" – so scaling the counters
scales every minimum and every subtraction; this is `C15_k_copies` read line by line.) -/
theorem C08_line_count_k_runs (g : Notes) (d : Gcda) (k : Nat) (br : Bool)
    (rk : List (Bytes × Cov)) (h : compute g (List.replicate (k + 1) d) br = ok rk) :
    ∃ r1, compute g [d] br = ok r1 ∧
      ∀ (file : Bytes) (cov1 : Cov) (l n : Nat), get? r1 file = some cov1 →
        get? cov1.lines l = some n →
        ∃ covk, get? rk file = some covk ∧ get? covk.lines l = some ((k + 1) * n) := by
  obtain ⟨r1, h1, e⟩ := compute_replicate h
  subst e
  refine ⟨r1, h1, ?_⟩
  intro file cov1 l n hc hl
  refine ⟨scaleCov (k + 1) cov1, ?_, ?_⟩
  · unfold scaleRes
    rw [get?_map (scaleCov (k + 1)) r1 file, hc]; rfl
  · unfold scaleCov scaleLines
    simp only
    rw [get?_map (fun n => (k + 1) * n) cov1.lines l, hl]; rfl

/-- A function that was not entered (no arc, or a zero count on its first arc) reports 0 for every
one of its lines, single- or multi-block. -/
theorem C08_not_executed_all_lines_zero (f : Func) (c : Cnt) (h : entered f c = false) :
    ∃ ls, addLineCount f c = ok (false, ls) ∧ ∀ p ∈ ls, p.2 = 0 := by
  unfold addLineCount
  rw [h]
  exact ⟨_, rfl, zeroLines_zero _ [] (fun q hq => by cases hq)⟩

/-- The search always returns: on a well-formed function `get_line_count` neither runs out of
fuel nor panics on an index or a subtraction; its only crash is a u64 sum that overflows. -/
theorem C08_multi_block_search_total (f : Func) (hf : f.WF) (cnt : Nat → Nat) (bs : List Nat)
    (cyc : Nat → Nat) (hbs : ∀ b ∈ bs, b < f.blocks.length) :
    getLineCount f cnt bs cyc ≠ diverge ∧
      ∀ s, getLineCount f cnt bs cyc = crash s → s = Site.overflow := by
  have := getLineCount_ov hf cnt bs cyc hbs
  refine ⟨this.ne_diverge, fun s hs => ?_⟩
  rw [hs] at this
  exact this

/-! ### 3. positive count ⇔ an executed block -/

/-- **The line is reported as hit iff one of its blocks was executed.** Block counters = inflow =
outflow on the line's blocks, the block numbered 0 without predecessor on the line. Then a
positive line count implies a block of the line with a positive count – always. Conversely, if
the entry block (index 0, numbered 0) was left at least once and every block of the line with a
positive count is reached from it along arcs with positive counts (true of every profile that
comes from executions), a positive block count makes the line count positive: the walk from the
entry has to enter the line somewhere, so already the entering part is positive. (Without the
reachability clause the converse would need completeness of the circuit enumeration for
circulations that no execution produces; not proved.) -/
theorem C08_multi_block_positive_iff (f : Func) (hA : Adj f) (cnt blkc : Nat → Nat) (bs : List Nat)
    (hC : CountsAreFlow f cnt blkc bs) (hE : EntryNoPred f bs)
    (h0 : ∃ blk, f.blocks[0]? = some blk ∧ blk.no = 0 ∧ 0 < (blk.destination.map cnt).sum)
    (hreach : ∀ b ∈ bs, 0 < blkc b → PosReach f cnt b)
    (cyc cyc' : Nat → Nat) (n : Nat) (h : getLineCount f cnt bs cyc = ok (cyc', n)) :
    0 < n ↔ ∃ b ∈ bs, 0 < blkc b := by
  constructor
  · intro hn
    have := C08_multi_block_le_block_counts f hA cnt blkc bs hC hE cyc cyc' n h
    exact sum_pos_mem blkc bs (by unfold blkSum at this; omega)
  · rintro ⟨b, hb, hpos⟩
    have hflow : ∀ b ∈ bs, ∀ blk, f.blocks[b]? = some blk →
        (blk.source.map cnt).sum = (blk.destination.map cnt).sum := by
      intro b hb blk hblk
      obtain ⟨blk', hblk', e1, e2⟩ := hC b hb
      rw [hblk] at hblk'
      cases hblk'
      omega
    have := entryPart_pos hA cnt bs hflow h0 (hreach b hb hpos) hb
    have := (getLineCount_bounds hA cnt bs cyc cyc' n h).1
    omega

/-- The first half needs no reachability: a line reported as hit has an executed block. -/
theorem C08_multi_block_positive_has_executed_block (f : Func) (hA : Adj f) (cnt blkc : Nat → Nat)
    (bs : List Nat) (hC : CountsAreFlow f cnt blkc bs) (hE : EntryNoPred f bs)
    (cyc cyc' : Nat → Nat) (n : Nat) (h : getLineCount f cnt bs cyc = ok (cyc', n)) (hn : 0 < n) :
    ∃ b ∈ bs, 0 < blkc b := by
  have := C08_multi_block_le_block_counts f hA cnt blkc bs hC hE cyc cyc' n h
  exact sum_pos_mem blkc bs (by unfold blkSum at this; omega)

/-! ### the hypotheses are satisfiable -/

/-- `r = a && b ? c : d;` on line 11 (LLVM 4.8 layout: 0 = entry, 1 = exit): blocks 2 (test a;
also carries the function line 10), 3 (test b), 4 (c), 5 (d), 6 (join; also line 12).
Arcs 0: 0→2*, 1: 2→3*, 2: 2→5*, 3: 3→4*, 4: 3→5, 5: 4→6*, 6: 5→6, 7: 6→1; virtual 8: 1→0*. -/
def condFunc : Func :=
  match build 48 7
    [.func 1 11 22 [102] [97, 46, 99] 10 0, .blocks 7,
     .arcs 0 [(2, 1)], .arcs 2 [(3, 1), (5, 1)], .arcs 3 [(4, 1), (5, 0)], .arcs 4 [(6, 1)],
     .arcs 5 [(6, 0)], .arcs 6 [(1, 0)],
     .lines 2 [.file [97, 46, 99], .line 10, .line 11], .lines 3 [.file [97, 46, 99], .line 11],
     .lines 4 [.file [97, 46, 99], .line 11], .lines 5 [.file [97, 46, 99], .line 11],
     .lines 6 [.file [97, 46, 99], .line 11, .line 12]] with
  | .ok g => g.funcs.headD ⟨0, 0, 0, 0, 0, [], [], [], []⟩
  | _ => ⟨0, 0, 0, 0, 0, [], [], [], []⟩

/-- ten runs: `a` true 7 times, of which `b` true 4 times -/
def condFlow (e : Nat) : Nat := [10, 7, 3, 4, 3, 4, 6, 10, 10].getD e 0

/-- the line's blocks are numbered in topological order: the block number is a rank -/
example : isSpanTree (addVirtualArc 48 condFunc) = true ∧
    flowB (addVirtualArc 48 condFunc) condFlow = true ∧ condFlow 0 > 0 ∧
    condFunc.realEdgeCount = 3 ∧
    (11, [2, 3, 4, 5, 6]) ∈ linesToBlock (addVirtualArc 48 condFunc) ∧
    acyclicCert (addVirtualArc 48 condFunc) [2, 3, 4, 5, 6] id = true ∧
    entryPart (addVirtualArc 48 condFunc) condFlow [2, 3, 4, 5, 6] = 10 ∧
    intSum (addVirtualArc 48 condFunc) condFlow [2, 3, 4, 5, 6] = 27 ∧
    blkSum (inflow (addVirtualArc 48 condFunc) condFlow) [2, 3, 4, 5, 6] = 37 ∧
    lineCountOf (compute ⟨48, 7, [condFunc]⟩ [flowGcda 48 7 condFunc condFlow] true) 11 = some 10 ∧
    lineCountOf (compute ⟨48, 7, [condFunc]⟩
      (List.replicate 3 (flowGcda 48 7 condFunc condFlow)) true) 11 = some 30 := by
  decide +kernel

/-- `for (i = 0; i < n; i++) x += i;` on line 11: blocks 2 (init; also line 10), 3 (condition),
4 (body), 5 (increment), 6 (after the loop, line 12).
Arcs 0: 0→2*, 1: 2→3*, 2: 3→4*, 3: 3→6*, 4: 4→5*, 5: 5→3, 6: 6→1; virtual 7: 1→0*.
The loop 3→4→5→3 is the arcs [2, 4, 5]; the arc 2→3 is inside the line but on no circuit. -/
def forFunc : Func :=
  match build 48 7
    [.func 1 11 22 [102] [97, 46, 99] 10 0, .blocks 7,
     .arcs 0 [(2, 1)], .arcs 2 [(3, 1)], .arcs 3 [(4, 1), (6, 1)], .arcs 4 [(5, 1)],
     .arcs 5 [(3, 0)], .arcs 6 [(1, 0)],
     .lines 2 [.file [97, 46, 99], .line 10, .line 11], .lines 3 [.file [97, 46, 99], .line 11],
     .lines 4 [.file [97, 46, 99], .line 11], .lines 5 [.file [97, 46, 99], .line 11],
     .lines 6 [.file [97, 46, 99], .line 12]] with
  | .ok g => g.funcs.headD ⟨0, 0, 0, 0, 0, [], [], [], []⟩
  | _ => ⟨0, 0, 0, 0, 0, [], [], [], []⟩

/-- reached twice, seven iterations in all -/
def forFlow (e : Nat) : Nat := [2, 2, 7, 2, 7, 7, 2, 2].getD e 0

/-- rank: the initialiser below the loop, the loop blocks level -/
def forRank (b : Nat) : Nat := if b = 2 then 0 else 1

example : isSpanTree (addVirtualArc 48 forFunc) = true ∧
    flowB (addVirtualArc 48 forFunc) forFlow = true ∧ forFlow 0 > 0 ∧
    forFunc.realEdgeCount = 2 ∧
    (11, [2, 3, 4, 5]) ∈ linesToBlock (addVirtualArc 48 forFunc) ∧
    loopCert (addVirtualArc 48 forFunc) [2, 3, 4, 5] [2, 4, 5] forRank = true ∧
    lineClass (addVirtualArc 48 forFunc) [2, 3, 4, 5] = (1, [2, 4, 5]) ∧
    entryPart (addVirtualArc 48 forFunc) forFlow [2, 3, 4, 5] = 2 ∧
    minOn forFlow [2, 4, 5] = 7 ∧
    lineCountOf (compute ⟨48, 7, [forFunc]⟩ [flowGcda 48 7 forFunc forFlow] true) 11 = some 9 := by
  decide +kernel

/-- the hypotheses of the positivity theorem on the `for` line: the counters are the flow, the
entry block is not on the line, every block of the line is reached from the entry along executed
arcs -/
example : CountsAreFlow (addVirtualArc 48 forFunc) forFlow
      (inflow (addVirtualArc 48 forFunc) forFlow) [2, 3, 4, 5] ∧
    EntryNoPred (addVirtualArc 48 forFunc) [2, 3, 4, 5] ∧
    (∀ b ∈ [2, 3, 4, 5], PosReach (addVirtualArc 48 forFunc) forFlow b) := by
  have a0 : (addVirtualArc 48 forFunc).arcs[0]? = some ⟨0, 2, 1⟩ := by decide +kernel
  have a1 : (addVirtualArc 48 forFunc).arcs[1]? = some ⟨2, 3, 1⟩ := by decide +kernel
  have a2 : (addVirtualArc 48 forFunc).arcs[2]? = some ⟨3, 4, 1⟩ := by decide +kernel
  have a4 : (addVirtualArc 48 forFunc).arcs[4]? = some ⟨4, 5, 1⟩ := by decide +kernel
  have p2 : PosReach (addVirtualArc 48 forFunc) forFlow 2 :=
    PosReach.step a0 (by decide) PosReach.entry
  have p3 : PosReach (addVirtualArc 48 forFunc) forFlow 3 := PosReach.step a1 (by decide) p2
  have p4 : PosReach (addVirtualArc 48 forFunc) forFlow 4 := PosReach.step a2 (by decide) p3
  have p5 : PosReach (addVirtualArc 48 forFunc) forFlow 5 := PosReach.step a4 (by decide) p4
  refine ⟨countsAreFlow_of_flow (flow_of_flowB (by decide +kernel)) (by decide +kernel),
    entryNoPred_of_B (by decide +kernel), ?_⟩
  · intro b hb
    simp only [List.mem_cons, List.mem_nil_iff, or_false] at hb
    rcases hb with rfl | rfl | rfl | rfl
    · exact p2
    · exact p3
    · exact p4
    · exact p5

/-- the theorems apply to these functions: the acyclic line of `condFunc`, end to end -/
example (r : List (Bytes × Cov))
    (h : compute ⟨48, 7, [condFunc]⟩ [flowGcda 48 7 condFunc condFlow] true = ok r) :
    ∃ cov, get? r condFunc.fileName = some cov ∧ get? cov.lines 11 = some 10 := by
  obtain ⟨depth, parc, root, hT⟩ :=
    spanForest_of_isSpanTree (f := addVirtualArc 48 condFunc) (by decide +kernel)
  have hN := C08_acyclic_certificate_sound _ hT.adj [2, 3, 4, 5, 6] id (by decide +kernel)
  have := C08_multi_block_acyclic_end_to_end 48 7 condFunc depth parc root condFlow true r 11
    [2, 3, 4, 5, 6] (by decide +kernel) (by decide +kernel) hT (flow_of_flowB (by decide +kernel))
    (by decide) (by decide +kernel) (by decide) hN h
  have e : entryPart (addVirtualArc 48 condFunc) condFlow [2, 3, 4, 5, 6] = 10 := by decide +kernel
  rw [e] at this
  exact this

/-- …and the one-line `for` of `forFunc`: reached twice + seven times round the loop -/
example (r : List (Bytes × Cov))
    (h : compute ⟨48, 7, [forFunc]⟩ [flowGcda 48 7 forFunc forFlow] true = ok r) :
    ∃ cov, get? r forFunc.fileName = some cov ∧ get? cov.lines 11 = some 9 := by
  obtain ⟨depth, parc, root, hT⟩ :=
    spanForest_of_isSpanTree (f := addVirtualArc 48 forFunc) (by decide +kernel)
  obtain ⟨m, hL⟩ := C08_loop_certificate_sound _ hT.adj [2, 3, 4, 5] [2, 4, 5] forRank
    (by decide +kernel)
  have := C08_multi_block_one_loop_end_to_end 48 7 forFunc depth parc root forFlow true r 11
    [2, 3, 4, 5] [2, 4, 5] m (by decide +kernel) (by decide +kernel) hT
    (flow_of_flowB (by decide +kernel)) (by decide) (by decide +kernel) (by decide) hL h
  have e : entryPart (addVirtualArc 48 forFunc) forFlow [2, 3, 4, 5] + minOn forFlow [2, 4, 5] = 9 := by
    decide +kernel
  rw [e] at this
  exact this

/-- `for (i…) for (j…) x++;` on line 11: blocks 2 (init i; also line 10), 3 (cond i), 4 (init j),
5 (cond j), 6 (body), 7 (inc j), 8 (inc i), 9 (after, line 12). Two circuits that share block 5:
only the bounds apply (class 2). One call, two outer and six inner iterations: entering part 1,
count 9 = 1 + 2 + 6, sum of the block counts 28. -/
def nestFunc : Func :=
  match build 48 7
    [.func 1 11 22 [102] [97, 46, 99] 10 0, .blocks 10,
     .arcs 0 [(2, 1)], .arcs 2 [(3, 1)], .arcs 3 [(4, 1), (9, 1)], .arcs 4 [(5, 1)],
     .arcs 5 [(6, 1), (8, 1)], .arcs 6 [(7, 1)], .arcs 7 [(5, 0)], .arcs 8 [(3, 0)],
     .arcs 9 [(1, 0)],
     .lines 2 [.file [97, 46, 99], .line 10, .line 11], .lines 3 [.file [97, 46, 99], .line 11],
     .lines 4 [.file [97, 46, 99], .line 11], .lines 5 [.file [97, 46, 99], .line 11],
     .lines 6 [.file [97, 46, 99], .line 11], .lines 7 [.file [97, 46, 99], .line 11],
     .lines 8 [.file [97, 46, 99], .line 11], .lines 9 [.file [97, 46, 99], .line 12]] with
  | .ok g => g.funcs.headD ⟨0, 0, 0, 0, 0, [], [], [], []⟩
  | _ => ⟨0, 0, 0, 0, 0, [], [], [], []⟩

def nestFlow (e : Nat) : Nat := [1, 1, 2, 1, 2, 6, 2, 6, 6, 2, 1, 1].getD e 0

example : isSpanTree (addVirtualArc 48 nestFunc) = true ∧
    flowB (addVirtualArc 48 nestFunc) nestFlow = true ∧
    (11, [2, 3, 4, 5, 6, 7, 8]) ∈ linesToBlock (addVirtualArc 48 nestFunc) ∧
    (lineClass (addVirtualArc 48 nestFunc) [2, 3, 4, 5, 6, 7, 8]).1 = 2 ∧
    entryNoPredB (addVirtualArc 48 nestFunc) [2, 3, 4, 5, 6, 7, 8] = true ∧
    entryPart (addVirtualArc 48 nestFunc) nestFlow [2, 3, 4, 5, 6, 7, 8] = 1 ∧
    lineCountOf (compute ⟨48, 7, [nestFunc]⟩ [flowGcda 48 7 nestFunc nestFlow] true) 11 = some 9 ∧
    blkSum (inflow (addVirtualArc 48 nestFunc) nestFlow) [2, 3, 4, 5, 6, 7, 8] = 28 := by
  decide +kernel

end Grcov.Props.C08
