/-
C15, part `Run` — "run data only scales counts" for ONE WHOLE RUN of the binary in LLVM mode: a
directory with a notes file and run data files of the same stem is one `ItemType::Buffers` work item
(producer.rs 381-398), `consumer` computes it with `Gcno::compute` (lib.rs 306-323) and the result
goes through `add_results`, `rewrite_paths` (with exclusion markers and `--filter`), the ordering of
`main` and `output_lcov`. In the model: `Cli.RunAll.run o w [.gcno stem gcno gcdas]`
(GrcovModel/Cli/RunAll.lean; `contents (.gcno …) = Gcno.computeBytes …`), tied to the real binary byte
for byte by the `runmore.gcno` stream of harness/c02.

`C15_run_k_copies` composes `C15_bytes_k_copies` (Props/C15Bytes.lean) with the run: the lcov report
of the run over `k+1` copies of one gcda is the report of the run over one copy with every DA count
multiplied by `k+1` – same files in the same order, same FN / FNDA records, same BRDA records, same
set of DA lines (`C15_run_scaled_report_keeps_all_but_counts`) – for every option set: exclusion
markers remove keys, `--filter covered|uncovered` looks at "count ≠ 0", the sorts look at paths.
Hypotheses: the item is accepted (`computeBytes … = ok`), the files of the notes are filed under
pairwise distinct keys by `add_results` (otherwise two records are MERGED, and the merge clamps at
2^64-1: multiplication does not commute with clamping), and the iteration order of the result map
depends on the keys only (`HashOrder.KeysOnly`: true of insertion order and of every order the
harness reads off a report).
`C15_run_structure_independent_of_gcda`: for ANY two accepted gcda lists (without `--filter`) the two
reports have the same files, DA line sets, BRDA slots and FN records.
Helper lemmas: GrcovModel/Lemmas/CliRunAllScale.lean, CliRunAllShape.lean.
-/
import GrcovModel.Lemmas.CliRunAllScale
import GrcovModel.Lemmas.CliRunAllShape
import GrcovModel.Props.C15Bytes
namespace Grcov.Props.C15
open Grcov Grcov.Gcno AList Outcome Grcov.Rewrite Grcov.Cli.RunAll
open Grcov.Lcov (printLcov)

/-- what a gcno item contributes when `Gcno::compute` accepts it -/
theorem C15_run_contents_gcno (br : Bool) (st g : List Nat) (ds : List (List Nat)) (r : List (Bytes × Cov))
    (h : computeBytes g ds br = ok r) :
    contents br (.gcno st g ds) = r ∧ Cli.RunAll.crash br (.gcno st g ds) = none := by
  simp [contents, Cli.RunAll.crash, h]

/-- … and when it rejects it (`Err`: logged, `Vec::new()`): nothing, and the run goes on. -/
theorem C15_run_rejected_gcno (br : Bool) (st g : List Nat) (ds : List (List Nat)) (k : ErrKind)
    (h : computeBytes g ds br = err k) :
    contents br (.gcno st g ds) = [] ∧ Cli.RunAll.crash br (.gcno st g ds) = none := by
  simp [contents, Cli.RunAll.crash, h]

/-- **k copies of one gcda, whole run.** If `Gcno::compute` accepts the notes with `k+1` copies of a
gcda and the files it names are filed under distinct keys, then either both runs end without a
report (the same panic site of `rewrite_paths`: it depends on the keys only), or the run over ONE
copy writes an lcov report `printLcov L` and the run over the `k+1` copies writes
`printLcov (scaleRes (k+1) L)`: the same sections in the same order, every line count multiplied
by `k+1`, everything else – FN, FNDA, BRDA, the set of DA lines – identical. All options. -/
theorem C15_run_k_copies (o : Opts) (w : World) (st g d : List Nat) (k : Nat) (rk : List (Bytes × Cov))
    (ho : o.out = .lcov) (hk : o.hash.KeysOnly)
    (hacc : computeBytes g (List.replicate (k + 1) d) o.branch = ok rk)
    (hd : ((rk.map (·.1)).map (canonOf o w)).Nodup) :
    (∃ s₁ s₂, run o w [.gcno st g [d]] = .panic s₁ ∧
        run o w [.gcno st g (List.replicate (k + 1) d)] = .panic s₂) ∨
    ∃ L, run o w [.gcno st g [d]] = .ok (printLcov L) ∧
      run o w [.gcno st g (List.replicate (k + 1) d)] = .ok (printLcov (scaleRes (k + 1) L)) := by
  obtain ⟨r1, h1, hs⟩ := C15_bytes_k_copies g d k o.branch rk hacc
  subst hs
  have c1 := C15_run_contents_gcno o.branch st g [d] r1 h1
  have ck := C15_run_contents_gcno o.branch st g (List.replicate (k + 1) d) _ hacc
  have hkeys : (scaleRes (k + 1) r1).map (·.1) = r1.map (·.1) := by
    simp [scaleRes, List.map_map, Function.comp]
  have hd1 : (((contents o.branch (.gcno st g [d])).map (·.1)).map (canonOf o w)).Nodup := by
    rw [c1.1, ← hkeys]; exact hd
  have hdk : (((contents o.branch (.gcno st g (List.replicate (k + 1) d))).map (·.1)).map (canonOf o w)).Nodup := by
    rw [ck.1]; exact hd
  have m1 := resultMap_single_distinct o w _ hd1
  have mk := resultMap_single_distinct o w _ hdk
  rw [c1.1] at m1
  rw [ck.1] at mk
  have emap : resultMap o w [.gcno st g (List.replicate (k + 1) d)]
      = (resultMap o w [.gcno st g [d]]).map (scaleKC (k + 1)) := by
    rw [m1, mk]
    simp [scaleRes, scaleKC, List.map_map, Function.comp]
  have erec := rewritePathsF_scale (k + 1) (by omega) o.cfg w.fs (filterList o w) (resultMap o w [.gcno st g [d]])
  rw [← emap] at erec
  have hc1 : [Input.gcno st g [d]].findSome? (Cli.RunAll.crash o.branch) = none := by
    simp [List.findSome?_cons, c1.2]
  have hck : [Input.gcno st g (List.replicate (k + 1) d)].findSome? (Cli.RunAll.crash o.branch) = none := by
    simp [List.findSome?_cons, ck.2]
  unfold run records
  rw [hc1, hck, erec]
  cases rewritePathsF o.cfg w.fs (filterList o w) (resultMap o w [.gcno st g [d]]) with
  | panic s => exact Or.inl ⟨s, s, rfl, rfl⟩
  | ok rs => exact Or.inr (report_lcov_scale o ho hk (k + 1) rs)

/-- **The structure of the report does not depend on the gcda list, whole run.** Two runs over the
same notes file with ANY two accepted lists of gcda files (none, one, many, different programs runs),
without `--filter`: both end without a report (the same way), or the two lcov reports have the same
structure – the same files in the same order, per file the same set of DA lines, the same BRDA lines
with the same number of branches, the same FN records (names and start lines). Only DA counts, the
taken flags of BRDA and the FNDA counts can differ. (`--filter covered|uncovered` selects files by
their counts: excluded here.) -/
theorem C15_run_structure_independent_of_gcda (o : Opts) (w : World) (st g : List Nat)
    (ds ds' : List (List Nat)) (r r' : List (Bytes × Cov))
    (ho : o.out = .lcov) (hk : o.hash.KeysOnly) (hf : o.cfg.filter = none)
    (h : computeBytes g ds o.branch = ok r) (h' : computeBytes g ds' o.branch = ok r')
    (hd : ((r.map (·.1)).map (canonOf o w)).Nodup) :
    (∃ s₁ s₂, run o w [.gcno st g ds] = .panic s₁ ∧ run o w [.gcno st g ds'] = .panic s₂) ∨
    ∃ L L', run o w [.gcno st g ds] = .ok (printLcov L) ∧ run o w [.gcno st g ds'] = .ok (printLcov L') ∧
      structOf L = structOf L' := by
  have hs := C15_bytes_structure_independent_of_gcda g ds ds' o.branch r r' h h'
  have hbl := blank_of_structOf_eq hs
  have c := C15_run_contents_gcno o.branch st g ds r h
  have c' := C15_run_contents_gcno o.branch st g ds' r' h'
  have hkeys : r'.map (·.1) = r.map (·.1) := by
    have := congrArg (List.map (·.1)) hs
    simp only [structOf, List.map_map] at this
    exact this.symm
  have hd1 : (((contents o.branch (.gcno st g ds)).map (·.1)).map (canonOf o w)).Nodup := by rw [c.1]; exact hd
  have hd2 : (((contents o.branch (.gcno st g ds')).map (·.1)).map (canonOf o w)).Nodup := by
    rw [c'.1, hkeys]; exact hd
  have m1 := resultMap_single_distinct o w _ hd1
  have m2 := resultMap_single_distinct o w _ hd2
  rw [c.1] at m1
  rw [c'.1] at m2
  -- the two result maps have the same blanked map
  have emap : (resultMap o w [.gcno st g ds]).map blankKC = (resultMap o w [.gcno st g ds']).map blankKC := by
    rw [m1, m2]
    have e : ∀ l : List (Bytes × Cov), (l.map fun kc => (canonOf o w kc.1, kc.2)).map blankKC
        = (l.map blankKC).map fun kc => (canonOf o w kc.1, kc.2) := by
      intro l; simp [blankKC, List.map_map, Function.comp]
    rw [e, e, hbl]
  have e1 := rewritePathsF_blank o.cfg hf w.fs (filterList o w) (resultMap o w [.gcno st g ds])
  have e2 := rewritePathsF_blank o.cfg hf w.fs (filterList o w) (resultMap o w [.gcno st g ds'])
  rw [emap] at e1
  have hc1 : [Input.gcno st g ds].findSome? (Cli.RunAll.crash o.branch) = none := by simp [c.2]
  have hc2 : [Input.gcno st g ds'].findSome? (Cli.RunAll.crash o.branch) = none := by simp [c'.2]
  unfold run records
  rw [hc1, hc2]
  cases hr1 : rewritePathsF o.cfg w.fs (filterList o w) (resultMap o w [.gcno st g ds]) with
  | panic s =>
    cases hr2 : rewritePathsF o.cfg w.fs (filterList o w) (resultMap o w [.gcno st g ds']) with
    | panic s' => exact Or.inl ⟨s, s', rfl, rfl⟩
    | ok rs' => rw [hr1] at e1; rw [hr2] at e2; rw [e1] at e2; cases e2
  | ok rs =>
    cases hr2 : rewritePathsF o.cfg w.fs (filterList o w) (resultMap o w [.gcno st g ds']) with
    | panic s' => rw [hr1] at e1; rw [hr2] at e2; rw [e1] at e2; cases e2
    | ok rs' =>
      rw [hr1] at e1
      rw [hr2] at e2
      rw [e1] at e2
      simp only [Rewrite.Res.ok.injEq] at e2
      refine Or.inr ⟨((ordered o rs).map (present o)).map relCov, ((ordered o rs').map (present o)).map relCov,
        by simp [report, render, ho], by simp [report, render, ho], ?_⟩
      apply structOf_of_blank_eq
      rw [sections_blank o hk, sections_blank o hk, e2]

/-- What `scaleRes` leaves alone: file names and their order, the functions (names, start lines,
executed flags: the FN / FNDA records), the branch vectors (BRDA) and the set and order of the lines
that have a DA record; every DA count of the scaled report is `n` times the original one. -/
theorem C15_run_scaled_report_keeps_all_but_counts (n : Nat) (L : List (Bytes × Cov)) :
    (scaleRes n L).map (·.1) = L.map (·.1) ∧
    (scaleRes n L).map (·.2.functions) = L.map (·.2.functions) ∧
    (scaleRes n L).map (·.2.branches) = L.map (·.2.branches) ∧
    (scaleRes n L).map (fun p => keys p.2.lines) = L.map (fun p => keys p.2.lines) ∧
    ∀ (i l : Nat), (((scaleRes n L)[i]?).bind fun (p : Bytes × Cov) => get? p.2.lines l)
      = ((L[i]?).bind fun (p : Bytes × Cov) => get? p.2.lines l).map (n * ·) := by
  refine ⟨?_, ?_, ?_, ?_, ?_⟩
  · simp [scaleRes, List.map_map, Function.comp]
  · simp [scaleRes, scaleCov, List.map_map, Function.comp]
  · simp [scaleRes, scaleCov, List.map_map, Function.comp]
  · simp [scaleRes, scaleCov, scaleLines, keys, List.map_map, Function.comp]
  · intro i l
    have hl : ∀ m : List (Nat × Nat), get? (scaleLines n m) l = (get? m l).map (n * ·) := by
      intro m
      induction m with
      | nil => rfl
      | cons kv m ih =>
        obtain ⟨k', v⟩ := kv
        simp only [scaleLines, List.map_cons, get?_cons] at ih ⊢
        by_cases e : k' = l
        · simp [e]
        · simp [e, ih]
    simp only [scaleRes, List.getElem?_map]
    cases L[i]? with
    | none => rfl
    | some p => simp only [Option.map_some, Option.bind_some, scaleCov, hl]

/-- The orphan notes file (no gcda at all; sent by the producer unless `--filter covered`): when
accepted, every record it contributes to the run has all counts zero, no function executed, no branch
taken (`C15_bytes_no_gcda_all_zero` through `contents`). -/
theorem C15_run_orphan_all_zero (br : Bool) (st g : List Nat) (r : List (Bytes × Cov))
    (h : computeBytes g [] br = ok r) : NotRun (contents br (.gcno st g [])) := by
  rw [(C15_run_contents_gcno br st g [] r h).1]
  exact C15_bytes_no_gcda_all_zero g br r h

/-- The order of the gcda files of a stem (the order of the directory arguments) does not change the
run: any permutation of an accepted gcda list gives the same report bytes, for every type. -/
theorem C15_run_gcda_order_irrelevant (o : Opts) (w : World) (st g : List Nat) (ds ds' : List (List Nat))
    (p : ds.Perm ds') (r : List (Bytes × Cov)) (h : computeBytes g ds o.branch = ok r)
    (pre post : List Input) :
    run o w (pre ++ .gcno st g ds :: post) = run o w (pre ++ .gcno st g ds' :: post) := by
  have h' := C15_bytes_order_independent g ds ds' p o.branch r h
  have c := C15_run_contents_gcno o.branch st g ds r h
  have c' := C15_run_contents_gcno o.branch st g ds' r h'
  have ec : (pre ++ Input.gcno st g ds :: post).findSome? (Cli.RunAll.crash o.branch)
      = (pre ++ Input.gcno st g ds' :: post).findSome? (Cli.RunAll.crash o.branch) := by
    simp [List.findSome?_append, List.findSome?_cons, c.2, c'.2]
  have em : resultMap o w (pre ++ .gcno st g ds :: post) = resultMap o w (pre ++ .gcno st g ds' :: post) := by
    rw [resultMap_flat, resultMap_flat]
    simp [allRecords, List.flatMap_append, List.flatMap_cons, c.1, c'.1]
  unfold run records
  rw [ec, em]

/-! ### the hypotheses are satisfiable: the closed files of Lemmas/GcnoSafeSize.lean -/

/-- `loopGcno` with three copies of `loopGcda` (line 5 goes through the cycle search): accepted, one
file `a.c`; the run writes a report, and it is the one-copy report scaled by 3 -/
example :
    (computeBytes loopGcno (List.replicate 3 loopGcda) true).isOk = true ∧
    (match run { out := .lcov, branch := true } { fs := { files := [], dirs := [], cwd := [] }, text := fun _ => none }
        [.gcno [120] loopGcno [loopGcda]],
      run { out := .lcov, branch := true } { fs := { files := [], dirs := [], cwd := [] }, text := fun _ => none }
        [.gcno [120] loopGcno (List.replicate 3 loopGcda)] with
     | .ok b1, .ok b3 => decide (b1 ≠ b3) && decide (40 < b1.length)
     | _, _ => false) = true := by
  decide +kernel

end Grcov.Props.C15
