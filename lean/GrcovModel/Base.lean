/-
Base definitions shared by every model: association-list maps (the model of BTreeMap / FxHashMap,
observed only through `get?`), `Option` combination, u32/u64 bounds.
Core Lean only: these files are linked into the native driver `gmodel`.
-/
namespace Grcov

def U64MAX : Nat := 18446744073709551615
def U32MAX : Nat := 4294967295

/-- `checked_add(..).unwrap_or(u64::MAX)` on values that fit 64 bits. -/
def satAdd (a b : Nat) : Nat := min (a + b) U64MAX

theorem satAdd_comm (a b : Nat) : satAdd a b = satAdd b a := by
  unfold satAdd; rw [Nat.add_comm]

theorem satAdd_assoc (a b c : Nat) : satAdd (satAdd a b) c = satAdd a (satAdd b c) := by
  unfold satAdd U64MAX; omega

theorem satAdd_le (a b : Nat) : satAdd a b ≤ U64MAX := by
  unfold satAdd; omega

theorem le_satAdd_left (a b : Nat) (h : a ≤ U64MAX) : a ≤ satAdd a b := by
  unfold satAdd; omega

/-- Combine two optional values: absent is the identity. -/
def optCombine (f : α → α → α) : Option α → Option α → Option α
  | none, y => y
  | x, none => x
  | some x, some y => some (f x y)

@[simp] theorem optCombine_none_left (f : α → α → α) (y) : optCombine f none y = y := by
  cases y <;> rfl
@[simp] theorem optCombine_none_right (f : α → α → α) (x) : optCombine f x none = x := by
  cases x <;> rfl
@[simp] theorem optCombine_some_some (f : α → α → α) (x y) :
    optCombine f (some x) (some y) = some (f x y) := rfl

theorem optCombine_comm {f : α → α → α} (hf : ∀ x y, f x y = f y x) (x y : Option α) :
    optCombine f x y = optCombine f y x := by
  cases x <;> cases y <;> simp [hf]

theorem optCombine_assoc {f : α → α → α} (hf : ∀ x y z, f (f x y) z = f x (f y z))
    (x y z : Option α) :
    optCombine f (optCombine f x y) z = optCombine f x (optCombine f y z) := by
  cases x <;> cases y <;> cases z <;> simp [hf]

/-! ## Association lists -/
namespace AList

variable {κ : Type} {α : Type} [DecidableEq κ]

def get? : List (κ × α) → κ → Option α
  | [], _ => none
  | (k, v) :: m, x => if k = x then some v else get? m x

/-- Insert or replace, keeping the position of an existing key (first occurrence). -/
def set : List (κ × α) → κ → α → List (κ × α)
  | [], x, v => [(x, v)]
  | (k, w) :: m, x, v => if k = x then (k, v) :: m else (k, w) :: set m x v

def erase : List (κ × α) → κ → List (κ × α)
  | [], _ => []
  | (k, w) :: m, x => if k = x then erase m x else (k, w) :: erase m x

def keys (m : List (κ × α)) : List κ := m.map (·.1)

def NodupKeys (m : List (κ × α)) : Prop := (keys m).Nodup

@[simp] theorem get?_nil (x : κ) : get? ([] : List (κ × α)) x = none := rfl

@[simp] theorem get?_cons (k : κ) (v : α) (m) (x : κ) :
    get? ((k, v) :: m) x = if k = x then some v else get? m x := rfl

theorem get?_set (m : List (κ × α)) (x : κ) (v : α) (y : κ) :
    get? (set m x v) y = if x = y then some v else get? m y := by
  induction m with
  | nil => simp [set]
  | cons kv m ih =>
    obtain ⟨k, w⟩ := kv
    unfold set
    by_cases hk : k = x
    · subst hk; by_cases hy : k = y <;> simp [hy]
    · simp only [hk, if_false, get?_cons, ih]
      by_cases hy : k = y
      · subst hy; simp [Ne.symm hk]
      · simp [hy]

theorem get?_erase (m : List (κ × α)) (x y : κ) :
    get? (erase m x) y = if x = y then none else get? m y := by
  induction m with
  | nil => simp [erase]
  | cons kv m ih =>
    obtain ⟨k, w⟩ := kv
    unfold erase
    by_cases hk : k = x
    · subst hk; simp only [if_true, ih]
      by_cases hy : k = y <;> simp [hy]
    · simp only [hk, if_false, get?_cons, ih]
      by_cases hy : k = y
      · subst hy; simp [Ne.symm hk]
      · simp [hy]

theorem keys_set (m : List (κ × α)) (x : κ) (v : α) :
    keys (set m x v) = if x ∈ keys m then keys m else keys m ++ [x] := by
  induction m with
  | nil => simp [set, keys]
  | cons kv m ih =>
    obtain ⟨k, w⟩ := kv
    unfold set
    by_cases hk : k = x
    · subst hk; simp [keys]
    · have hk' : ¬ x = k := fun h => hk h.symm
      simp only [hk, if_false]
      simp only [keys, List.map_cons, List.mem_cons, hk', false_or] at ih ⊢
      rw [ih]; by_cases hx : x ∈ List.map (fun x => x.fst) m <;> simp [hx]

theorem nodupKeys_set {m : List (κ × α)} (h : NodupKeys m) (x : κ) (v : α) :
    NodupKeys (set m x v) := by
  unfold NodupKeys at *
  rw [keys_set]
  split
  · exact h
  · rename_i hx
    rw [List.nodup_append]
    refine ⟨h, by simp, ?_⟩
    intro a ha b hb
    simp at hb; subst hb
    intro hab; subst hab; exact hx ha

theorem get?_eq_none_iff (m : List (κ × α)) (x : κ) : get? m x = none ↔ x ∉ keys m := by
  induction m with
  | nil => simp [keys]
  | cons kv m ih =>
    obtain ⟨k, w⟩ := kv
    simp only [get?_cons, keys, List.map_cons, List.mem_cons, not_or]
    by_cases hk : k = x
    · subst hk; simp
    · have : ¬ x = k := fun h => hk h.symm
      simp [hk, this, ih, keys]

theorem get?_isSome_iff (m : List (κ × α)) (x : κ) : (get? m x).isSome ↔ x ∈ keys m := by
  have := get?_eq_none_iff m x
  cases h : get? m x <;> simp_all

/-- `b.foldl` of "entry: occupied ⇒ combine, vacant ⇒ insert" – the shape of all three loops of
`merge_results`. -/
def mergeWith (f : α → α → α) (a b : List (κ × α)) : List (κ × α) :=
  b.foldl (fun m kv => set m kv.1 (match get? m kv.1 with
                                    | some v => f v kv.2
                                    | none => kv.2)) a

theorem get?_mergeWith (f : α → α → α) (a b : List (κ × α)) (hb : NodupKeys b) (x : κ) :
    get? (mergeWith f a b) x = optCombine f (get? a x) (get? b x) := by
  induction b generalizing a with
  | nil => simp [mergeWith]
  | cons kv b ih =>
    obtain ⟨k, c⟩ := kv
    have hb' : NodupKeys b := by
      unfold NodupKeys keys at *; simp at hb; exact hb.2
    have hk : get? b k = none := by
      rw [get?_eq_none_iff]; unfold NodupKeys keys at *; simp at hb
      intro h; simp at h; obtain ⟨v, hv⟩ := h; exact hb.1 v hv
    have step : mergeWith f a ((k, c) :: b)
        = mergeWith f (set a k (match get? a k with | some v => f v c | none => c)) b := by
      simp [mergeWith]
    rw [step, ih _ hb', get?_set]
    by_cases hx : k = x
    · subst hx
      simp only [if_true, get?_cons, hk]
      cases get? a k <;> simp
    · simp [hx]

theorem nodupKeys_mergeWith (f : α → α → α) (a b : List (κ × α)) (ha : NodupKeys a) :
    NodupKeys (mergeWith f a b) := by
  induction b generalizing a with
  | nil => simpa [mergeWith]
  | cons kv b ih =>
    have step : mergeWith f a (kv :: b)
        = mergeWith f (set a kv.1 (match get? a kv.1 with | some v => f v kv.2 | none => kv.2)) b := by
      simp [mergeWith]
    rw [step]; exact ih _ (nodupKeys_set ha _ _)

end AList
end Grcov
