/-
Cli — one grcov RUN on lcov inputs with lcov output (`grcov <inputs…> -t lcov [--branch] [-s …]
[-p …] [--ignore …] [--keep-only …] [--filter …] [--ignore-not-existing]`), as a function from the
bytes of the inputs to the bytes of the report. It composes the component models in the order of
`main` (src/main.rs) and `consumer` (src/lib.rs 199-392):

  every input is parsed by `parse_lcov` with the branch flag (`Lcov.parse`; an input the parser
  rejects is logged and skipped: `try_parse!`), its records are filed into the result map by
  `add_results` under the canonicalised key (`Merge.addResults (Rewrite.addCanon fs source_dir)`),
  the map goes through `rewrite_paths` (`Rewrite.rewritePaths`), and `output_lcov` prints the
  report (`Lcov.printLcov`) – every file under its rewritten relative path, lines and branches in
  ascending line order (they are `BTreeMap`s: `sortCov`).

Parameters of the model, as in the component models: the file system (`Rewrite.FS`, no symlinks);
the order in which the inputs are processed (here: as listed; C02 shows the result map does not
depend on it observably); the iteration order of the two `FxHashMap`s – result map and function
table – which the model takes to be insertion order. Demangling is off (`--no-demangle`), no path
mapping file is written, exclusion markers are not configured. Core Lean only.
-/
import GrcovModel.Lcov
import GrcovModel.Lemmas.LcovWriter
import GrcovModel.Rewrite
namespace Grcov.Cli
open Grcov AList Grcov.Lcov Grcov.Rewrite

/-! ### BTreeMap iteration: ascending keys -/

def insertByKey {α : Type} (kv : Nat × α) : List (Nat × α) → List (Nat × α)
  | [] => [kv]
  | x :: xs => if kv.1 ≤ x.1 then kv :: x :: xs else x :: insertByKey kv xs

def sortByKey {α : Type} : List (Nat × α) → List (Nat × α)
  | [] => []
  | x :: xs => insertByKey x (sortByKey xs)

/-- the record as `output_lcov` iterates it: lines and branch lines ascending -/
def sortCov (c : Cov) : Cov :=
  { c with lines := sortByKey c.lines, branches := sortByKey c.branches }

/-! ### one run -/

/-- the records of one input; a rejected input contributes nothing (`try_parse!` … `continue`) -/
def parseInput (branch : Bool) (bytes : Bytes) : List (Bytes × Cov) :=
  match Lcov.parse branch bytes with
  | .ok rs => rs
  | _ => []

/-- the result map after all inputs: `add_results` per input, in the order listed -/
def resultMap (cfg : Cfg) (branch : Bool) (fs : FS) (inputs : List Bytes) : List (Key × Cov) :=
  inputs.foldl (fun m b => addResults (addCanon fs cfg.sourceDir) m (parseInput branch b)) []

/-- the report of the run: `rewrite_paths` on the result map -/
def report (cfg : Cfg) (branch : Bool) (fs : FS) (inputs : List Bytes) : Res (List Rec) :=
  rewritePaths cfg fs (resultMap cfg branch fs inputs)

/-- what `output_lcov` is given: (relative path, record) per reported file -/
def printable (rep : List Rec) : List (Bytes × Cov) := rep.map fun r => (r.rel, sortCov r.cov)

/-- the bytes `output_lcov` writes for a report -/
def printReport (rep : List Rec) : Bytes := printLcov (printable rep)

/-- **One run**: input bytes to report bytes (`panic`: one of the two panic sites of
`rewrite_paths`, see `Rewrite`) -/
def run (cfg : Cfg) (branch : Bool) (fs : FS) (inputs : List Bytes) : Res Bytes :=
  match report cfg branch fs inputs with
  | .ok rep => .ok (printReport rep)
  | .panic s => .panic s

/-- `k` further runs, each on the single report the previous one wrote -/
def rerun (cfg : Cfg) (branch : Bool) (fs : FS) : Nat → Bytes → Res Bytes
  | 0, b => .ok b
  | k + 1, b =>
    match run cfg branch fs [b] with
    | .ok b' => rerun cfg branch fs k b'
    | .panic s => .panic s

/-- a tree of shards: a leaf is an input file, an inner node is one run on the reports of its
children -/
inductive Shards where
  | input (bytes : Bytes)
  | node (children : List Shards)

mutual
/-- the file a shard contributes: an input as it is, an inner node the report of its run -/
def Shards.eval (cfg : Cfg) (branch : Bool) (fs : FS) : Shards → Res Bytes
  | .input b => .ok b
  | .node cs =>
    match Shards.evalList cfg branch fs cs with
    | .ok bs => run cfg branch fs bs
    | .panic s => .panic s
def Shards.evalList (cfg : Cfg) (branch : Bool) (fs : FS) : List Shards → Res (List Bytes)
  | [] => .ok []
  | c :: cs =>
    match Shards.eval cfg branch fs c, Shards.evalList cfg branch fs cs with
    | .ok b, .ok bs => .ok (b :: bs)
    | .panic s, _ => .panic s
    | _, .panic s => .panic s
end

mutual
/-- the input files below a shard, left to right -/
def Shards.leaves : Shards → List Bytes
  | .input b => [b]
  | .node cs => Shards.leavesList cs
def Shards.leavesList : List Shards → List Bytes
  | [] => []
  | c :: cs => Shards.leaves c ++ Shards.leavesList cs
end

end Grcov.Cli
