/-
Cli — one grcov RUN on lcov inputs with lcov output (`grcov <inputs…> -t lcov [--branch] [-s …]
[-p …] [--ignore …] [--keep-only …] [--filter …] [--ignore-not-existing]`), as a function from the
bytes of the inputs to the bytes of the report. It composes the component models in the order of
`main` (src/main.rs) and `consumer` (src/lib.rs 199-392):

  every input is parsed by `parse_lcov` with the branch flag (`Lcov.parse`; an input the parser
  rejects is logged and skipped: `try_parse!`), its records are filed into the result map by
  `add_results` under the canonicalised key (`Merge.addResults (Rewrite.addCanon fs source_dir)`),
  the map goes through `rewrite_paths` (`Rewrite.rewritePaths`), and `output_lcov` prints the
  report (`Lcov.printLcov`) – every file under its rewritten relative path, lines and branches in
  ascending line order (they are `BTreeMap`s: `sortCov`).

Parameters of the model, as in the component models: the file system (`Rewrite.FS`, no symlinks);
the order in which the inputs are processed (here: as listed; C02 shows the result map does not
depend on it observably); the iteration order of the result map (an `FxHashMap`), which the model
takes to be insertion order – the function table of a file is listed in name order since 73c9152
(`sortFns`), whatever its iteration order. Demangling is off (`--no-demangle`), no path
mapping file is written, exclusion markers are not configured. Core Lean only.
-/
import GrcovModel.Lcov
import GrcovModel.Lemmas.LcovWriter
import GrcovModel.Rewrite
import GrcovModel.Rewrite.Partial
import GrcovModel.MainGlue
namespace Grcov.Cli
open Grcov AList Grcov.Lcov Grcov.Rewrite

/-! ### BTreeMap iteration: ascending keys -/

def insertByKey {α : Type} (kv : Nat × α) : List (Nat × α) → List (Nat × α)
  | [] => [kv]
  | x :: xs => if kv.1 ≤ x.1 then kv :: x :: xs else x :: insertByKey kv xs

def sortByKey {α : Type} : List (Nat × α) → List (Nat × α)
  | [] => []
  | x :: xs => insertByKey x (sortByKey xs)

/-! ### `sorted_functions` (src/output.rs): the function table in name order

`functions.sort_by(|a, b| a.0.cmp(b.0))`: `String`'s `Ord`, i.e. lexicographic on the UTF-8 bytes
(`MainGlue.bytesLe`). The names of one table are distinct, so the result does not depend on the
table's own iteration order (`sortFns_eq_of_perm`). -/

/-- insert before the first entry whose name is not smaller -/
def insertByName (nf : Name × Fn) : List (Name × Fn) → List (Name × Fn)
  | [] => [nf]
  | x :: xs => if MainGlue.bytesLe nf.1 x.1 then nf :: x :: xs else x :: insertByName nf xs

/-- `sorted_functions`: a stable insertion sort by name (reduces in the kernel) -/
def sortFns : List (Name × Fn) → List (Name × Fn)
  | [] => []
  | x :: xs => insertByName x (sortFns xs)

/-- the record as `output_lcov` iterates it: lines and branch lines ascending (`BTreeMap`s), the
functions in name order (`sorted_functions`) -/
def sortCov (c : Cov) : Cov :=
  { lines := sortByKey c.lines, branches := sortByKey c.branches, functions := sortFns c.functions }

/-! ### one run -/

/-- the records of one input; a rejected input contributes nothing (`try_parse!` … `continue`) -/
def parseInput (branch : Bool) (bytes : Bytes) : List (Bytes × Cov) :=
  match Lcov.parse branch bytes with
  | .ok rs => rs
  | _ => []

/-- the result map after all inputs: `add_results` per input, in the order listed -/
def resultMap (cfg : Cfg) (branch : Bool) (fs : FS) (inputs : List Bytes) : List (Key × Cov) :=
  inputs.foldl (fun m b => addResults (addCanon fs cfg.sourceDir) m (parseInput branch b)) []

/-- the report of the run: `rewrite_paths` on the result map -/
def report (cfg : Cfg) (branch : Bool) (fs : FS) (inputs : List Bytes) : Res (List Rec) :=
  rewritePaths cfg fs (resultMap cfg branch fs inputs)

/-- `output_lcov` on (relative path, record) pairs whose maps are given as lists in ANY order:
every record is walked as the code walks it (`sortCov`: lines and branch lines ascending, functions
by name), the file records in the order given -/
def outputLcov (rs : List (Bytes × Cov)) : Bytes := printLcov (rs.map fun pc => (pc.1, sortCov pc.2))

/-- `output_lcov` with demangling on (`dm` = `symbolic_demangle` with `name_only`, a parameter):
the functions are listed in the order of their TABLE names (the mangled ones: `sorted_functions`
runs before `demangle!`), each printed as `dm name` -/
def outputLcovDm (dm : Name → Name) (rs : List (Bytes × Cov)) : Bytes :=
  printLcov (rs.map fun pc =>
    (pc.1, { sortCov pc.2 with functions := (sortFns pc.2.functions).map fun nf => (dm nf.1, nf.2) }))

/-- what `output_lcov` is given: (relative path, record) per reported file -/
def printable (rep : List Rec) : List (Bytes × Cov) := rep.map fun r => (r.rel, sortCov r.cov)

/-- the bytes `output_lcov` writes for a report -/
def printReport (rep : List Rec) : Bytes := printLcov (printable rep)

/-- **One run**: input bytes to report bytes (`panic`: one of the two panic sites of
`rewrite_paths`, see `Rewrite`) -/
def run (cfg : Cfg) (branch : Bool) (fs : FS) (inputs : List Bytes) : Res Bytes :=
  match report cfg branch fs inputs with
  | .ok rep => .ok (printReport rep)
  | .panic s => .panic s

/-- `k` further runs, each on the single report the previous one wrote -/
def rerun (cfg : Cfg) (branch : Bool) (fs : FS) : Nat → Bytes → Res Bytes
  | 0, b => .ok b
  | k + 1, b =>
    match run cfg branch fs [b] with
    | .ok b' => rerun cfg branch fs k b'
    | .panic s => .panic s

/-! ### one run, Java/Kotlin keys included (second review, item 26)

`rewrite_paths` looks `.java` / `.kt` keys up below the source directory when some key does not
exist there as spelled (`Rewrite.rewritePathsJ`, GrcovModel/Rewrite/Partial.lean; `ord` = the
entries of the source tree in the order of the directory walk, a parameter). `runJ` is the run
with that step inside; it is `run` whenever the lookup is not needed (`runJ_eq_run`,
Lemmas/Cli.lean): no source dir, no `.java`/`.kt` key, or every key existing below the source
dir as spelled. The driver op `cli.runj` and the CLI theorems of C05 / C06 are about `runJ`. -/

def reportJ (cfg : Cfg) (branch : Bool) (fs : FS) (ord : List (List Bytes)) (inputs : List Bytes) :
    Res (List Rec) :=
  rewritePathsJ cfg fs ord (resultMap cfg branch fs inputs)

def runJ (cfg : Cfg) (branch : Bool) (fs : FS) (ord : List (List Bytes)) (inputs : List Bytes) :
    Res Bytes :=
  match reportJ cfg branch fs ord inputs with
  | .ok rep => .ok (printReport rep)
  | .panic s => .panic s

/-- `k` further runs, each on the single report the previous one wrote -/
def rerunJ (cfg : Cfg) (branch : Bool) (fs : FS) (ord : List (List Bytes)) : Nat → Bytes → Res Bytes
  | 0, b => .ok b
  | k + 1, b =>
    match runJ cfg branch fs ord [b] with
    | .ok b' => rerunJ cfg branch fs ord k b'
    | .panic s => .panic s

/-- a tree of shards: a leaf is an input file, an inner node is one run on the reports of its
children -/
inductive Shards where
  | input (bytes : Bytes)
  | node (children : List Shards)

mutual
/-- the file a shard contributes: an input as it is, an inner node the report of its run -/
def Shards.eval (cfg : Cfg) (branch : Bool) (fs : FS) : Shards → Res Bytes
  | .input b => .ok b
  | .node cs =>
    match Shards.evalList cfg branch fs cs with
    | .ok bs => run cfg branch fs bs
    | .panic s => .panic s
def Shards.evalList (cfg : Cfg) (branch : Bool) (fs : FS) : List Shards → Res (List Bytes)
  | [] => .ok []
  | c :: cs =>
    match Shards.eval cfg branch fs c, Shards.evalList cfg branch fs cs with
    | .ok b, .ok bs => .ok (b :: bs)
    | .panic s, _ => .panic s
    | _, .panic s => .panic s
end

mutual
/-- the input files below a shard, left to right -/
def Shards.leaves : Shards → List Bytes
  | .input b => [b]
  | .node cs => Shards.leavesList cs
def Shards.leavesList : List Shards → List Bytes
  | [] => []
  | c :: cs => Shards.leaves c ++ Shards.leavesList cs
end

end Grcov.Cli
