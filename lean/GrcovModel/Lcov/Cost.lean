/-
C14, part TextCost – cost-instrumented view of the lcov byte machine (`Lcov.lean`, `parse_lcov` of
src/parser.rs).

The byte machine `step` does, for one input byte, a control transition and AT MOST ONE operation
on the accumulator. `evt` names that operation (`Ev`), `applyEv` performs it, and
`step_acc` (Lemmas/TextCostLcov.lean) shows that this is all `step` does to the accumulator. The
operations are exactly the places where `parse_lcov` touches a map, a vector or a string:

  Ev.file    `cur_file = Some(read_name(..))`                    (copy + `from_utf8_lossy`)
  Ev.line    `cur_lines.entry(line_no).or_insert(0)` + saturating add          (1 BTreeMap op)
  Ev.fn      `cur_functions.contains_key` (error log, at most once per call),
             `pending_fnda.remove`, `cur_functions.insert`                     (3 FxHashMap ops)
  Ev.fnda    `cur_functions.get_mut`, else `pending_fnda.entry(..).or_insert`  (1 or 2 ops)
  Ev.branch  `add_branch`: `branches.entry(line_no)` + `vec![false; no]`/`extend` + `push`
  Ev.endRec  `pending_fnda.keys().next()` + `results.push(..)` + four fresh maps

`Cost` counts what the Rust code does, not what the association lists of the model do:
* `next`     – `iter.next()` calls that returned a byte: the `while let` head, the `take_while`
               adaptors (which consume the byte that ends them) and the `for &x in iter.by_ref()`
               loop of the DA count; `peek()` never consumes. One per input byte until the function
               returns.
* `mapOps`   – BTreeMap / FxHashMap operations (each O(log n) resp. O(1) expected + hashing the key);
* `keyBytes` – bytes of `String` keys hashed or compared by those operations;
* `copied`   – bytes written by `read_name` (`collect` and `from_utf8_lossy(..).into_owned()`);
* `grown`    – `Vec<bool>` slots written by `add_branch` (the fill of `vec![false; n]` / `extend`
               plus the pushed slot).
Core Lean only (linked into `gmodel`).
-/
import GrcovModel.Lcov
import GrcovModel.Merge.Size
namespace Grcov.Lcov
open Grcov AList Grcov.Size

/-- the one accumulator operation a step can perform -/
inductive Ev where
  | nop
  /-- `SF:` name complete (raw bytes, before `from_utf8_lossy`) -/
  | file (nm : Bytes)
  | line (l c : Nat)
  | fn (start : Nat) (nm : Bytes)
  | fnda (n : Nat) (nm : Bytes)
  | branch (l no : Nat) (t : Bool)
  /-- `end_of_record` accepted: the open section is pushed under the current file name -/
  | endRec
deriving DecidableEq, Repr

def isEol (b : Nat) : Bool := b = LF || b = CR

/-- which operation the step from `s` on byte `b` performs -/
def evt (s : St) (b : Nat) : Ev :=
  match s.ctl with
  | .dispatch =>
    if b = 101 then
      match s.acc.curFile with
      | none => .nop
      | some _ => if s.acc.pending.isEmpty then .endRec else .nop
    else .nop
  | .sfName nm => if b = LF ∨ b = CR then .file nm else .nop
  | .daAfterLine l => if b = 45 then .line l 0 else .nop
  | .daCount l c => if isDigit b then .nop else if b = LF then .line l c else .nop
  | .daSkip l c => if b = LF then .line l c else .nop
  | .fnAfterStart n => if b = LF ∨ b = CR then .fn n [] else .nop
  | .fnName n nm => if b = LF ∨ b = CR then .fn n nm else .nop
  | .fndaAfter n => if b = LF ∨ b = CR then .fnda n [] else .nop
  | .fndaName n nm => if b = LF ∨ b = CR then .fnda n nm else .nop
  | .brAfterBranch l n => if b = LF ∨ b = CR then .branch l n false else .nop
  | .brTaken l n t => if b = LF ∨ b = CR then .branch l n t else .nop
  | _ => .nop

def applyEv (a : Acc) : Ev → Acc
  | .nop => a
  | .file nm => { a with curFile := some (utf8Lossy nm) }
  | .line l c => commitLine a l c
  | .fn st nm => commitFn a st nm
  | .fnda n nm => commitFnda a n nm
  | .branch l no t => commitBranch a l no t
  | .endRec => { a with results := a.results ++ [(a.curFile.getD [], a.cur)], curFile := none, cur := {} }

def Ev.isOp : Ev → Bool
  | .nop => false
  | _ => true

/-- the operations of a run, in order -/
def trace (branch : Bool) : St → Bytes → List Ev
  | _, [] => []
  | s, b :: bs =>
    if (evt s b).isOp then evt s b :: trace branch (step branch s b) bs
    else trace branch (step branch s b) bs

/-- the `add_branch` calls of a run: (line, branch number) -/
def branchCalls : List Ev → List (Nat × Nat)
  | [] => []
  | .branch l no _ :: r => (l, no) :: branchCalls r
  | _ :: r => branchCalls r

structure Cost where
  next : Nat := 0
  mapOps : Nat := 0
  keyBytes : Nat := 0
  copied : Nat := 0
  grown : Nat := 0
deriving DecidableEq, Repr

def Cost.add (x y : Cost) : Cost :=
  ⟨x.next + y.next, x.mapOps + y.mapOps, x.keyBytes + y.keyBytes, x.copied + y.copied, x.grown + y.grown⟩

/-- slots `add_branch(m, l, no, _)` writes: the fill and the push (nothing when the slot exists) -/
def growth (m : List (Nat × List Bool)) (l no : Nat) : Nat :=
  match get? m l with
  | some v => if no < v.length then 0 else no - v.length + 1
  | none => no + 1

/-- cost of one operation in the accumulator state it is applied to -/
def evCost (a : Acc) : Ev → Cost
  | .nop => {}
  | .file nm => { copied := nm.length + (utf8Lossy nm).length }
  | .line _ _ => { mapOps := 1 }
  | .fn _ nm =>
    { mapOps := 3, keyBytes := 3 * (utf8Lossy nm).length, copied := nm.length + (utf8Lossy nm).length }
  | .fnda _ nm =>
    match get? a.cur.functions (utf8Lossy nm) with
    | some _ => { mapOps := 1, keyBytes := (utf8Lossy nm).length,
                  copied := nm.length + (utf8Lossy nm).length }
    | none => { mapOps := 2, keyBytes := 2 * (utf8Lossy nm).length,
                copied := nm.length + (utf8Lossy nm).length }
  | .branch l no _ => { mapOps := 1, grown := growth a.cur.branches l no }
  | .endRec => { mapOps := 1 }

def Ctl.isHalt : Ctl → Bool
  | .halt _ => true
  | _ => false

/-- one step: nothing once the function has returned; otherwise one `iter.next()` and the
operation -/
def stepCost (s : St) (b : Nat) : Cost :=
  if s.ctl.isHalt then {} else (evCost s.acc (evt s b)).add { next := 1 }

def costFrom (branch : Bool) : St → Bytes → Cost
  | _, [] => {}
  | s, b :: bs => (stepCost s b).add (costFrom branch (step branch s b) bs)

/-- the cost of `parse_lcov(bs, branch)` -/
def cost (branch : Bool) (bs : Bytes) : Cost := costFrom branch {} bs

/-! ### size of the accumulator (measures of a result: `Merge/Size.lean`) -/

/-- everything the accumulator holds: finished sections, the open section, waiting FNDA records -/
def accEntries (a : Acc) : Nat :=
  a.results.length + resEntries a.results + covEntries a.cur + a.pending.length

def accSlots (a : Acc) : Nat := resSlots a.results + covSlots a.cur

/-- number of LF and CR bytes: the input has at most `eols bs + 1` lines -/
def eols (bs : Bytes) : Nat := (bs.filter isEol).length

end Grcov.Lcov
