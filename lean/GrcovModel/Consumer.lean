/-
Consumer — what happens *inside* one "a worker processes an item" step of the pipeline:
the body of the `while let Ok(work_item) = receiver.recv()` loop of `grcov::consumer`
(src/lib.rs 192-383) with its helpers `rename_single_files`, `clean_working_dir`, `try_parse!`,
the gcov tool interface (src/gcov.rs: `run_gcov` argv, `parse_version`, `get_gcov_output_ext`)
and the decision logic of `llvm_tools::find_binaries`.

The worker owns a private directory. It is modelled as an association list from file name to what
the file holds (`Entry.file c`, `c` an abstract content id, or `Entry.subdir`), observed through
`get?` / the sorted listing. The external world is a parameter (`Env`): what a gcov run on a notes
file writes into the directory and whether it succeeds, what the two gcov readers make of a content
(`parseGz` = `parse_gcov_gz`, `parseText` = `parse_gcov`; `none` = `Err`), what `parse_lcov`,
`parse_jacoco_xml_report`, `Gcno::compute` return on a content id, and what
`llvm_profiles_to_lcov` does (its result and the `grcov.profdata` file the merge tool writes; the
function removes that file again before it returns). `Consumer/Llvm.lean` builds this last
parameter from the `LlvmTools` model and `find_binaries`' result; `Consumer/WorkDirs.lean` places
the private directories in the run's one temporary directory.

Every place of the Rust loop body that can panic is an explicit `StepResult.panic`:
  * `gcno_path.file_name().unwrap()` (a notes path without a final normal component),
  * `panic!("Invalid gcov extension")`,
  * `File::open(..).unwrap_or_else(panic!("Failed to open gcov file"))` inside both gcov readers
    (SingleFile mode, the expected file is not there),
  * `gcov_path.extension().unwrap()` (MultipleFiles mode, an entry without extension),
  * `fs::remove_file(gcov_path).unwrap()` (MultipleFiles mode, the entry is a directory),
  * a panic inside the LLVM tools glue (`find_binaries` on a missing `--binary-path`).
Not reachable in this model (they need a file-system error or a non-UTF-8 name, the directory is
private and names are strings): `entry.unwrap()` of the walk, `to_str().unwrap()`,
`fs::remove_file(..).unwrap()` in SingleFile mode (the file was just read).

Walk order: `WalkDir` yields entries in `readdir` order, which is unspecified. The model walks the
association list in list order; the results of one item are therefore compared as a multiset
(sorted by the driver), and after a panic the directory listing is not compared.
Names in the directory are flat (no '/'): a gcov that creates nested files is outside the model.
Core Lean only.
-/
import GrcovModel.UPath
namespace Grcov.Consumer
open Grcov AList

abbrev Bytes := List Nat
/-- what a reader returns: (source file name, tag standing for the `CovResult`) -/
abbrev Results := List (Bytes × Nat)

inductive ItemFormat where
  | gcno | profraw | profdata | info | jacocoXml
deriving DecidableEq, Repr

inductive ItemType where
  | path (stem gcno : Bytes)
  | paths (ps : List Bytes)
  | content (c : Nat)
  | buffers (stem : Bytes) (b : Nat)
deriving DecidableEq, Repr

structure Item where
  format : ItemFormat
  item : ItemType
deriving DecidableEq, Repr

inductive GcovType where
  | unknown | single | multi
deriving DecidableEq, Repr

inductive Entry where
  | file (c : Nat)
  | subdir
deriving DecidableEq, Repr

abbrev Dir := List (Bytes × Entry)

structure WorkerState where
  gcovType : GcovType
  dir : Dir
deriving DecidableEq, Repr

/-- one gcov run: the files it wrote into the current directory (later writes of a name replace
earlier ones), and whether it exited with success. "Wrote these files, then failed" is
`⟨false, ws⟩`. -/
structure GcovOut where
  ok : Bool
  writes : Dir
deriving DecidableEq, Repr

inductive ToolRes where
  | ok (lcovs : List Nat)     -- `Ok(lcovs)`: one buffer per successfully exported binary
  | err                       -- `Err(_)`: merge failed / tool not found
  | panic                     -- `find_binaries` panicked
deriving DecidableEq, Repr

structure LlvmOut where
  res : ToolRes
  /-- content of `<working_dir>/grcov.profdata` if the merge tool wrote it -/
  profdata : Option Nat
deriving DecidableEq, Repr

structure Env where
  guess : Bool                      -- --guess-directory-when-missing
  hasBinary : Bool                  -- --binary-path given
  ext : Bytes                       -- get_gcov_output_ext()
  gcovRun : Bytes → GcovOut         -- keyed by the notes path handed to gcov
  parseGz : Nat → Option Results
  parseText : Nat → Option Results
  parseLcov : Nat → Option Results
  parseJacoco : Nat → Option Results
  compute : Bytes → Nat → Option Results
  llvm : List Bytes → LlvmOut

inductive StepResult where
  | results (rs : Results)
  | rejected
  | panic
deriving DecidableEq, Repr

/-! ## small path helpers -/

def GZ : Bytes := [103, 122]                       -- "gz"
def GCOV : Bytes := [103, 99, 111, 118]            -- "gcov"
def EXT_TEXT : Bytes := [46, 103, 99, 111, 118]    -- ".gcov"
def EXT_GZ : Bytes := [46, 103, 99, 111, 118, 46, 106, 115, 111, 110, 46, 103, 122] -- ".gcov.json.gz"
def PROFDATA : Bytes := [103, 114, 99, 111, 118, 46, 112, 114, 111, 102, 100, 97, 116, 97] -- "grcov.profdata"

/-- `str::ends_with` -/
def endsWith (s suffix : Bytes) : Bool := suffix.isSuffixOf s

/-- `Path::file_name`: the last component if it is a normal one -/
def fileName (p : Bytes) : Option Bytes :=
  match (UPath.components p).getLast? with
  | some (.normal n) => some n
  | _ => none

/-- `Path::extension` of a flat file name: the part after the last '.', `None` when there is no
'.', when the only '.' is the first byte, and for "..". -/
def extension (n : Bytes) : Option Bytes :=
  if n = [46, 46] then none
  else
    let r := n.reverse
    let after := (r.takeWhile (· ≠ 46)).reverse
    match r.dropWhile (· ≠ 46) with
    | [] => none
    | _ :: before => if before = [] then none else some after

/-- `has_no_parent` (path_rewriting.rs 40): `parent() == Some("")`, compared as paths -/
def hasNoParent (p : Bytes) : Bool :=
  match UPath.parent p with
  | some q => decide (UPath.components q = [])
  | none => false

/-- `rename_single_files` (lib.rs 149-160) -/
def renameSingle (rs : Results) (stem : Bytes) : Results :=
  match UPath.parent stem with
  | some par => rs.map fun fc => if hasNoParent fc.1 then (UPath.push par fc.1, fc.2) else fc
  | none => rs

def finish (env : Env) (rs : Results) (stem : Bytes) : Results :=
  if env.guess then renameSingle rs stem else rs

/-! ## the directory -/

def writeAll (dir : Dir) (ws : Dir) : Dir := ws.foldl (fun d w => set d w.1 w.2) dir

/-- `clean_working_dir`: every regular file goes, directories stay -/
def cleanDir (dir : Dir) : Dir := dir.filter fun e => decide (e.2 = .subdir)

/-- MultipleFiles mode: the walk over the directory. For every entry: `extension().unwrap()`, the
reader chosen by the extension, `remove_file(..).unwrap()`. `none` = a panic; otherwise the
appended results and the `failed` flag. Every visited entry is removed. -/
def multiGo (env : Env) : Dir → Results → Bool → Option (Results × Bool)
  | [], acc, failed => some (acc, failed)
  | (n, e) :: rest, acc, failed =>
    match extension n with
    | none => none
    | some x =>
      match e with
      | .subdir => none
      | .file c =>
        match (if x = GZ then env.parseGz c else env.parseText c) with
        | some r => multiGo env rest (acc ++ r) failed
        | none => multiGo env rest acc true

/-- `gcov_type` after the `if gcov_type == GcovType::Unknown` latch -/
def latch (t : GcovType) (exists_ : Bool) : GcovType :=
  match t with
  | .unknown => if exists_ then .single else .multi
  | t => t

/-- SingleFile mode: exactly `<notes file name><ext>` is read and, when it parses, removed -/
def singleRead (env : Env) (dir1 : Dir) (stem name : Bytes) : Dir × StepResult :=
  if endsWith env.ext GZ || endsWith env.ext GCOV then
    match get? dir1 name with
    | none => (dir1, .panic)                       -- "Failed to open gcov file"
    | some .subdir => (dir1, .rejected)            -- reading a directory is an I/O error
    | some (.file c) =>
      match (if endsWith env.ext GZ then env.parseGz c else env.parseText c) with
      | none => (dir1, .rejected)                  -- `try_parse!` continues before the remove
      | some rs => (erase dir1 name, .results (finish env rs stem))
  else (dir1, .panic)                              -- "Invalid gcov extension"

/-- MultipleFiles mode: every entry is read and removed -/
def multiRead (env : Env) (dir1 : Dir) (stem : Bytes) : Dir × StepResult :=
  match multiGo env dir1 [] false with
  | none => (dir1, .panic)
  | some (rs, failed) => ([], if failed then .rejected else .results (finish env rs stem))

/-- the `ItemFormat::Gcno` / `ItemType::Path` arm (GCC) -/
def stepPath (env : Env) (st : WorkerState) (stem gcno : Bytes) : WorkerState × StepResult :=
  let out := env.gcovRun gcno
  let dir1 := writeAll st.dir out.writes
  if !out.ok then ({ st with dir := cleanDir dir1 }, .rejected)
  else
    match fileName gcno with
    | none => ({ st with dir := dir1 }, .panic)
    | some fname =>
      let name := fname ++ env.ext
      let ty := latch st.gcovType (get? dir1 name).isSome
      match ty with
      | .single => (⟨ty, (singleRead env dir1 stem name).1⟩, (singleRead env dir1 stem name).2)
      | _ => (⟨ty, (multiRead env dir1 stem).1⟩, (multiRead env dir1 stem).2)

/-- the `for lcov in lcovs { new_results.append(&mut try_parse!(parse_lcov(..))) }` loop: the
`continue` of `try_parse!` belongs to this inner loop, so an export that does not parse is skipped
and the others are kept -/
def parseAll (env : Env) (ls : List Nat) : Results :=
  ls.flatMap fun l => (env.parseLcov l).getD []

/-- `fs::remove_file` with the error ignored: a regular file of that name goes, a directory of
that name (or nothing) is left alone -/
def rmFile (d : Dir) (n : Bytes) : Dir :=
  match get? d n with
  | some .subdir => d
  | _ => erase d n

/-- the Profdata | Profraw arm. `llvm_profiles_to_lcov` merges into `<working_dir>/grcov.profdata`
and a drop guard removes that file on every way out (success, tool error, panic of
`find_binaries`): the next notes item of this worker must not find it among gcov's output.
Without `--binary-path` the item is rejected before the path is even computed. -/
def stepLlvm (env : Env) (st : WorkerState) (it : ItemType) : WorkerState × StepResult :=
  if !env.hasBinary then (st, .rejected)
  else
    match it with
    | .paths ps =>
      let o := env.llvm ps
      -- what the merge tool wrote …
      let dir1 : Dir := match o.profdata with
        | some c => if get? st.dir PROFDATA = some .subdir then st.dir else set st.dir PROFDATA (.file c)
        | none => st.dir
      -- … is gone when `llvm_profiles_to_lcov` returns or unwinds
      let st1 : WorkerState := { st with dir := rmFile dir1 PROFDATA }
      match o.res with
      | .panic => (st1, .panic)
      | .err => (st1, .rejected)
      | .ok lcovs =>
        (st1, .results (parseAll env lcovs))
    | _ => (st, .rejected)

/-- one iteration of the worker loop -/
def step (env : Env) (st : WorkerState) (it : Item) : WorkerState × StepResult :=
  match it.format with
  | .gcno =>
    match it.item with
    | .path stem gcno => stepPath env st stem gcno
    | .buffers stem b =>
      match env.compute stem b with
      | some r => (st, .results (finish env r stem))
      | none => (st, .results [])            -- error logged, an empty batch is merged
    | .content _ => (st, .rejected)
    | .paths _ => (st, .rejected)
  | .profdata | .profraw => stepLlvm env st it.item
  | .info =>
    match it.item with
    | .content c =>
      match env.parseLcov c with
      | some r => (st, .results r)
      | none => (st, .rejected)
    | _ => (st, .rejected)
  | .jacocoXml =>
    match it.item with
    | .content c =>
      match env.parseJacoco c with
      | some r => (st, .results r)
      | none => (st, .rejected)
    | _ => (st, .rejected)

/-- the items one worker picks up, in order; a panic ends the worker -/
def runItems (env : Env) (st : WorkerState) : List Item → WorkerState × List StepResult
  | [] => (st, [])
  | it :: rest =>
    match step env st it with
    | (st', .panic) => (st', [.panic])
    | (st', r) =>
      let (st'', rs) := runItems env st' rest
      (st'', r :: rs)

def init : WorkerState := ⟨.unknown, []⟩

/-- what a step adds to the result map -/
def contrib : StepResult → Results
  | .results rs => rs
  | _ => []

/-! ## gcov.rs -/

/-- argv of `run_gcov` after the program name -/
def gcovArgv (branch : Bool) (gcno : Bytes) : List Bytes :=
  (if branch then [[45, 98], [45, 99]] else []) ++ [gcno, [45, 105]]

structure Ver where
  major : Nat
  minor : Nat
  patch : Nat
  pre : Bool          -- a non-empty pre-release part
deriving DecidableEq, Repr

def isDigit (b : Nat) : Bool := 48 ≤ b && b ≤ 57
def isIdChar (b : Nat) : Bool := isDigit b || (65 ≤ b && b ≤ 90) || (97 ≤ b && b ≤ 122) || b = 45

/-- semver `numeric_identifier`: digits, no leading zero, fits u64 -/
def numId (s : Bytes) : Option (Nat × Bytes) :=
  let ds := s.takeWhile isDigit
  let rest := s.dropWhile isDigit
  if ds = [] then none
  else if ds.length > 1 && ds.head? = some 48 then none
  else
    let v := ds.foldl (fun a d => a * 10 + (d - 48)) 0
    if v > U64MAX then none else some (v, rest)

def dot : Bytes → Option Bytes
  | 46 :: rest => some rest
  | _ => none

/-- semver `identifier(input, pos)`: dot-separated non-empty segments of [0-9A-Za-z-]; for a
pre-release a purely numeric segment must not have a leading zero. `some ([], s)` when the input
does not start an identifier at all. -/
def identLoop (pre : Bool) : Nat → Bytes → Bytes → Option (Bytes × Bytes)
  | 0, _, _ => none
  | f + 1, s, acc =>
    let seg := s.takeWhile isIdChar
    let rest := s.dropWhile isIdChar
    if seg = [] then
      (if acc = [] && rest.head? ≠ some 46 then some ([], s) else none)
    else if pre && decide (seg.length > 1) && seg.all isDigit && seg.head? = some 48 then none
    else
      match rest with
      | 46 :: rest' => identLoop pre f rest' (acc ++ seg ++ [46])
      | _ => some (acc ++ seg, rest)

def ident (pre : Bool) (s : Bytes) : Option (Bytes × Bytes) := identLoop pre (s.length + 1) s []

/-- `semver::Version::parse` (1.0.26), keeping only whether a pre-release is present -/
def parseSemver (s : Bytes) : Option Ver :=
  if s = [] then none else
  match numId s with
  | none => none
  | some (ma, s) =>
  match dot s with
  | none => none
  | some s =>
  match numId s with
  | none => none
  | some (mi, s) =>
  match dot s with
  | none => none
  | some s =>
  match numId s with
  | none => none
  | some (pa, s) =>
    if s = [] then some ⟨ma, mi, pa, false⟩
    else
      let preRes : Option (Bool × Bytes) :=
        match s with
        | 45 :: t =>
          match ident true t with
          | none => none
          | some (p, r) => if p = [] then none else some (true, r)
        | _ => some (false, s)
      match preRes with
      | none => none
      | some (hasPre, s) =>
        let buildRes : Option Bytes :=
          match s with
          | 43 :: t =>
            match ident false t with
            | none => none
            | some (b, r) => if b = [] then none else some r
          | _ => some s
        match buildRes with
        | none => none
        | some s => if s = [] then some ⟨ma, mi, pa, hasPre⟩ else none

/-- `str::split([' ', '\n'])` -/
def tokensAux : Bytes → Bytes → List Bytes
  | cur, [] => [cur]
  | cur, b :: bs => if b = 32 || b = 10 then cur :: tokensAux [] bs else tokensAux (cur ++ [b]) bs

def tokens (s : Bytes) : List Bytes := tokensAux [] s

def isWs (b : Nat) : Bool := (9 ≤ b && b ≤ 13) || b = 32

/-- `str::trim` on ASCII text (Unicode white space beyond ASCII is not modelled) -/
def trim (s : Bytes) : Bytes := ((s.dropWhile isWs).reverse.dropWhile isWs).reverse

/-- `parse_version`: the last token that parses; `none` = the `assert!` fails -/
def parseVersion (out : Bytes) : Option Ver :=
  ((tokens out).filterMap fun t => parseSemver (trim t)).getLast?

/-- `get_gcov_version() >= Version::new(9, 1, 0)` in semver precedence (a pre-release sorts
before its release; build metadata never makes a version smaller than one without) -/
def ge910 (v : Ver) : Bool :=
  decide (v.major > 9) ||
    (v.major == 9 && (decide (v.minor > 1) ||
      (v.minor == 1 && (decide (v.patch > 0) || !v.pre))))

def outputExt (v : Ver) : Bytes := if ge910 v then EXT_GZ else EXT_TEXT

/-! ## llvm_tools::find_binaries -/

inductive FsNode where
  | missing
  | file
  | dir (files : List (Bytes × Bytes))   -- every regular file below: (path, its first ≤128 bytes)
deriving DecidableEq, Repr

/-- `none` = the `fs::metadata(..).unwrap_or_else(panic!)`; a file is taken as it is (not
sniffed); in a directory every regular non-empty file whose head `infer::is_app` accepts -/
def findBinaries (isApp : Bytes → Bool) (p : Bytes) : FsNode → Option (List Bytes)
  | .missing => none
  | .file => some [p]
  | .dir files => some ((files.filter fun f => f.2 ≠ [] && isApp f.2).map (·.1))

end Grcov.Consumer
