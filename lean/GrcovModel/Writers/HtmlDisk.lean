/-
C03, part HtmlDisk — what is ON DISK when `output_html` has returned (second review, item 20).

`Writers/Docs.lean` keeps the page files in a flat map destination ↦ rows. The output directory is
a file system: a path is a file OR a directory. The page of `a.c` is the FILE `a.c.html`; the page
of `a.c.html/z.c` needs the DIRECTORY `a.c.html`. Whichever is written second fails:

* `gen_html` (src/html.rs 393-497): `create_parent(&output_file)` – `if !dest_parent.exists() &&
  fs::create_dir_all(dest_parent).is_err() { panic!(..) }` (html.rs 197-202) – then
  `File::create(&output_file)`: on `Err` it prints `Cannot create file` and RETURNS (no page; the
  global stats already count the file, so its index row stays and links to nothing; exit code 0).
  - the destination is an existing directory (some page below it was written first): `Err`;
  - the parent exists but is a page FILE: `exists()` is true, nothing is created, `File::create`
    fails with ENOTDIR: `Err`;
  - the parent does not exist and a page FILE is a proper prefix of it: `create_dir_all` fails, the
    consumer thread panics and `output_html` calls `process::exit(1)`.
* `gen_index` (324-353): `File::create(output.join("index.html"))`; on `Err` it prints and RETURNS
  – before the loop over `gen_dir_index`: with a source directory named `index.html` at the root
  there is NO index at all. `gen_dir_index` (355-391): the same test for `<dir>/index.html`, only
  that directory's index is missing.

State: the page files written so far (destination ↦ rows). The directories are exactly the proper
prefixes of the written files (a failing `create_dir_all` creates nothing: the file in its way is
below directories that exist already; a `File::create` that fails has no newly created parent).
The writes happen in the order of the list – the order in which the consumer threads take the jobs
(with one thread: the order of the results; with several: any interleaving).
Core Lean only: linked into the native driver `gmodel`.
-/
import GrcovModel.Writers.Docs
namespace Grcov.Writers.HtmlDisk
open Grcov AList Grcov.Writers Grcov.Writers.Docs

abbrev Files := List (List Name × List Int)

/-- `a` is a proper prefix of `b` (as lists of path names) -/
def properPrefix (a b : List Name) : Bool := decide (a.length < b.length) && (b.take a.length == a)

/-- `q` is a directory: the output directory itself, or a proper prefix of a written file -/
def isDir (files : Files) (q : List Name) : Bool := q.isEmpty || files.any fun f => properPrefix q f.1

def isFile (files : Files) (q : List Name) : Bool := (get? files q).isSome

/-- `Path::exists` -/
def pathExists (files : Files) (q : List Name) : Bool := isDir files q || isFile files q

/-- what `gen_html` does with the page of one entry -/
inductive Write where
  /-- the page file is created (or truncated) and written -/
  | written
  /-- `Cannot create file`: no page for this result -/
  | skipped
  /-- `create_parent` panics: `output_html` exits with code 1 -/
  | panic
deriving DecidableEq, Repr

def classify (files : Files) (dest : List Name) : Write :=
  let parent := dest.dropLast
  if !pathExists files parent && files.any (fun f => properPrefix f.1 parent) then .panic
  else if isDir files dest || isFile files parent then .skipped
  else .written

/-- one job of a consumer thread; `none` = panic -/
def writePage (files : Files) (e : HtmlEntry) : Option Files :=
  match classify files e.dest with
  | .panic => none
  | .skipped => some files
  | .written => some (set files e.dest e.rows)

/-- all jobs, in the order they are taken -/
def writeAll : Files → List HtmlEntry → Option Files
  | fs, [] => some fs
  | fs, e :: es =>
    match writePage fs e with
    | none => none
    | some fs' => writeAll fs' es

abbrev IxMap := List (List Name × (Option Path × List Name))

/-- `gen_dir_index` for the keys of `dirs`, in order: the file `<dir>/index.html` is created unless
it is a directory or its parent is a page file (then only this index is missing) -/
def dirIndexes (files : Files) : List (Path × List Name) → IxMap → Option IxMap
  | [], m => some m
  | df :: ds, m =>
    match classify files (dirLoc df.1 ++ [indexHtml]) with
    | .panic => none
    | .skipped => dirIndexes files ds m
    | .written => dirIndexes files ds (set m (dirLoc df.1) (some df.1, df.2))

/-- `gen_index` on the disk left by the page writes: the index files created (location ↦ content
as in `HtmlSite.indexFiles`). When `index.html` of the output directory cannot be created the
function returns BEFORE the directory indexes: no index at all. -/
def indexFilesOnDisk (files : Files) (s : HtmlSite) : Option IxMap :=
  match classify files [indexHtml] with
  | .panic => none
  | .skipped => some []
  | .written => dirIndexes files s.dirs [([], (none, s.globalIndex))]

structure Disk where
  /-- the page files that are still pages when `output_html` returns (an index file written to the
  same path replaces a page: `HtmlSite.pageAt`) -/
  pages : Files
  indexes : IxMap
deriving Repr, DecidableEq

/-- the output directory after `output_html`; `none` = a thread panicked (exit code 1 / 101) -/
def siteOnDisk (es : List HtmlEntry) : Option Disk :=
  match writeAll [] es with
  | none => none
  | some files =>
    match indexFilesOnDisk files ⟨sitePages es, siteDirs es⟩ with
    | none => none
    | some ix =>
      some { pages := files.filter fun p => !(ix.any fun i => decide (i.1 ++ [indexHtml] = p.1))
             indexes := ix }

def htmlOnDisk (src : Path → Option Nat) (rs : List Res) : Option (Option Disk) :=
  (entriesOf src rs).map siteOnDisk

/-! ### the guards -/

/-- no page file is a directory of another page -/
def NoFileDir (es : List HtmlEntry) : Prop :=
  ∀ e ∈ es, ∀ e' ∈ es, properPrefix e.dest e'.dest = false

/-- no index file is a directory of a page: no source directory `<d>/index.html/` beside pages of `<d>` -/
def NoIndexDir (es : List HtmlEntry) : Prop :=
  (∀ e ∈ es, properPrefix [indexHtml] e.dest = false) ∧
  ∀ e ∈ es, ∀ e' ∈ es, properPrefix (dirLoc e.parent ++ [indexHtml]) e'.dest = false

/-- every entry is a page in the directory its index row is listed under: the index of its parent
string is written to the directory of its page (true of every entry `htmlEntry` builds; the driver
op `c03.docs.html` reports any entry for which it fails) -/
def Placed (es : List HtmlEntry) : Prop :=
  ∀ e ∈ es, e.dest ≠ [] ∧ dirLoc e.parent = e.dest.dropLast

def placedB (es : List HtmlEntry) : Bool :=
  es.all fun e => !e.dest.isEmpty && decide (dirLoc e.parent = e.dest.dropLast)

end Grcov.Writers.HtmlDisk
