/-
C03 / C18, part Links — where a link of an index page LEADS (second review, item 21).

The index template (src/templates/index.html 23/25/31/33, `macros::stats_line`, macros.html 40)
writes `<a href="{{ url }}">` with `url = "./"~item~".html"` (file rows, `item` = the file name) or
`"./"~item~"/index.html"` (directory rows, `item` = the directory key). Tera HTML-escapes the value;
an HTML parser un-escapes it: the `href` a user agent sees is exactly that string
(`C18_html_attr_scan`). It is a URI REFERENCE, and the name is put into it as it is – not
percent-encoded. What a user agent and a file server make of it (RFC 3986):

* §3: the reference is cut at the first `#` (what follows is the fragment) and then at the first
  `?` (what follows is the query); only what is left is the path;
* §5.2: the path of a relative reference is merged with the base path (the directory of the index
  page) and dot segments are removed (`.` dropped, `..` removes the segment before it);
* the server percent-decodes the path it is asked for (`%41` is `A`, `%2F` is `/`, `%2e%2e` is
  `..`) and opens that file below its root.

`servedPath loc url`: the path (bytes, segments joined by `/`, relative to the output directory)
of the file that is opened for the link `url` found in the index page of directory `loc`.
Core Lean only: linked into the native driver `gm_c18`.
-/
import GrcovModel.Escape
namespace Grcov.Writers.Links
open Grcov.Escape

/-- cut at the first byte `c`: what is before it, and what is after it if `c` occurs -/
def cutAt (c : Nat) : Bytes → Bytes × Option Bytes
  | [] => ([], none)
  | b :: bs => if b = c then ([], some bs) else ((b :: (cutAt c bs).1), (cutAt c bs).2)

structure Ref where
  path : Bytes
  query : Option Bytes
  fragment : Option Bytes
deriving DecidableEq, Repr

/-- RFC 3986 §3 for a reference without scheme and authority: the fragment is cut off first, then
the query -/
def splitRef (url : Bytes) : Ref :=
  let f := cutAt 35 url
  let q := cutAt 63 f.1
  ⟨q.1, q.2, f.2⟩

def hexVal (b : Nat) : Option Nat :=
  if 48 ≤ b ∧ b ≤ 57 then some (b - 48)
  else if 97 ≤ b ∧ b ≤ 102 then some (b - 87)
  else if 65 ≤ b ∧ b ≤ 70 then some (b - 55)
  else none

/-- percent-decoding: `%XY` with two hex digits is one byte, anything else stays -/
def pctDecode : Bytes → Bytes
  | [] => []
  | [b] => [b]
  | [b, c] => [b, c]
  | b :: x :: y :: rest =>
    if b = 37 then
      match hexVal x, hexVal y with
      | some h, some l => (16 * h + l) :: pctDecode rest
      | _, _ => b :: pctDecode (x :: y :: rest)
    else b :: pctDecode (x :: y :: rest)

/-- the segments of a path: the pieces between `/` (always at least one) -/
def segments (p : Bytes) : List Bytes :=
  p.foldr (fun b acc => if b = 47 then [] :: acc else
    match acc with
    | [] => [[b]]
    | h :: t => (b :: h) :: t) [[]]

def joinSlash : List Bytes → Bytes
  | [] => []
  | [s] => s
  | s :: t :: ss => s ++ 47 :: joinSlash (t :: ss)

/-- §5.2.2-5.2.4: the segments of the reference path are merged onto the base directory and dot
segments are removed – judged on the segments AS WRITTEN (`%2e%2e` is not a dot segment here) –
and every segment that is kept is percent-decoded by the server. `acc`: the target so far,
reversed; it starts as the directory of the index page, whose names are not decoded again. -/
def resolveSegs : List Bytes → List Bytes → List Bytes
  | acc, [] => acc.reverse
  | acc, s :: ss =>
    if s = [46] then resolveSegs acc ss
    else if s = [46, 46] then resolveSegs acc.tail ss
    else resolveSegs (pctDecode s :: acc) ss

/-- the file that is opened for the link `url` of the index page in directory `loc` (names below
the output directory): its path relative to the output directory -/
def servedPath (loc : List Bytes) (url : Bytes) : Bytes :=
  joinSlash (resolveSegs loc.reverse (segments (splitRef url).path))

/-- where the page of file `item` of directory `loc` is: `<loc>/<item>.html` -/
def pagePath (loc : List Bytes) (item : Bytes) : Bytes := joinSlash (loc ++ [item ++ dotHtml])

/-- where the index of the directory with key `item` is: `<item>/index.html` -/
def dirIndexPath (item : Bytes) : Bytes := joinSlash (segments item ++ [indexHtml])

/-- a name is plain for a URI path segment: none of `#`, `?`, `%`, `/` in it -/
def plainName (n : Bytes) : Bool := n.all fun b => !(b == 35 || b == 63 || b == 37 || b == 47)

/-- … and for a directory key (`/` separates its segments): none of `#`, `?`, `%`, no `.`/`..`
segment -/
def plainDirKey (k : Bytes) : Bool :=
  k.all (fun b => !(b == 35 || b == 63 || b == 37)) &&
  (segments k).all fun s => !(s == [46] || s == [46, 46])

/-- `item | urlencode_strict` (the proposed fix): every byte that is not an unreserved ASCII
character becomes `%XY` -/
def hexDigit (n : Nat) : Nat := if n < 10 then 48 + n else 55 + n

def isUnreserved (b : Nat) : Bool :=
  (48 ≤ b && b ≤ 57) || (65 ≤ b && b ≤ 90) || (97 ≤ b && b ≤ 122) || b == 45 || b == 46 || b == 95 || b == 126

def urlencodeStrict : Bytes → Bytes
  | [] => []
  | b :: bs => if isUnreserved b then b :: urlencodeStrict bs
    else 37 :: hexDigit (b / 16) :: hexDigit (b % 16) :: urlencodeStrict bs

/-- the file row as the fix would write it -/
def fileRowUrlFixed (item : Bytes) : Bytes := dotSlash ++ urlencodeStrict item ++ dotHtml

end Grcov.Writers.Links
