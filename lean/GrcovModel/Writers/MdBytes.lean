/-
C13, part MdBytes — the BYTE layer of the remaining small writers: `output_markdown`
(src/output.rs 621-688, with the `tabled` 0.18 / `papergrid` 0.14 table layout under
`Style::markdown()`), the coverage badges `gen_badge` (src/html.rs 574-604, the five Tera templates
`src/templates/badges/*.svg`) and `gen_coverage_json` (src/html.rs 617-658). `output_files` is
`Docs.filesBytes`, `output_lcov` is `Lcov.printLcov` (both already byte-tied in C03).

What is followed, program point by program point:

* FLOATS. `fn percent` of `output_markdown` computes `covered as f32 * 100.0 / total as f32`
  (100.0 when total = 0); `get_percentage_of_covered_lines` computes
  `covered as f64 / total as f64 * 100.0`. `Fl` is a finite binary float `m · 2^e`; `roundTo prec`
  is IEEE-754 round-to-nearest-even of a positive rational to `prec` significant bits (24 = f32,
  53 = f64); `usize as f32`, `*`, `/` are each ONE such rounding of the exact result. Exponent
  range is not modelled (the values are between 100/2^64 and 100·2^64: neither f32 nor f64
  overflows or goes subnormal there). `fmtFixed p` is `format!("{:.p$}")`: the exact binary value
  rounded half-to-even to `p` decimals (core::num::flt2dec `format_exact`).
* TABLE. `Table::new(rows).with(Style::markdown())`: every cell is split at `\n`
  (`Text::new` / `get_lines`: `split('\n')`), cell width = longest line, column width = widest
  cell + 2 (padding 1 left, 1 right), row height = tallest cell; `grid_basic::build_grid` prints
  per row and line `|` + per column (` ` + line + fill + ` ` or, below a shorter cell, blanks) +
  `|`; after the header row the line `|---|…|`; no top or bottom line; lines joined by `\n`.
  WIDTH IS MODELLED FOR ASCII: `unicode_width::UnicodeWidthStr::width` gives every scalar value up
  to U+00A0 the width 1 (controls included, TAB is not expanded), so for ASCII text width = number
  of bytes. Names with bytes ≥ 128 are outside this model (the harness compares their decoded
  cells instead of the bytes).
* after the table `writeln!` twice, then `Total coverage: <figure>%` and a line feed.
* BADGE. `current = covered*100/total` (100 when total = 0) as an integer; the templates choose
  three geometry numbers by `current >= 100`, `current >= 10`, and the colour by
  `current >= hi_limit`, `current >= med_limit` (Tera compares as f64; the limits are the f64
  nearest to the decimals of the `--output-config-file`, default 90 and 75; a `Limit` is a
  non-negative decimal, negative limits are not modelled). The templates are in `MdBytesTpl.lean`
  (generated from the files; literal bytes, holes). `covered * 100` is a `usize` product: it
  overflows (panic with overflow checks) beyond 2^64/100 covered lines, which no run can count:
  not modelled. Rendering below the level of a template (Tera's parser and evaluator) stays a
  parameter: the model is the text Tera produces for these five templates.
* coverage.json: serde_json's compact writer on the struct (field order of the declaration):
  `{"schemaVersion":1,"label":"coverage","message":"<{:.p$}>%","color":"green|yellow|red"}`, the
  colour by `coverage >= hi_limit` / `>= med_limit` on the f64 percentage.

Core Lean only: linked into the native driver `gm_c13`.
-/
import GrcovModel.Writers.Docs
import GrcovModel.Writers.JsonBytes
import GrcovModel.Writers.MdBytesTpl
import GrcovModel.Stats
namespace Grcov.Writers.MdBytes
open Grcov Grcov.Writers Grcov.Writers.Docs
open Grcov.Writers.CobBytes (decBytes decVal?)

abbrev Bytes := List Nat

/-! ## binary floating point -/

/-- a finite non-negative binary float: `m · 2^e` -/
structure Fl where
  m : Nat
  e : Int
deriving DecidableEq, Repr

/-- value = num / den -/
def Fl.num (x : Fl) : Nat := if 0 ≤ x.e then x.m * 2 ^ x.e.toNat else x.m
def Fl.den (x : Fl) : Nat := if 0 ≤ x.e then 1 else 2 ^ (-x.e).toNat

/-- `N / D` rounded to the nearest integer, ties to the even one -/
def rhe (N D : Nat) : Nat :=
  if D < 2 * (N % D) ∨ (2 * (N % D) = D ∧ N / D % 2 = 1) then N / D + 1 else N / D

/-- numerator and denominator of `(n/d) / 2^e` -/
def scaleN (n : Nat) (e : Int) : Nat := if 0 ≤ e then n else n * 2 ^ (-e).toNat
def scaleD (d : Nat) (e : Int) : Nat := if 0 ≤ e then d * 2 ^ e.toNat else d

/-- the exponent of the last place: the `e` with `2^(prec-1) ≤ (n/d)/2^e < 2^prec`
(`log2 n - log2 d` is the exponent of `n/d` or one more) -/
def ulpExp (prec n d : Nat) : Int :=
  let e0 : Int := (n.log2 : Int) - (d.log2 : Int) - (prec : Int)
  if scaleN n e0 / scaleD d e0 < 2 ^ prec then e0 else e0 + 1

/-- round-to-nearest-even of the rational `n/d` to `prec` significant bits -/
def roundTo (prec n d : Nat) : Fl :=
  if n = 0 ∨ d = 0 then ⟨0, 0⟩
  else ⟨rhe (scaleN n (ulpExp prec n d)) (scaleD d (ulpExp prec n d)), ulpExp prec n d⟩

/-- `n as f32` / `n as f64` -/
def Fl.ofNat (prec n : Nat) : Fl := roundTo prec n 1
def Fl.mul (prec : Nat) (a b : Fl) : Fl := roundTo prec (a.num * b.num) (a.den * b.den)
def Fl.div (prec : Nat) (a b : Fl) : Fl := roundTo prec (a.num * b.den) (a.den * b.num)
/-- `a <= b` -/
def Fl.le (a b : Fl) : Bool := decide (a.num * b.den ≤ b.num * a.den)

def fl100 : Fl := ⟨100, 0⟩

/-- output.rs 660-666: `covered as f32 * 100.0 / total as f32`, 100.0 for an empty total -/
def mdPct32 (covered total : Nat) : Fl :=
  if total = 0 then fl100
  else Fl.div 24 (Fl.mul 24 (Fl.ofNat 24 covered) fl100) (Fl.ofNat 24 total)

/-- html.rs 237-245: `covered as f64 / total as f64 * 100.0`, 100.0 for an empty total -/
def htmlPct64 (covered total : Nat) : Fl :=
  if total ≠ 0 then Fl.mul 53 (Fl.div 53 (Fl.ofNat 53 covered) (Fl.ofNat 53 total)) fl100
  else fl100

/-- left-pad with `0` to `p` digits -/
def pad0 (p : Nat) (ds : Bytes) : Bytes := List.replicate (p - ds.length) 48 ++ ds

/-- the integer `x · 10^p` rounded half-to-even: all the digits `{:.p$}` prints -/
def fixedDigits (p : Nat) (x : Fl) : Nat := rhe (x.num * 10 ^ p) x.den

/-- `format!("{:.p$}", x)` for a finite `x ≥ 0` -/
def fmtFixed (p : Nat) (x : Fl) : Bytes :=
  let q := fixedDigits p x
  if p = 0 then decBytes q else decBytes (q / 10 ^ p) ++ 46 :: pad0 p (decBytes (q % 10 ^ p))

/-! ## the table (tabled 0.18, papergrid 0.14 `grid_basic`) -/

/-- `text.split('\n')`: k line feeds give k+1 pieces -/
def splitNl : Bytes → List Bytes
  | [] => [[]]
  | b :: bs =>
    if b = 10 then [] :: splitNl bs
    else match splitNl bs with
      | [] => [[b]]
      | l :: ls => (b :: l) :: ls

def maxNat (l : List Nat) : Nat := l.foldr max 0

/-- `Text::new`: width of a cell = its longest line (ASCII: bytes) -/
def cellW (c : Bytes) : Nat := maxNat ((splitNl c).map List.length)
/-- `count_lines` -/
def cellH (c : Bytes) : Nat := (splitNl c).length

/-- `Dimension::estimate`: widest cell of the column + padding left 1 + right 1 -/
def colWidth (rows : List (List Bytes)) (j : Nat) : Nat :=
  maxNat (rows.map fun r => cellW (r.getD j [])) + 2

def widths (rows : List (List Bytes)) : List Nat :=
  match rows with
  | [] => []
  | h :: _ => (List.range h.length).map (colWidth rows)

def spaces (n : Nat) : Bytes := List.replicate n 32

/-- `print_cell_line`: line `k` of a cell in a column of width `w`: pad, text, fill up to the cell
width and to the column width, pad; blanks when the cell has fewer lines (vertical alignment is
`Top`) -/
def cellLine (w : Nat) (c : Bytes) (k : Nat) : Bytes :=
  match (splitNl c)[k]? with
  | some ln => 32 :: ln ++ spaces (w - 2 - ln.length) ++ [32]
  | none => spaces w

/-- `print_grid_line` -/
def gridLine (ws : List Nat) (r : List Bytes) (k : Nat) : Bytes :=
  124 :: (List.zipWith (fun w c => cellLine w c k ++ [124]) ws r).flatten

def rowH (r : List Bytes) : Nat := maxNat (r.map cellH)

def rowLines (ws : List Nat) (r : List Bytes) : List Bytes := (List.range (rowH r)).map (gridLine ws r)

/-- `print_split_line` for `HLine::full('-', '|', '|', '|')` -/
def sepLine (ws : List Nat) : Bytes := 124 :: (ws.map fun w => List.replicate w 45 ++ [124]).flatten

def joinNl : List Bytes → Bytes
  | [] => []
  | [l] => l
  | l :: ls => l ++ 10 :: joinNl ls

/-- `Table: Display` under `Style::markdown()`: row 0 is the header -/
def gridBytes (rows : List (List Bytes)) : Bytes :=
  match rows with
  | [] => []
  | h :: body =>
    let ws := widths rows
    joinNl (rowLines ws h ++ sepLine ws :: body.flatMap (rowLines ws))

/-! ## the markdown report -/

/-- `file`, `coverage`, `covered`, `missed_lines` (the field names of `LineSummary`) -/
def mdHeader : List Bytes :=
  [[102, 105, 108, 101], [99, 111, 118, 101, 114, 97, 103, 101], [99, 111, 118, 101, 114, 101, 100],
   [109, 105, 115, 115, 101, 100, 95, 108, 105, 110, 101, 115]]

/-- one `LineSummary`: the four cell texts -/
structure MdLine where
  file : Bytes
  coverage : Bytes
  covered : Bytes
  missed : Bytes
deriving DecidableEq, Repr

def MdLine.cells (l : MdLine) : List Bytes := [l.file, l.coverage, l.covered, l.missed]

structure MdTable where
  rows : List MdLine
  /-- the text after `Total coverage: ` -/
  total : Bytes
deriving DecidableEq, Repr

/-- `Total coverage: ` -/
def totalPrefix : Bytes := [84, 111, 116, 97, 108, 32, 99, 111, 118, 101, 114, 97, 103, 101, 58, 32]

def tableBytes (t : MdTable) : Bytes :=
  gridBytes (mdHeader :: t.rows.map MdLine.cells) ++ 10 :: 10 :: totalPrefix ++ t.total ++ [10]

/-- `format!("{:.precision$}%", percent(covered, total))` -/
def pctCell (p covered total : Nat) : Bytes := fmtFixed p (mdPct32 covered total) ++ [37]

/-- `format!("{} / {}", covered, total)` -/
def coveredCell (covered total : Nat) : Bytes := decBytes covered ++ 32 :: 47 :: 32 :: decBytes total

/-- `format_pair` -/
def pairBytes (r : Nat × Nat) : Bytes :=
  if r.1 = r.2 then decBytes r.1 else decBytes r.1 ++ 45 :: decBytes r.2

/-- `missed.join(", ")` -/
def rangesBytes : List (Nat × Nat) → Bytes
  | [] => []
  | [r] => pairBytes r
  | r :: rs => pairBytes r ++ 44 :: 32 :: rangesBytes rs

def mdLine (p : Nat) (r : MdRow) : MdLine :=
  ⟨r.file, pctCell p r.covered r.total, coveredCell r.covered r.total, rangesBytes r.ranges⟩

def sumCovered (rows : List MdRow) : Nat := (rows.map (·.covered)).sum
def sumTotal (rows : List MdRow) : Nat := (rows.map (·.total)).sum

def mdTable (p : Nat) (rows : List MdRow) : MdTable :=
  ⟨rows.map (mdLine p), pctCell p (sumCovered rows) (sumTotal rows)⟩

/-- the bytes `output_markdown(results, _, precision)` writes -/
def markdownBytes (p : Nat) (rs : List Res) : Bytes := tableBytes (mdTable p (markdownRows rs))

/-! ## a strict reader of that report -/

structure SepSt where
  cur : Nat
  acc : List Nat
  ok : Bool

/-- the separator line after its first `|`: runs of `-` closed by `|` -/
def sepStep (s : SepSt) (b : Nat) : SepSt :=
  if b = 45 then { s with cur := s.cur + 1 }
  else if b = 124 then { s with cur := 0, acc := s.acc ++ [s.cur] }
  else { s with ok := false }

def sepWidths : Bytes → Option (List Nat)
  | 124 :: r =>
    let s := r.foldl sepStep ⟨0, [], true⟩
    if s.ok ∧ s.cur = 0 then some s.acc else none
  | _ => none

/-- without the trailing blanks -/
def rstrip (bs : Bytes) : Bytes := (bs.reverse.dropWhile (· = 32)).reverse

/-- a cell of width `w` followed by `|`: blank, text, fill, blank -/
def takeCell (w : Nat) (bs : Bytes) : Option (Bytes × Bytes) :=
  match bs.take w, bs.drop w with
  | 32 :: inner, 124 :: rest =>
    if inner.length + 1 = w ∧ inner.getLast? = some 32 then some (rstrip inner.dropLast, rest) else none
  | _, _ => none

def rowCells : List Nat → Bytes → Option (List Bytes)
  | [], [] => some []
  | [], _ :: _ => none
  | w :: ws, bs =>
    match takeCell w bs with
    | some (c, r) => (rowCells ws r).map (c :: ·)
    | none => none

/-- a one-line table row, sliced at the column widths (so a `|` inside a name is no boundary) -/
def parseRow (ws : List Nat) : Bytes → Option (List Bytes)
  | 124 :: r => rowCells ws r
  | _ => none

def stripPrefix : Bytes → Bytes → Option Bytes
  | [], bs => some bs
  | _ :: _, [] => none
  | p :: ps, b :: bs => if p = b then stripPrefix ps bs else none

/-- the lines after the separator: rows, an empty line, the total line, and the end of the file -/
def parseBody (ws : List Nat) : List Bytes → Option (List MdLine × Bytes)
  | [] => none
  | l :: ls =>
    if l = [] then
      match ls with
      | [tl, []] => (stripPrefix totalPrefix tl).map fun t => ([], t)
      | _ => none
    else
      match parseRow ws l with
      | some [a, b, c, d] => (parseBody ws ls).map fun x => (⟨a, b, c, d⟩ :: x.1, x.2)
      | _ => none

def parseTable (bs : Bytes) : Option MdTable :=
  match splitNl bs with
  | hdr :: sep :: rest =>
    match sepWidths sep with
    | some ws =>
      if parseRow ws hdr = some mdHeader then (parseBody ws rest).map fun x => ⟨x.1, x.2⟩ else none
    | none => none
  | _ => none

/-! the typed reading of the cells -/

def isDigit (b : Nat) : Bool := decide (48 ≤ b ∧ b ≤ 57)

/-- a number at the head of the text -/
def takeNat (bs : Bytes) : Option (Nat × Bytes) :=
  match decVal? (bs.takeWhile isDigit) with
  | some n => some (n, bs.dropWhile isDigit)
  | none => none

/-- `<covered> / <total>` -/
def parsePair (bs : Bytes) : Option (Nat × Nat) :=
  match takeNat bs with
  | some (c, 32 :: 47 :: 32 :: r) =>
    match takeNat r with
    | some (t, []) => some (c, t)
    | _ => none
  | _ => none

/-- `a` or `a-b`, then `, ` and more, or the end; `fuel` ≥ number of ranges -/
def parseRangesF : Nat → Bytes → Option (List (Nat × Nat))
  | 0, _ => none
  | f + 1, bs =>
    match takeNat bs with
    | some (a, 45 :: r) =>
      (match takeNat r with
       | some (b, []) => if a = b then none else some [(a, b)]
       | some (b, 44 :: 32 :: r') => if a = b then none else (parseRangesF f r').map ((a, b) :: ·)
       | _ => none)
    | some (a, []) => some [(a, a)]
    | some (a, 44 :: 32 :: r') => (parseRangesF f r').map ((a, a) :: ·)
    | _ => none

def parseRanges (bs : Bytes) : Option (List (Nat × Nat)) :=
  if bs = [] then some [] else parseRangesF bs.length bs

/-- a percentage cell: the figure without its `%` -/
def parsePct (bs : Bytes) : Option Bytes :=
  if bs.getLast? = some 37 then some bs.dropLast else none

/-- one decoded row: name, printed percentage, `covered / total`, missed ranges -/
structure MdDocRow where
  file : Bytes
  pct : Bytes
  covered : Nat
  total : Nat
  ranges : List (Nat × Nat)
deriving DecidableEq, Repr

structure MdDoc where
  rows : List MdDocRow
  totalPct : Bytes
deriving DecidableEq, Repr

def readLine (l : MdLine) : Option MdDocRow :=
  match parsePct l.coverage, parsePair l.covered, parseRanges l.missed with
  | some pct, some (c, t), some rg => some ⟨l.file, pct, c, t, rg⟩
  | _, _, _ => none

def parseMarkdown (bs : Bytes) : Option MdDoc :=
  match parseTable bs with
  | some t =>
    match t.rows.mapM readLine, parsePct t.total with
    | some rows, some tp => some ⟨rows, tp⟩
    | _, _ => none
  | none => none

/-- what the report says, as data: the document `parseMarkdown` must return -/
def mdDoc (p : Nat) (rows : List MdRow) : MdDoc :=
  ⟨rows.map fun r => ⟨r.file, fmtFixed p (mdPct32 r.covered r.total), r.covered, r.total, r.ranges⟩,
   fmtFixed p (mdPct32 (sumCovered rows) (sumTotal rows))⟩

/-! ## badges -/

inductive BadgeStyle where
  | flat | flatSquare | forTheBadge | plastic | social
deriving DecidableEq, Repr

def BadgeStyle.all : List BadgeStyle := [.flat, .flatSquare, .forTheBadge, .plastic, .social]

def BadgeStyle.tpl : BadgeStyle → List Seg
  | .flat => tplFlat
  | .flatSquare => tplFlatSquare
  | .forTheBadge => tplForTheBadge
  | .plastic => tplPlastic
  | .social => tplSocial

/-- html.rs 586-592: the whole percentage, computed on integers; 100 for an empty total -/
def badgeCurrent (covered total : Nat) : Nat := Stats.htmlPercentFloor covered total

/-- a limit as written in the config file: the decimal `mant / 10^scale`; serde_json reads it as
the nearest f64 (short decimals: correctly rounded) -/
structure Limit where
  mant : Nat
  scale : Nat
deriving DecidableEq, Repr

def Limit.f64 (l : Limit) : Fl := roundTo 53 l.mant (10 ^ l.scale)

/-- html.rs 57-58: `unwrap_or(90.)`, `unwrap_or(75.)` -/
def defaultHi : Limit := ⟨90, 0⟩
def defaultMed : Limit := ⟨75, 0⟩

inductive Level where
  | hi | med | low
deriving DecidableEq, Repr

/-- `x >= hi_limit` / `x >= med_limit` on f64 values -/
def levelOf (x hi med : Fl) : Level :=
  if hi.le x then .hi else if med.le x then .med else .low

/-- the `{% if current >= hi_limit %}` chain of the templates (Tera compares the two as f64) -/
def badgeLevel (current : Nat) (hi med : Limit) : Level :=
  levelOf ⟨current, 0⟩ hi.f64 med.f64

/-- `#97ca00`, `#dfb317`, `#e05d44` -/
def Level.colour : Level → Bytes
  | .hi => [35, 57, 55, 99, 97, 48, 48]
  | .med => [35, 100, 102, 98, 51, 49, 55]
  | .low => [35, 101, 48, 53, 100, 52, 52]

/-- the three digit-count classes of the templates: `current >= 100`, `>= 10`, else -/
def bucket (current : Nat) : Nat := if 100 ≤ current then 2 else if 10 ≤ current then 1 else 0

/-- (width, position, text_length, the constant subtracted from width), all doubled: for_the_badge
uses 142.5 and 1167.5 -/
def BadgeStyle.geometry : BadgeStyle → Nat → Nat × Nat × Nat × Nat
  | .forTheBadge, 2 => (304, 2430, 740, 182)
  | .forTheBadge, 1 => (285, 2335, 550, 182)
  | .forTheBadge, _ => (266, 2240, 360, 182)
  | .social, 2 => (210, 1710, 580, 136)
  | .social, 1 => (198, 1650, 460, 136)
  | .social, _ => (186, 1590, 340, 136)
  | _, 2 => (208, 1630, 660, 122)
  | _, 1 => (192, 1550, 500, 122)
  | _, _ => (180, 1490, 380, 122)

/-- Tera prints an integer as such and a float in shortest form (`142.5`); `h` is twice the value -/
def halfBytes (h : Nat) : Bytes := if h % 2 = 0 then decBytes (h / 2) else decBytes (h / 2) ++ [46, 53]

/-- the value of a hole of a template -/
def holeVal (s : BadgeStyle) (current : Nat) (lv : Level) : Hole → Bytes
  | .width => halfBytes (s.geometry (bucket current)).1
  | .rest => halfBytes ((s.geometry (bucket current)).1 - (s.geometry (bucket current)).2.2.2)
  | .current => decBytes current
  | .color => lv.colour
  | .position => halfBytes (s.geometry (bucket current)).2.1
  | .textLength => halfBytes (s.geometry (bucket current)).2.2.1

def render (env : Hole → Bytes) : List Seg → Bytes
  | [] => []
  | .lit s :: r => s ++ render env r
  | .hole h :: r => env h ++ render env r

/-- the file `badges/<style>.svg` for a figure and a colour level -/
def badgeSvg (s : BadgeStyle) (current : Nat) (lv : Level) : Bytes :=
  render (holeVal s current lv) s.tpl

/-- `gen_badge(tera, stats, conf, output, style)` -/
def badgeBytes (s : BadgeStyle) (covered total : Nat) (hi med : Limit) : Bytes :=
  badgeSvg s (badgeCurrent covered total) (badgeLevel (badgeCurrent covered total) hi med)

/-! reading a badge back: every hole is a run of `0-9 . # a-f` that ends at the next literal -/

def isHoleChar (b : Nat) : Bool :=
  decide ((48 ≤ b ∧ b ≤ 57) ∨ b = 46 ∨ b = 35 ∨ (97 ≤ b ∧ b ≤ 102))

/-- the hole values, in template order -/
def matchTpl : List Seg → Bytes → Option (List (Hole × Bytes))
  | [], [] => some []
  | [], _ :: _ => none
  | .lit s :: r, bs =>
    match stripPrefix s bs with
    | some bs' => matchTpl r bs'
    | none => none
  | .hole h :: r, bs =>
    (matchTpl r (bs.dropWhile isHoleChar)).map ((h, bs.takeWhile isHoleChar) :: ·)

/-- what a badge shows -/
structure BadgeInfo where
  current : Nat
  /-- `none`: the style has no colour (social) -/
  colour : Option Bytes
  width : Bytes
deriving DecidableEq, Repr

def allSame : List Bytes → Option Bytes
  | [] => none
  | x :: xs => if xs.all (· == x) then some x else none

def holesOf (h : Hole) (vs : List (Hole × Bytes)) : List Bytes := (vs.filter (·.1 == h)).map (·.2)

/-- the figure (every place it is printed at must agree), the fill colour and the width -/
def parseBadge (s : BadgeStyle) (bs : Bytes) : Option BadgeInfo :=
  match matchTpl s.tpl bs with
  | some vs =>
    match (allSame (holesOf .current vs)).bind decVal?, allSame (holesOf .width vs) with
    | some cur, some w =>
      (match holesOf .color vs with
       | [] => some ⟨cur, none, w⟩
       | [c] => some ⟨cur, some c, w⟩
       | _ => none)
    | _, _ => none
  | none => none

/-! ## coverage.json -/

open Grcov.Writers.JsonBytes (Json)

/-- `green`, `yellow`, `red` -/
def Level.name : Level → Bytes
  | .hi => [103, 114, 101, 101, 110]
  | .med => [121, 101, 108, 108, 111, 119]
  | .low => [114, 101, 100]

/-- the `CoverageData` value (field names after `rename_all = "camelCase"`) -/
def coverageJson (p covered total : Nat) (hi med : Limit) : Json :=
  .obj [([115, 99, 104, 101, 109, 97, 86, 101, 114, 115, 105, 111, 110], .int 1),
        ([108, 97, 98, 101, 108], .str [99, 111, 118, 101, 114, 97, 103, 101]),
        ([109, 101, 115, 115, 97, 103, 101], .str (fmtFixed p (htmlPct64 covered total) ++ [37])),
        ([99, 111, 108, 111, 114], .str (levelOf (htmlPct64 covered total) hi.f64 med.f64).name)]

/-- the bytes `gen_coverage_json(stats, conf, output, precision)` writes -/
def coverageJsonBytes (p covered total : Nat) (hi med : Limit) : Bytes :=
  JsonBytes.jsonSerialize (coverageJson p covered total hi med)

/-- `message` without its `%`, and `color` -/
def parseCoverageJson (bs : Bytes) : Option (Bytes × Bytes) :=
  match JsonBytes.jsonParse bs with
  | some (.obj [(_, .int 1), (_, .str _), (k3, .str m), (k4, .str c)]) =>
    if k3 = [109, 101, 115, 115, 97, 103, 101] ∧ k4 = [99, 111, 108, 111, 114] then
      (parsePct m).map fun f => (f, c)
    else none
  | _ => none

/-! ## the badge files and coverage.json of a whole HTML report -/

/-- `output_html`: all five badges and coverage.json are computed from `global.stats`, the sum of
the stats of every result that got a page (`Stats.htmlGlobal`) -/
def htmlBadge (s : BadgeStyle) (rs : List Stats.FileIn) (hi med : Limit) : Bytes :=
  badgeBytes s (Stats.htmlGlobal rs).stats.coveredLines (Stats.htmlGlobal rs).stats.totalLines hi med

def htmlCoverageJson (p : Nat) (rs : List Stats.FileIn) (hi med : Limit) : Bytes :=
  coverageJsonBytes p (Stats.htmlGlobal rs).stats.coveredLines (Stats.htmlGlobal rs).stats.totalLines hi med

end Grcov.Writers.MdBytes
