/-
C03 / C18, part CobBytes — the BYTE layer of the Cobertura report: what quick-xml's `Writer`
(0.37.4, no indentation) emits for the events of `output_cobertura` / `write_lines`
(src/cobertura.rs 345-502, 504-563), and a reader of that XML dialect.

Writer (`xmlSerialize`), byte for byte:
* `Event::Decl(BytesDecl::new("1.0", None, None))`          `<?xml version="1.0"?>`
* `Event::DocType(BytesText::from_escaped(" coverage …"))`   `<!DOCTYPE` + ` ` + the text + `>`
  (`write_wrapped(b"<!DOCTYPE ", …)`: two blanks before `coverage`)
* `Event::Start(e)`  `<` name attrs `>`      `Event::End`  `</` name `>`
* `Event::Empty(e)`  `<` name attrs `/>` — only the plain `<line …/>` and `<condition …/>`;
  every other element is written with a start and an end tag even when it has no children
  (`<sources></sources>`, `<methods></methods>`, `<lines></lines>`);
* `push_attribute((k, v))`: one blank, `k`, `="`, `escape(v)`, `"` in push order
  (`Grcov.Escape.xmlAttr`: `< > & ' "` become entities, every other byte – control characters
  included – is copied);
* `Event::Text(BytesText::new(p))`: `escape(p)` (`Grcov.Escape.xmlText`), nothing for an empty text.
No byte is written between events (non-pretty mode); the pretty mode only adds `\n` + blanks before
tags, which the reader below skips when asked to (`ws = true`).

Values: the tree `CobAde.toXml d` has typed attribute values; `conc` renders them to bytes
(names as they are, numbers in decimal, literals as ASCII) and takes the float-valued attributes
(`line-rate`, `branch-rate`) and `timestamp` from `fill`, indexed by the position of the element
(child indices from the root) and the attribute name: they are property C13's subject and are
passed in by the harness as the bytes the implementation printed.

Reader (`xmlParse`): prolog (`<?xml …?>`, `<!DOCTYPE …>` without internal subset), then one
element: tags with names, attributes `k="v"` (no duplicate names), `/>` or `>` children `</name>`,
character data. It does what a conforming XML 1.0 parser does with the bytes the writer can emit:
attribute values as `Grcov.Escape.scanAttr` does after line-end normalisation (raw `<` rejected,
CR LF / CR / LF / TAB read as one blank, the five entities and numeric character references resolved, anything else after `&`
rejected), character data up to the next `<` (`]]>` rejected, CR LF and CR read as LF, references
resolved), bytes that are not XML `Char`s (C0 controls other than TAB/LF/CR, and the non-characters
U+FFFE / U+FFFF) rejected. Other bytes ≥ 128 are opaque (UTF-8 validity is not modelled: the names
are Rust `String`s).
Core Lean only: linked into the native driver `gmodel`.
-/
import GrcovModel.Writers.CobAde
import GrcovModel.Escape
namespace Grcov.Writers.CobBytes
open Grcov Grcov.Escape Grcov.Stats Grcov.Writers.CobAde

/-! ## the byte-level tree -/

inductive BXml where
  | elem (tag : Bytes) (attrs : List (Bytes × Bytes)) (children : List BXml)
  | text (v : Bytes)
deriving Repr

mutual
def BXml.beq : BXml → BXml → Bool
  | .elem t a c, .elem t' a' c' => t == t' && a == a' && BXml.beqs c c'
  | .text v, .text v' => v == v'
  | _, _ => false
def BXml.beqs : List BXml → List BXml → Bool
  | [], [] => true
  | x :: xs, y :: ys => BXml.beq x y && BXml.beqs xs ys
  | _, _ => false
end

/-- ASCII bytes of a literal of the source text (tags, attribute names, `"true"`, `"jump"`, …) -/
def strBytes (s : String) : Bytes := s.toList.map Char.toNat

/-! ## names -/

def isNameStart (b : Nat) : Bool :=
  (97 ≤ b && b ≤ 122) || (65 ≤ b && b ≤ 90) || b == 95 || b == 58

def isNameByte (b : Nat) : Bool :=
  isNameStart b || (48 ≤ b && b ≤ 57) || b == 45 || b == 46

/-- an XML name (ASCII part of the production) -/
def isName (n : Bytes) : Bool :=
  match n with
  | [] => false
  | b :: r => isNameStart b && r.all isNameByte

/-! ## writer -/

/-- ` k="escape(v)"` for every pushed attribute -/
def serAttrs : List (Bytes × Bytes) → Bytes
  | [] => []
  | (k, v) :: as => [32] ++ k ++ [61, 34] ++ xmlAttr v ++ [34] ++ serAttrs as

def lineTag : Bytes := [108, 105, 110, 101]                                   -- line
def conditionTag : Bytes := [99, 111, 110, 100, 105, 116, 105, 111, 110]      -- condition

/-- written with `Event::Empty`: a `<line>` without conditions and every `<condition>` -/
def selfClosing (tag : Bytes) (children : List BXml) : Bool :=
  children.isEmpty && (tag == lineTag || tag == conditionTag)

mutual
def ser : BXml → Bytes
  | .text v => xmlText v
  | .elem t as cs =>
    if selfClosing t cs then [60] ++ t ++ serAttrs as ++ [47, 62]
    else [60] ++ t ++ serAttrs as ++ [62] ++ serList cs ++ [60, 47] ++ t ++ [62]
def serList : List BXml → Bytes
  | [] => []
  | c :: cs => ser c ++ serList cs
end

/-- `<?xml version="1.0"?>` -/
def declBytes : Bytes :=
  [60, 63, 120, 109, 108, 32, 118, 101, 114, 115, 105, 111, 110, 61, 34, 49, 46, 48, 34, 63, 62]

/-- `<!DOCTYPE  coverage SYSTEM 'http://cobertura.sourceforge.net/xml/coverage-04.dtd'>` -/
def doctypeBytes : Bytes :=
  [60, 33, 68, 79, 67, 84, 89, 80, 69, 32, 32, 99, 111, 118, 101, 114, 97, 103, 101, 32, 83, 89, 83,
   84, 69, 77, 32, 39, 104, 116, 116, 112, 58, 47, 47, 99, 111, 98, 101, 114, 116, 117, 114, 97, 46,
   115, 111, 117, 114, 99, 101, 102, 111, 114, 103, 101, 46, 110, 101, 116, 47, 120, 109, 108, 47,
   99, 111, 118, 101, 114, 97, 103, 101, 45, 48, 52, 46, 100, 116, 100, 39, 62]

/-- the bytes of the report for a document tree -/
def xmlSerialize (t : BXml) : Bytes := declBytes ++ doctypeBytes ++ ser t

/-! ## rendering the typed tree of `CobAde.toXml` -/

/-- decimal digits, most significant first (`fuel` > number of digits) -/
def decFuel : Nat → Nat → Bytes
  | 0, _ => []
  | f + 1, n => if n < 10 then [48 + n] else decFuel f (n / 10) ++ [48 + n % 10]

/-- `u32/u64/usize::to_string()`, and `f64::to_string()` of an integer-valued float below 2^53 -/
def decBytes (n : Nat) : Bytes := decFuel (n + 1) n

/-- the printed value of a masked attribute: position of the element, attribute name -/
abbrev Fill := List Nat → String → Bytes

def concAttr (fill : Fill) (path : List Nat) (kv : String × AttrV) : Bytes × Bytes :=
  (strBytes kv.1,
   match kv.2 with
   | .bytes v => v
   | .nat n => decBytes n
   | .lit s => strBytes s
   | .masked => fill path kv.1)

mutual
def conc (fill : Fill) (path : List Nat) : Xml → BXml
  | .elem t as cs => .elem (strBytes t) (as.map (concAttr fill path)) (concList fill path 0 cs)
  | .text v => .text v
def concList (fill : Fill) (path : List Nat) (i : Nat) : List Xml → List BXml
  | [] => []
  | c :: cs => conc fill (path ++ [i]) c :: concList fill path (i + 1) cs
end

/-- the bytes `output_cobertura` writes (non-pretty) for the document `d` -/
def reportBytes (fill : Fill) (d : Doc) : Bytes := xmlSerialize (conc fill [] (toXml d))

/-! ## reader -/

def isWs (b : Nat) : Bool := b == 32 || b == 9 || b == 10 || b == 13

/-- an XML `Char` as far as single bytes go: no C0 control other than TAB, LF, CR -/
def legalByte (b : Nat) : Bool := 32 ≤ b || b == 9 || b == 10 || b == 13

/-- the longest prefix of name bytes, and what follows -/
def readName : Bytes → Bytes × Bytes
  | [] => ([], [])
  | b :: bs =>
    if isNameByte b then
      let r := readName bs
      (b :: r.1, r.2)
    else ([], b :: bs)

/-- XML 1.0 §2.11: CR LF and a lone CR are passed to the application as LF -/
def normEol : Bytes → Bytes
  | [] => []
  | [13] => [10]
  | 13 :: 10 :: r => 10 :: normEol r
  | 13 :: b :: r => 10 :: normEol (b :: r)
  | b :: r => b :: normEol r

/-- U+FFFE and U+FFFF (UTF-8 `EF BF BE`, `EF BF BF`) are not XML `Char`s either -/
def noNonChar (v : Bytes) : Bool :=
  !containsSeq [239, 191, 190] v && !containsSeq [239, 191, 191] v

/-- a decoded value / run of character data made of XML `Char`s only -/
def legalValue (v : Bytes) : Bool := v.all legalByte && noNonChar v

/-- An XML parser positioned just after the opening `"` of an attribute value (XML 1.0 §2.11 then
§3.3.3): line ends are normalised first (CR LF and CR become LF), then literal TAB/LF become a
blank, references are resolved; a raw `<` or a character that is not an XML `Char` is an error.
(`Grcov.Escape.scanAttr` with the line-end step and the `Char` check added.) -/
def readAttrValue (bs : Bytes) : Option (Bytes × Bytes) :=
  match splitAt1 34 bs with
  | none => none
  | some (raw, rest) =>
    if raw.contains 60 then none
    else
      match unescapeEnt ((normEol raw).map normAttrByte) with
      | some v => if legalValue v then some (v, rest) else none
      | none => none

def hasDupKeys (as : List (Bytes × Bytes)) : Bool := !decide ((as.map (·.1)).Nodup)

/-- `S Attribute` repeated: ` k="v"` -/
def parseAttrs : Nat → Bytes → Option (List (Bytes × Bytes) × Bytes)
  | 0, _ => none
  | _ + 1, [] => some ([], [])
  | f + 1, b :: bs =>
    if b = 32 then
      let kr := readName bs
      if isName kr.1 then
        match kr.2 with
        | 61 :: 34 :: r1 =>
          match readAttrValue r1 with
          | some (v, r2) =>
            match parseAttrs f r2 with
            | some (as, r3) => some ((kr.1, v) :: as, r3)
            | none => none
          | none => none
        | _ => none
      else none
    else some ([], b :: bs)

/-- character data up to (not including) the next `<` -/
def readText (bs : Bytes) : Option (BXml × Bytes) :=
  let raw := bs.takeWhile (· != 60)
  let rest := bs.dropWhile (· != 60)
  if rest.isEmpty then none
  else if containsSeq [93, 93, 62] raw then none
  else
    match unescapeEnt (normEol raw) with
    | some v => if legalValue v then some (.text v, rest) else none
    | none => none

mutual
/-- one element (`<…`) or one run of character data -/
def parseNode (ws : Bool) : Nat → Bytes → Option (BXml × Bytes)
  | 0, _ => none
  | _ + 1, [] => none
  | f + 1, b :: r =>
    if b = 60 then
      let tr := readName r
      if isName tr.1 then
        match parseAttrs f tr.2 with
        | none => none
        | some (as, r2) =>
          if hasDupKeys as then none
          else
            match r2 with
            | 47 :: 62 :: r3 => some (.elem tr.1 as [], r3)
            | 62 :: r3 =>
              match parseNodes ws f r3 with
              | some (cs, 60 :: 47 :: r4) =>
                let er := readName r4
                if er.1 = tr.1 then
                  match er.2 with
                  | 62 :: r6 => some (.elem tr.1 as cs, r6)
                  | _ => none
                else none
              | _ => none
            | _ => none
      else none
    else readText (b :: r)
/-- the content of an element: nodes up to `</` (or the end of the input) -/
def parseNodes (ws : Bool) : Nat → Bytes → Option (List BXml × Bytes)
  | 0, _ => none
  | _ + 1, [] => some ([], [])
  | f + 1, b :: r =>
    if b = 60 ∧ r.head? = some 47 then some ([], b :: r)
    else if ws && b != 60 && ((b :: r).takeWhile (· != 60)).all isWs then
      -- indentation of the pretty mode
      parseNodes ws f ((b :: r).dropWhile (· != 60))
    else
      match parseNode ws f (b :: r) with
      | some (n, r1) =>
        match parseNodes ws f r1 with
        | some (ns, r2) => some (n :: ns, r2)
        | none => none
      | none => none
end

/-- what follows the first occurrence of the two bytes `a b` -/
def dropThrough2 (a b : Nat) : Bytes → Option Bytes
  | [] => none
  | [_] => none
  | x :: y :: r => if x = a ∧ y = b then some r else dropThrough2 a b (y :: r)

/-- `<?xml …?>` and `<!DOCTYPE …>` (no internal subset), with white space around them -/
def skipProlog (bs : Bytes) : Option Bytes :=
  let b0 := bs.dropWhile isWs
  let afterDecl : Option Bytes :=
    if startsWith b0 [60, 63, 120, 109, 108] then dropThrough2 63 62 (b0.drop 5) else some b0
  match afterDecl with
  | none => none
  | some b1 =>
    let b2 := b1.dropWhile isWs
    if startsWith b2 [60, 33, 68, 79, 67, 84, 89, 80, 69] then
      let body := b2.drop 9
      let inner := body.takeWhile (· != 62)
      if inner.contains 91 || inner.contains 60 then none
      else
        match body.dropWhile (· != 62) with
        | _ :: r => some (r.dropWhile isWs)
        | [] => none
    else some b2

def xmlParseWith (ws : Bool) (bs : Bytes) : Option BXml :=
  match skipProlog bs with
  | none => none
  | some r =>
    match r with
    | 60 :: _ =>
      match parseNode ws (3 * bs.length + 3) r with
      | some (.elem t as cs, rest) => if rest.all isWs then some (.elem t as cs) else none
      | _ => none
    | _ => none

/-- strict reader: every byte between tags is character data -/
def xmlParse (bs : Bytes) : Option BXml := xmlParseWith false bs

/-! ## well-formed trees: what the round trip needs -/

/-- an attribute value the reader returns unchanged: no C0 control character (TAB, LF, CR are read
as a blank, the others are not XML characters) and no U+FFFE / U+FFFF -/
def attrOk (v : Bytes) : Bool := (v.all fun b => 32 ≤ b) && noNonChar v

/-- character data the reader returns unchanged: no CR (read as LF), no other C0 control except
TAB and LF, no U+FFFE / U+FFFF -/
def textOk (v : Bytes) : Bool := (v.all fun b => 32 ≤ b || b == 9 || b == 10) && noNonChar v

def isText : BXml → Bool
  | .text _ => true
  | .elem .. => false

/-- no two character-data children side by side (they would be read as one) -/
def noAdjText : List BXml → Bool
  | [] => true
  | [_] => true
  | a :: b :: r => !(isText a && isText b) && noAdjText (b :: r)

mutual
def wf : BXml → Bool
  | .text v => !v.isEmpty && textOk v
  | .elem t as cs =>
    isName t && as.all (fun kv => isName kv.1 && attrOk kv.2) && !hasDupKeys as && wfs cs &&
      noAdjText cs
def wfs : List BXml → Bool
  | [] => true
  | c :: cs => wf c && wfs cs
end

/-! ## shape: elements, attribute names, positions of character data — no value -/

inductive Shape where
  | node (tag : Bytes) (keys : List Bytes) (children : List Shape)
  | chars
deriving Repr

mutual
def shape : BXml → Shape
  | .elem t as cs => .node t (as.map (·.1)) (shapes cs)
  | .text _ => .chars
def shapes : List BXml → List Shape
  | [] => []
  | c :: cs => shape c :: shapes cs
end

mutual
def xshape : Xml → Shape
  | .elem t as cs => .node (strBytes t) (as.map fun kv => strBytes kv.1) (xshapes cs)
  | .text _ => .chars
def xshapes : List Xml → List Shape
  | [] => []
  | c :: cs => xshape c :: xshapes cs
end

mutual
def countElems : BXml → Nat
  | .elem _ _ cs => 1 + countElemsL cs
  | .text _ => 0
def countElemsL : List BXml → Nat
  | [] => 0
  | c :: cs => countElems c + countElemsL cs
end

mutual
def countAttrs : BXml → Nat
  | .elem _ as cs => as.length + countAttrsL cs
  | .text _ => 0
def countAttrsL : List BXml → Nat
  | [] => 0
  | c :: cs => countAttrs c + countAttrsL cs
end

mutual
def Shape.elems : Shape → Nat
  | .node _ _ cs => 1 + Shape.elemsL cs
  | .chars => 0
def Shape.elemsL : List Shape → Nat
  | [] => 0
  | c :: cs => Shape.elems c + Shape.elemsL cs
end

mutual
def Shape.attrs : Shape → Nat
  | .node _ ks cs => ks.length + Shape.attrsL cs
  | .chars => 0
def Shape.attrsL : List Shape → Nat
  | [] => 0
  | c :: cs => Shape.attrs c + Shape.attrsL cs
end

/-! ## reading the byte-level tree back to the `Coverage` value -/

/-- value of a non-empty string of decimal digits -/
def decVal? (bs : Bytes) : Option Nat := parseRadix decVal 10 bs

def bAttr (as : List (Bytes × Bytes)) (k : String) : Option Bytes :=
  (as.find? fun a => a.1 == strBytes k).map (·.2)

def bNat (as : List (Bytes × Bytes)) (k : String) : Option Nat := (bAttr as k).bind decVal?

def bCond : BXml → Option Bool
  | .elem t as [] =>
    if t = conditionTag then
      match bNat as "coverage" with
      | some 1 => some true
      | some 0 => some false
      | _ => none
    else none
  | _ => none

def bLine : BXml → Option Stats.CLine
  | .elem t as [] =>
    if t = lineTag then do pure (Stats.CLine.plain (← bNat as "number") (← bNat as "hits")) else none
  | .elem t as [.elem t' _ cs] =>
    if t = lineTag ∧ t' = strBytes "conditions" then do
      pure (Stats.CLine.branch (← bNat as "number") (← bNat as "hits") (← cs.mapM bCond))
    else none
  | _ => none

def bLines : BXml → Option (List Stats.CLine)
  | .elem t _ ls => if t = strBytes "lines" then ls.mapM bLine else none
  | _ => none

def bMethod : BXml → Option Stats.CMethod
  | .elem t as [ls] =>
    if t = strBytes "method" then do pure ⟨← bAttr as "name", ← bLines ls⟩ else none
  | _ => none

def bClass : BXml → Option DocClass
  | .elem t as [.elem t' _ ms, ls] =>
    if t = strBytes "class" ∧ t' = strBytes "methods" then do
      pure { name := ← bAttr as "name", filename := ← bAttr as "filename",
             methods := ← ms.mapM bMethod, lines := ← bLines ls }
    else none
  | _ => none

def bPackage : BXml → Option DocPackage
  | .elem t as [.elem t' _ ks] =>
    if t = strBytes "package" ∧ t' = strBytes "classes" then do
      pure { name := ← bAttr as "name", classes := ← ks.mapM bClass }
    else none
  | _ => none

def bSource : BXml → Option Name
  | .elem t _ [.text p] => if t = strBytes "source" then some p else none
  | _ => none

def bDoc : BXml → Option Doc
  | .elem t _ [.elem t1 _ ss, .elem t2 _ ps] =>
    if t = strBytes "coverage" ∧ t1 = strBytes "sources" ∧ t2 = strBytes "packages" then do
      pure { sources := ← ss.mapM bSource, packages := ← ps.mapM bPackage }
    else none
  | _ => none

/-- decoding the BYTES of a report: parse, rebuild the document, read every class -/
def decodeReport (bs : Bytes) : Option (List (Name × CobInfo)) :=
  ((xmlParse bs).bind bDoc).map fun d => decodeCobertura d.packages

end Grcov.Writers.CobBytes
