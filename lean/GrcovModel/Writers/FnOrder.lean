/-
C03, part FnOrder — the function table of a file AS THE WRITERS LIST IT: in name order, under the
demangled names.

Since 73c9152 every writer that lists functions walks `sorted_functions(&result.functions)`
(src/output.rs 40-47): `functions.iter().collect()` followed by
`sort_by(|a, b| a.0.cmp(b.0))` – the keys of the `FxHashMap` in `String`'s `Ord`, i.e.
lexicographic on the UTF-8 bytes (`nameLe`). The keys of one map are distinct, so the listed order
does not depend on the map's own iteration order (`Lemmas/WritersFnOrder.lean`:
`sortByName_eq_of_perm`); the models below therefore SORT the table they are given instead of taking
its order from the harness.

The printed name is `demangle!(name, demangle, demangle_options)` (output.rs 26-38; every call
site: `output_lcov` FN/FNDA, `output_coveralls` `"name"`, `output_activedata_etl`
`"method"."name"`, cobertura `Method.name`): the demangler is the parameter `dm : Name → Name`
(`id` = `--no-demangle`; with demangling on `symbolic_demangle`'s `name_only` text when there is
one, the name itself otherwise). The SORT KEY is the mangled name, the printed one the demangled.
Nothing else of a writer looks at the names (`func_end` uses the start lines only), so every
writer is its order-taking core model (`CobAde.cobertura`, `CobAde.ade`, `Docs.coverallsDoc`,
`Lcov.printLcov`) applied to `listed dm c` = the record with its table sorted and renamed.

A report prints names, so a reader keys a function by its PRINTED name (`fnTable`; grcov's own lcov
reader does: FNDA refers to FN by name). Two functions whose names demangle to the same text are
then one entry: `Props/C03FnOrder.lean` has the guard, the closed witness (`_Z3fooi` / `_Z3food`)
and the finding C03-demangle-collapses-overloads.
Core Lean only: linked into the native driver `gmodel`.
-/
import GrcovModel.Writers.JsonBytes
import GrcovModel.Lemmas.LcovWriter
namespace Grcov.Writers
open Grcov AList

/-! ## `sorted_functions` -/

/-- `String`'s `Ord` on the UTF-8 bytes: lexicographic, a proper prefix first -/
def nameLe : Name → Name → Bool
  | [], _ => true
  | _ :: _, [] => false
  | a :: as, b :: bs => if a < b then true else if b < a then false else nameLe as bs

/-- insert before the first entry whose name is not smaller -/
def insertByName {α : Type} (nf : Name × α) : List (Name × α) → List (Name × α)
  | [] => [nf]
  | x :: xs => if nameLe nf.1 x.1 then nf :: x :: xs else x :: insertByName nf xs

/-- `sorted_functions`: the entries of the map sorted by name (an insertion sort: it reduces in
the kernel; with distinct names every sorting algorithm gives this list) -/
def sortByName {α : Type} : List (Name × α) → List (Name × α)
  | [] => []
  | x :: xs => insertByName x (sortByName xs)

/-! ## the listed table -/

/-- every function under its printed name (`demangle!`), same order -/
def renameTable (dm : Name → Name) (fs : List (Name × Fn)) : List (Name × Fn) :=
  fs.map fun nf => (dm nf.1, nf.2)

/-- the record with every function under its printed name: what a reader is expected to find -/
def renameFns (dm : Name → Name) (c : Cov) : Cov := { c with functions := renameTable dm c.functions }

/-- the record with its function table in `sorted_functions` order -/
def sortFnsCov (c : Cov) : Cov := { c with functions := sortByName c.functions }

/-- the record as a writer lists it: functions sorted by (mangled) name, printed demangled -/
def listed (dm : Name → Name) (c : Cov) : Cov := renameFns dm (sortFnsCov c)

/-- a reader's function table: keyed by the printed name; a second entry of a name replaces the
data of the first (any map does; grcov's own lcov reader likewise ends with one function per name:
`Props/C03Lcov.lean`, `C03_lcov_demangle_false`) -/
def fnTable (fs : List (Name × Fn)) : List (Name × Fn) := fs.foldl (fun m nf => set m nf.1 nf.2) []

/-- demangler given by a finite table (what the driver is handed): unlisted names print as they are -/
def dmOfTable (tab : List (Name × Name)) (n : Name) : Name := (get? tab n).getD n

/-! ## the writers, with their own order and demangler -/

namespace FnOrder
open Grcov.Writers.CobAde Grcov.Writers.Docs Grcov.Writers.JsonBytes Grcov.Stats

def listedK (dm : Name → Name) (rs : List (Name × Cov)) : List (Name × Cov) :=
  rs.map fun r => (r.1, listed dm r.2)

def listedRes (dm : Name → Name) (rs : List Res) : List Res :=
  rs.map fun r => { r with cov := listed dm r.cov }

/-- `output_cobertura(source_dir, results, _, demangle, _)`: the `Coverage` value -/
def cobertura (dm : Name → Name) (src : Option Name) (rs : List (Name × Cov)) : Run Doc :=
  CobAde.cobertura src (listedK dm rs)

/-- … and the bytes of the report (`fill`: the float attributes and the timestamp, C13) -/
def coberturaBytes (dm : Name → Name) (fill : CobBytes.Fill) (src : Option Name)
    (rs : List (Name × Cov)) : Run Escape.Bytes :=
  match cobertura dm src rs with
  | .ok d => .ok (CobBytes.reportBytes fill d)
  | .panic s => .panic s

/-- `output_activedata_etl(results, _, demangle)`: the records -/
def ade (dm : Name → Name) (rs : List (Name × Cov)) : Run (List AdeRecord) :=
  CobAde.ade (listedK dm rs)

/-- … and the bytes (`pcts`: the printed `percentage_covered` tokens, C13) -/
def adeBytes (dm : Name → Name) (pcts : List Json) (rs : List (Name × Cov)) : Run Escape.Bytes :=
  match ade dm rs with
  | .ok recs => .ok (JsonBytes.adeBytes pcts recs)
  | .panic s => .panic s

/-- `output_coveralls(results, …, with_function_info = plus, …, demangle)`: `source_files` -/
def coveralls (dm : Name → Name) (oc plus : Bool) (rs : List Res) : Option (List CvFile) :=
  coverallsDoc oc plus (listedRes dm rs)

/-- … and the bytes of the report -/
def coverallsBytes (dm : Name → Name) (top : CvTop) (digests : List Escape.Bytes) (plus : Bool)
    (rs : List Res) : Option Escape.Bytes :=
  (coveralls dm true plus rs).map fun d => jsonSerialize (coverallsJson top digests d)

/-- `output_lcov(results, _, demangle)`: the bytes (lines and branch lines given ascending, as the
`BTreeMap`s iterate) -/
def lcov (dm : Name → Name) (rs : List (Name × Cov)) : Escape.Bytes :=
  Lcov.printLcov (listedK dm rs)

end FnOrder

end Grcov.Writers
