/-
HtmlBytes — the HTML report BYTE FOR BYTE (C03 / C18 part Html).

What is modelled, program point by program point:
* Tera 1.20's rendering of src/templates/{base,file,index,macros}.html for the contexts grcov builds:
  `extends`/`block` (only the child's blocks are rendered, inside base.html), the macros `summary`,
  `summary_line`, `stats_line`, `for`/`if`/`set`, whitespace control, auto-escape of every
  interpolated string (`Escape.html`), `| safe` on `bulma_url`, the filters `capitalize`, `round`,
  `severity`, `date`, the function `percent`, string concatenation `~`. The literal template text is
  `Writers/HtmlConsts.lean`; floats are `Writers/HtmlF64.lean` (bit-exact IEEE arithmetic and Rust's
  shortest `Display`), integers are `CobBytes.decBytes` (`u64`/`usize` `Display`).
* src/html.rs `make_context` (299-322), `gen_html` (393-497), `get_stats`, `get_dirs_result`
  (267-297), `gen_index` (324-353), `gen_dir_index` (355-391): which page is written where with which
  context (`site`).
Not modelled: a user configuration file that replaces templates; `BULMA_VERSION`; non-integral
limits in the configuration file (the limits are naturals here; defaults 90 / 75); the time of day
(`date` is the already formatted text, a parameter).

Readers: `parseFilePage`, `parseIndexPage` are STRICT readers of a page (every template byte is
checked), returning title, breadcrumbs, summary figures and rows; `skeleton` is the element /
attribute-name skeleton of a document (text and attribute values dropped).
Core Lean only (linked into the native driver `gmodel`).
-/
import GrcovModel.Escape
import GrcovModel.Stats
import GrcovModel.Writers.Docs
import GrcovModel.Writers.CobBytes
import GrcovModel.Writers.HtmlConsts
import GrcovModel.Writers.HtmlF64
namespace Grcov.Writers.HtmlBytes
open Grcov Grcov.AList Grcov.Writers.HtmlConsts Grcov.Writers.HtmlF64
open Grcov.Stats (HStats htmlStats)
open Grcov.Writers.CobBytes (decBytes)

/-! ## Configuration and contexts -/

/-- html.rs `Config` (limits as naturals), plus what `make_context` needs -/
structure Conf where
  hi : Nat := 90
  med : Nat := 75
  fnHi : Nat := 90
  fnMed : Nat := 75
  brHi : Nat := 90
  brMed : Nat := 75
  /-- `--branch` -/
  branch : Bool
  /-- `--precision` -/
  precision : Nat
  /-- `conf.date` formatted with `%Y-%m-%d %H:%M`; `none` = `--no-date` -/
  date : Option Bytes
  /-- `--html-resources bundled` (else `cdn`) -/
  bundled : Bool
deriving DecidableEq, Repr

/-- what every page gets: `make_context(conf, path_to_root)` + `current`, `parents`, `stats` -/
structure PageCtx where
  conf : Conf
  /-- `path_to_root`: `none` = "." (the global index), `some k` = "../" repeated `k` times -/
  root : Option Nat
  current : Bytes
  /-- (link, label) pairs of the breadcrumb -/
  parents : List (Bytes × Bytes)
  stats : HStats
deriving Repr

structure FileCtx where
  page : PageCtx
  /-- `items`: (line number, count or -1, text) -/
  items : List Docs.HtmlRow
deriving Repr

/-- one entry of `items` of an index page: the key, `info.abs_prefix`, `info.stats` -/
structure IdxRow where
  name : Bytes
  absPrefix : Option Bytes
  stats : HStats
deriving Repr

structure IndexCtx where
  page : PageCtx
  /-- `kind == "Directory"` (the global index) or "File" (a directory index) -/
  listsDirs : Bool
  rows : List IdxRow
deriving Repr

/-! ## Figures -/

/-- `severity(hi, medium, rate)` (html.rs 177-186) -/
def severity (hi med : Nat) (rate : F64) : Bytes :=
  if natLe hi rate && leNat rate 100 then wSuccess
  else if natLe med rate && ltNat rate hi then wWarning
  else wDanger

/-- `{{ per | round(precision=precision) }}` -/
def rounded (p : Nat) (per : F64) : Bytes := display (teraRound p per)

/-- `path_to_root` as text -/
def rootText : Option Nat → Bytes
  | none => [46]
  | some k => (List.replicate k cUp).flatten

/-- `trim_end_matches('/')` -/
def trimSlashes (p : Bytes) : Bytes := (p.reverse.dropWhile (· == 47)).reverse

/-- `bulma_url` (html.rs 302-315, `BULMA_VERSION` unset) -/
def bulmaUrl (bundled : Bool) (root : Option Nat) : Bytes :=
  if bundled then trimSlashes (rootText root) ++ cBulmaFile else cBulmaCdn

/-! ## macros.html -/

/-- `summary_line(kind, covered, total, precision)`; `kindCap` = `kind | capitalize` -/
def summaryLine (kindCap : Bytes) (hi med p covered total : Nat) : Bytes :=
  let per := percent covered total
  cSl1 ++ kindCap ++ [60] ++ cSl2 ++ severity hi med per ++ [34] ++ cSl3 ++ decBytes covered ++ [32] ++ cSlash ++
    decBytes total ++ [34] ++ cSl4 ++ rounded p per ++ [32] ++ cSl5

/-- `<li><a href="{{ parent.0 }}">{{ parent.1 }}</a></li>` -/
def crumb (lk : Bytes × Bytes) : Bytes :=
  cCrumb1 ++ Escape.html lk.1 ++ [34] ++ cCrumb2 ++ Escape.html lk.2 ++ [60] ++ cCrumb3

/-- `<li class="is-active"><a href="#">{{ current }}</a></li>` -/
def curItem (current : Bytes) : Bytes := cCur1 ++ Escape.html current ++ [60] ++ cCrumb3

/-- the optional third figure of `summary` -/
def branchSummary (c : Conf) (s : HStats) : Bytes :=
  if c.branch then cSum5 ++ summaryLine wBranches c.brHi c.brMed c.precision s.coveredBranches s.totalBranches ++ cSum6
  else []

/-- `summary(parents, stats, precision)` (`current` and `branch_enabled` come from the context) -/
def summary (pc : PageCtx) : Bytes :=
  let c := pc.conf
  cSum1 ++ pc.parents.flatMap crumb ++ curItem pc.current ++ cSum2 ++
    summaryLine wLines c.hi c.med c.precision pc.stats.coveredLines pc.stats.totalLines ++ cSum3 ++
    summaryLine wFunctions c.fnHi c.fnMed c.precision pc.stats.coveredFuns pc.stats.totalFuns ++ cSum3 ++
    branchSummary c pc.stats ++ cSum7

/-- the two cells of `stats_line` that exist only with `branch_enabled` -/
def branchCells (c : Conf) (s : HStats) : Bytes :=
  if c.branch then
    let bper := percent s.coveredBranches s.totalBranches
    let bsev := severity c.brHi c.brMed bper
    cSt12 ++ bsev ++ [32] ++ cSt9 ++ rounded c.precision bper ++ [37] ++ cSt13 ++ bsev ++ [32] ++ cSt9 ++
      decBytes s.coveredBranches ++ [32] ++ cSlash ++ decBytes s.totalBranches ++ [60] ++ cSt14
  else []

/-- one row of an index page: the text around the macro call (index.html 22-26 / 30-34) and
`stats_line(name, url, stats, precision)` -/
def statsLine (c : Conf) (url name : Bytes) (s : HStats) : Bytes :=
  let lper := percent s.coveredLines s.totalLines
  let lsev := severity c.hi c.med lper
  let lr := rounded c.precision lper
  let fper := percent s.coveredFuns s.totalFuns
  let fsev := severity c.fnHi c.fnMed fper
  cIdxPre ++ Escape.html url ++ [34] ++ cSt1 ++ Escape.html name ++ [60] ++ cSt2 ++ lsev ++ [32] ++ cSt3 ++
    display lper ++ [34] ++ cSt4 ++ lr ++ [37] ++ cSt5 ++ lsev ++ [32] ++ cSt6 ++ lr ++ [37] ++ cSt7 ++
    lsev ++ [32] ++ cSt6 ++ decBytes s.coveredLines ++ [32] ++ cSlash ++ decBytes s.totalLines ++ [10] ++ cSt8 ++
    fsev ++ [32] ++ cSt9 ++ rounded c.precision fper ++ [37] ++ cSt10 ++ fsev ++ [32] ++ cSt9 ++
    decBytes s.coveredFuns ++ [32] ++ cSlash ++ decBytes s.totalFuns ++ [32] ++ cSt11 ++ branchCells c s ++ cSt15

/-! ## base.html -/

/-- the footer's date block -/
def dateBlock : Option Bytes → Bytes
  | none => []
  | some d => cDate1 ++ Escape.html d ++ [60] ++ cDate2

/-- base.html around the child's `title` and `content` blocks -/
def document (pc : PageCtx) (content : Bytes) : Bytes :=
  cDoc1 ++ Escape.html pc.current ++ [32, 60] ++ cDoc2 ++ bulmaUrl pc.conf.bundled pc.root ++ [34] ++ cDoc3 ++
    content ++ cDoc4 ++ dateBlock pc.conf.date ++ cDoc5

/-! ## file.html -/

/-- the words the template chooses for a row: (highlight, highlight_light, count cell, aria-label) -/
def rowWords (count : Int) : Bytes × Bytes × Bytes × Bytes :=
  if 0 < count then (wSuccess, wSuccessLight, decBytes count.toNat, decBytes count.toNat)
  else if count < 0 then (wWhite, wWhite, [], wNoCoverage)
  else (wDanger, wDangerLight, [], wZero)

/-- one iteration of `{%- for item in items -%}` -/
def fileRow (r : Docs.HtmlRow) : Bytes :=
  let w := rowWords r.count
  let no := decBytes r.no
  [60] ++ cRow1 ++ no ++ [34] ++ cRow2 ++ no ++ [34] ++ cRow3 ++ no ++ [60] ++ cRow4 ++ w.2.1 ++ [32] ++ cRow5 ++
    w.1 ++ [34] ++ cRow6 ++ w.2.2.2 ++ [34] ++ cRow7 ++ w.2.2.1 ++ [10] ++ cRow8 ++ w.2.1 ++ [32] ++ cRow9 ++
    w.2.1 ++ [32] ++ cRow10 ++ Escape.html r.text ++ [60] ++ cRow11

/-- what `tera.render("file.html", &ctx)` returns -/
def filePage (fc : FileCtx) : Bytes :=
  document fc.page (summary fc.page ++ cFile1 ++ fc.items.flatMap fileRow ++ [60] ++ cFile2)

/-! ## index.html -/

/-- the `url` argument of `stats_line` (index.html 22-25, 30-33) -/
def rowUrl (listsDirs : Bool) (r : IdxRow) : Bytes :=
  if listsDirs then Escape.dirRowUrl r.absPrefix r.name else Escape.fileRowUrl r.absPrefix r.name

def kindWord (listsDirs : Bool) : Bytes := if listsDirs then wDirectory else wFile

def branchHeader (c : Conf) : Bytes := if c.branch then cIdx3 else []

/-- what `tera.render("index.html", &ctx)` returns -/
def indexPage (ic : IndexCtx) : Bytes :=
  document ic.page (summary ic.page ++ cIdx1 ++ kindWord ic.listsDirs ++ [60] ++ cIdx2 ++ branchHeader ic.page.conf ++
    cIdx4 ++ ic.rows.flatMap (fun r => statsLine ic.page.conf (rowUrl ic.listsDirs r) r.name r.stats) ++ [60] ++ cIdx5)

/-! ## html.rs: the contexts, the global statistics, the files written -/

structure Opts where
  conf : Conf
  /-- `--abs-link-prefix` -/
  absPrefix : Option Bytes
deriving Repr

structure FileStat where
  stats : HStats
  absPrefix : Option Bytes
deriving Repr

structure DirStat where
  files : List (Bytes × FileStat)
  stats : HStats
  absPrefix : Option Bytes
deriving Repr

/-- `HtmlGlobalStats`; the two `BTreeMap`s are lists kept in ascending key order (`bmInsert`) -/
structure Global where
  dirs : List (Bytes × DirStat)
  stats : HStats
  absPrefix : Option Bytes
deriving Repr

/-- byte-wise lexicographic order (`String: Ord`) -/
def lexLt : Bytes → Bytes → Bool
  | [], [] => false
  | [], _ :: _ => true
  | _ :: _, [] => false
  | a :: as, b :: bs => if a < b then true else if b < a then false else lexLt as bs

/-- `BTreeMap::insert` on a key-ordered list: replace or insert at its place -/
def bmInsert {α : Type} (k : Bytes) (v : α) : List (Bytes × α) → List (Bytes × α)
  | [] => [(k, v)]
  | (k', v') :: rest =>
    if k = k' then (k, v) :: rest
    else if lexLt k k' then (k, v) :: (k', v') :: rest
    else (k', v') :: bmInsert k v rest

/-- `get_dirs_result` -/
def getDirsResult (g : Global) (parent fname : Bytes) (s : HStats) : Global :=
  let fs : FileStat := ⟨s, g.absPrefix.map fun p => Escape.pathJoin p parent⟩
  { g with
    stats := g.stats.add s
    dirs := match get? g.dirs parent with
      | some ds => bmInsert parent { ds with stats := ds.stats.add s, files := bmInsert fname fs ds.files } g.dirs
      | none => bmInsert parent ⟨[(fname, fs)], s, g.absPrefix⟩ g.dirs }

/-- `"top_level"` -/
def topLabel : Bytes := wTopLevel

/-- the context of `gen_html` for a relative `rel` whose source is `src`; `none` = one of the
`unwrap`s panics (`rel.parent()`, `rel.file_name()`) -/
def fileCtx (o : Opts) (rel : Docs.Path) (cov : Cov) (src : Bytes) : Option (Bytes × Bytes × FileCtx) :=
  match UPath.parent rel, Docs.fileNameOf rel with
  | some parent, some fname =>
    let depth := (UPath.components rel).length - 1
    some (parent, fname,
      { page := { conf := o.conf, root := some depth, current := fname
                  parents := [(Escape.fileTopLink o.absPrefix depth, topLabel),
                              (Escape.fileParentLink o.absPrefix parent, parent)]
                  stats := htmlStats cov }
        items := Docs.htmlRows src cov.lines })
  | _, _ => none

/-- a file written below the output directory: component names, content -/
abbrev Written := List Name × Bytes

/-- `gen_html` for one job: the updated statistics and the page written, if any; `none` = panic -/
def genHtml (o : Opts) (r : Docs.Res) (src : Option Bytes) (g : Global) : Option (Global × Option Written) :=
  if !UPath.isRelative r.rel then some (g, none)
  else match src with
    | none => some (g, none)
    | some bytes =>
      match fileCtx o r.rel r.cov bytes, Docs.htmlDest r.rel with
      | some (parent, fname, fc), some dest =>
        some (getDirsResult g parent fname fc.page.stats, some (dest, filePage fc))
      | _, _ => none

/-- the context `gen_index` renders -/
def globalIndexCtx (conf : Conf) (g : Global) : IndexCtx :=
  { page := { conf, root := none, current := topLabel, parents := [], stats := g.stats }
    listsDirs := true
    rows := g.dirs.map fun d => ⟨d.1, d.2.absPrefix, d.2.stats⟩ }

/-- the context `gen_dir_index` renders for the directory key `dir` -/
def dirIndexCtx (conf : Conf) (dir : Bytes) (d : DirStat) : IndexCtx :=
  let layers := (UPath.components (Escape.pathJoin dir Escape.indexHtml)).length - 1
  let link := match d.absPrefix with
    | some p => Escape.pathJoin p Escape.indexHtml
    | none => rootText (some layers) ++ Escape.indexHtml
  { page := { conf, root := some layers, current := dir, parents := [(link, topLabel)], stats := d.stats }
    listsDirs := false
    rows := d.files.map fun f => ⟨f.1, f.2.absPrefix, f.2.stats⟩ }

/-- `gen_index`: the global index, then every directory index, in key order -/
def indexWrites (conf : Conf) (g : Global) : List Written :=
  ([], indexPage (globalIndexCtx conf g)) ::
    g.dirs.map fun d => (Docs.dirLoc d.1, indexPage (dirIndexCtx conf d.1 d.2))

def writtenPath (w : Written) (isIndex : Bool) : List Name := if isIndex then w.1 ++ [Docs.indexHtml] else w.1

/-- all jobs in order (one consumer thread), threading the statistics -/
def runJobs (o : Opts) : List (Docs.Res × Option Bytes) → Global → Option (Global × List Written)
  | [], g => some (g, [])
  | (r, src) :: rest, g =>
    match genHtml o r src g with
    | none => none
    | some (g', w) =>
      match runJobs o rest g' with
      | none => none
      | some (g'', ws) => some (g'', w.toList ++ ws)

/-- the `.html` files below the output directory once `output_html` has returned: path ↦ bytes, a
later write replacing an earlier one; `none` = a consumer thread panics -/
def site (o : Opts) (jobs : List (Docs.Res × Option Bytes)) : Option (List (List Name × Bytes)) :=
  match runJobs o jobs ⟨[], .zero, o.absPrefix⟩ with
  | none => none
  | some (g, pages) =>
    let idx := (indexWrites o.conf g).map fun w => (w.1 ++ [Docs.indexHtml], w.2)
    some ((pages ++ idx).foldl (fun m w => set m w.1 w.2) [])

/-! ## The strict reader -/

/-- strip the prefix `c` -/
def expect (c : Bytes) (bs : Bytes) : Option Bytes :=
  if Escape.startsWith bs c then some (bs.drop c.length) else none

/-- escaped text up to (and without) the next `d` -/
def readEsc (d : Nat) (bs : Bytes) : Option (Bytes × Bytes) :=
  match Escape.splitAt1 d bs with
  | none => none
  | some (raw, rest) => (Escape.unescapeEnt raw).map fun v => (v, rest)

/-- raw bytes up to (and without) the next `d` -/
def readRaw (d : Nat) (bs : Bytes) : Option (Bytes × Bytes) := Escape.splitAt1 d bs

/-- a decimal natural up to (and without) the next `d` -/
def readNat (d : Nat) (bs : Bytes) : Option (Nat × Bytes) :=
  match Escape.splitAt1 d bs with
  | none => none
  | some (raw, rest) => (CobBytes.decVal? raw).map fun n => (n, rest)

def isFigByte (b : Nat) : Bool := (48 ≤ b && b ≤ 57) || b == 46

/-- a printed float (digits and `.`) up to (and without) the next `d` -/
def readFig (d : Nat) (bs : Bytes) : Option (Bytes × Bytes) :=
  match Escape.splitAt1 d bs with
  | none => none
  | some (raw, rest) => if raw.all isFigByte && !raw.isEmpty then some (raw, rest) else none

/-- one of the given words up to (and without) the next `d` -/
def readWord (ws : List Bytes) (d : Nat) (bs : Bytes) : Option (Bytes × Bytes) :=
  match Escape.splitAt1 d bs with
  | none => none
  | some (raw, rest) => if ws.contains raw then some (raw, rest) else none

def sevWords : List Bytes := [wSuccess, wWarning, wDanger]

/-- what a `summary_line` shows -/
structure Figure where
  kind : Bytes
  sev : Bytes
  covered : Nat
  total : Nat
  printed : Bytes
deriving DecidableEq, Repr

def readSummaryLine (bs : Bytes) : Option (Figure × Bytes) := do
  let bs ← expect cSl1 bs
  let (kind, bs) ← readWord [wLines, wFunctions, wBranches] 60 bs
  let bs ← expect cSl2 bs
  let (sev, bs) ← readWord sevWords 34 bs
  let bs ← expect cSl3 bs
  let (c, bs) ← readNat 32 bs
  let bs ← expect cSlash bs
  let (t, bs) ← readNat 34 bs
  let bs ← expect cSl4 bs
  let (p, bs) ← readFig 32 bs
  let bs ← expect cSl5 bs
  pure (⟨kind, sev, c, t, p⟩, bs)

/-- the `<li><a href=…>…</a></li>` items (`fuel` ≥ their number) -/
def readCrumbs : Nat → Bytes → Option (List (Bytes × Bytes) × Bytes)
  | 0, _ => none
  | f + 1, bs =>
    if Escape.startsWith bs cCrumb1 then do
      let bs ← expect cCrumb1 bs
      let (link, bs) ← readEsc 34 bs
      let bs ← expect cCrumb2 bs
      let (label, bs) ← readEsc 60 bs
      let bs ← expect cCrumb3 bs
      let (more, bs) ← readCrumbs f bs
      pure ((link, label) :: more, bs)
    else some ([], bs)

structure Summary where
  crumbs : List (Bytes × Bytes)
  current : Bytes
  figures : List Figure
deriving DecidableEq, Repr

def readSummary (bs : Bytes) : Option (Summary × Bytes) := do
  let bs ← expect cSum1 bs
  let (crumbs, bs) ← readCrumbs bs.length bs
  let bs ← expect cCur1 bs
  let (cur, bs) ← readEsc 60 bs
  let bs ← expect cCrumb3 bs
  let bs ← expect cSum2 bs
  let (l, bs) ← readSummaryLine bs
  let bs ← expect cSum3 bs
  let (f, bs) ← readSummaryLine bs
  let bs ← expect cSum3 bs
  if Escape.startsWith bs cSum5 then do
    let bs ← expect cSum5 bs
    let (b, bs) ← readSummaryLine bs
    let bs ← expect cSum6 bs
    let bs ← expect cSum7 bs
    pure (⟨crumbs, cur, [l, f, b]⟩, bs)
  else do
    let bs ← expect cSum7 bs
    pure (⟨crumbs, cur, [l, f]⟩, bs)

/-- a row of a file page as a reader sees it: line number, `none` = not instrumented / the count,
the source text -/
structure RowView where
  no : Nat
  count : Option Nat
  text : Bytes
deriving DecidableEq, Repr

/-- one row; strict: the three copies of the line number agree, the colour words, the aria-label
and the count cell tell the same story -/
def readRow (bs : Bytes) : Option (RowView × Bytes) := do
  let bs ← expect (60 :: cRow1) bs
  let (n1, bs) ← readNat 34 bs
  let bs ← expect cRow2 bs
  let (n2, bs) ← readNat 34 bs
  let bs ← expect cRow3 bs
  let (n3, bs) ← readNat 60 bs
  let bs ← expect cRow4 bs
  let (hll, bs) ← readWord [wSuccessLight, wWhite, wDangerLight] 32 bs
  let bs ← expect cRow5 bs
  let (hl, bs) ← readWord [wSuccess, wWhite, wDanger] 34 bs
  let bs ← expect cRow6 bs
  let (aria, bs) ← readRaw 34 bs
  let bs ← expect cRow7 bs
  let (cell, bs) ← readRaw 10 bs
  let bs ← expect cRow8 bs
  let (hll2, bs) ← readWord [hll] 32 bs
  let bs ← expect cRow9 bs
  let (_, bs) ← readWord [hll2] 32 bs
  let bs ← expect cRow10 bs
  let (text, bs) ← readEsc 60 bs
  let bs ← expect cRow11 bs
  if n1 ≠ n2 ∨ n2 ≠ n3 then none
  else if hl = wWhite then
    if hll = wWhite ∧ aria = wNoCoverage ∧ cell = [] then some (⟨n1, none, text⟩, bs) else none
  else if hl = wDanger then
    if hll = wDangerLight ∧ aria = wZero ∧ cell = [] then some (⟨n1, some 0, text⟩, bs) else none
  else
    match CobBytes.decVal? aria with
    | some c => if hll = wSuccessLight ∧ cell = aria ∧ 0 < c then some (⟨n1, some c, text⟩, bs) else none
    | none => none

/-- rows while the input goes on with `<d` (`fuel` ≥ their number) -/
def readRows : Nat → Bytes → Option (List RowView × Bytes)
  | 0, _ => none
  | f + 1, bs =>
    if Escape.startsWith bs [60, 100] then do
      let (r, bs) ← readRow bs
      let (more, bs) ← readRows f bs
      pure (r :: more, bs)
    else some ([], bs)

/-- the end of base.html: the date, if shown -/
def readTail (bs : Bytes) : Option (Option Bytes) := do
  let bs ← expect cDoc4 bs
  if Escape.startsWith bs cDate1 then do
    let bs ← expect cDate1 bs
    let (d, bs) ← readEsc 60 bs
    let bs ← expect cDate2 bs
    let bs ← expect cDoc5 bs
    if bs = [] then pure (some d) else none
  else do
    let bs ← expect cDoc5 bs
    if bs = [] then pure none else none

/-- the head of base.html: title and stylesheet link -/
def readHead (bs : Bytes) : Option ((Bytes × Bytes) × Bytes) := do
  let bs ← expect cDoc1 bs
  let (t, bs) ← readRaw 60 bs
  let title ← if t.getLast? = some 32 then Escape.unescapeEnt t.dropLast else none
  let bs ← expect cDoc2 bs
  let (bulma, bs) ← readRaw 34 bs
  let bs ← expect cDoc3 bs
  pure ((title, bulma), bs)

structure FileView where
  title : Bytes
  stylesheet : Bytes
  summary : Summary
  rows : List RowView
  date : Option Bytes
deriving DecidableEq, Repr

/-- the strict reader of a file page -/
def parseFilePage (bs : Bytes) : Option FileView := do
  let ((title, bulma), bs) ← readHead bs
  let (s, bs) ← readSummary bs
  let bs ← expect cFile1 bs
  let (rows, bs) ← readRows bs.length bs
  let bs ← expect (60 :: cFile2) bs
  let date ← readTail bs
  pure ⟨title, bulma, s, rows, date⟩

/-- a row of an index page as a reader sees it -/
structure IdxView where
  url : Bytes
  name : Bytes
  /-- the `value` attribute of `<progress>`: the unrounded line percentage -/
  value : Bytes
  /-- (severity word, printed percentage, covered, total) for lines, functions and, with
  `--branch`, branches -/
  cells : List (Bytes × Bytes × Nat × Nat)
deriving DecidableEq, Repr

def readStatsLine (branch : Bool) (bs : Bytes) : Option (IdxView × Bytes) := do
  let bs ← expect cIdxPre bs
  let (url, bs) ← readEsc 34 bs
  let bs ← expect cSt1 bs
  let (name, bs) ← readEsc 60 bs
  let bs ← expect cSt2 bs
  let (ls1, bs) ← readWord sevWords 32 bs
  let bs ← expect cSt3 bs
  let (value, bs) ← readFig 34 bs
  let bs ← expect cSt4 bs
  let (lr1, bs) ← readFig 37 bs
  let bs ← expect cSt5 bs
  let (_, bs) ← readWord [ls1] 32 bs
  let bs ← expect cSt6 bs
  let (_, bs) ← readWord [lr1] 37 bs
  let bs ← expect cSt7 bs
  let (_, bs) ← readWord [ls1] 32 bs
  let bs ← expect cSt6 bs
  let (cl, bs) ← readNat 32 bs
  let bs ← expect cSlash bs
  let (tl, bs) ← readNat 10 bs
  let bs ← expect cSt8 bs
  let (fs1, bs) ← readWord sevWords 32 bs
  let bs ← expect cSt9 bs
  let (fr, bs) ← readFig 37 bs
  let bs ← expect cSt10 bs
  let (_, bs) ← readWord [fs1] 32 bs
  let bs ← expect cSt9 bs
  let (cf, bs) ← readNat 32 bs
  let bs ← expect cSlash bs
  let (tf, bs) ← readNat 32 bs
  let bs ← expect cSt11 bs
  if branch then do
    let bs ← expect cSt12 bs
    let (bs1, bs) ← readWord sevWords 32 bs
    let bs ← expect cSt9 bs
    let (br, bs) ← readFig 37 bs
    let bs ← expect cSt13 bs
    let (_, bs) ← readWord [bs1] 32 bs
    let bs ← expect cSt9 bs
    let (cb, bs) ← readNat 32 bs
    let bs ← expect cSlash bs
    let (tb, bs) ← readNat 60 bs
    let bs ← expect cSt14 bs
    let bs ← expect cSt15 bs
    pure (⟨url, name, value, [(ls1, lr1, cl, tl), (fs1, fr, cf, tf), (bs1, br, cb, tb)]⟩, bs)
  else do
    let bs ← expect cSt15 bs
    pure (⟨url, name, value, [(ls1, lr1, cl, tl), (fs1, fr, cf, tf)]⟩, bs)

/-- rows while the input goes on with a line feed (`fuel` ≥ their number) -/
def readIdxRows (branch : Bool) : Nat → Bytes → Option (List IdxView × Bytes)
  | 0, _ => none
  | f + 1, bs =>
    if Escape.startsWith bs [10] then do
      let (r, bs) ← readStatsLine branch bs
      let (more, bs) ← readIdxRows branch f bs
      pure (r :: more, bs)
    else some ([], bs)

structure IndexView where
  title : Bytes
  stylesheet : Bytes
  summary : Summary
  kind : Bytes
  branchColumns : Bool
  rows : List IdxView
  date : Option Bytes
deriving DecidableEq, Repr

/-- the strict reader of an index page -/
def parseIndexPage (bs : Bytes) : Option IndexView := do
  let ((title, bulma), bs) ← readHead bs
  let (s, bs) ← readSummary bs
  let bs ← expect cIdx1 bs
  let (kind, bs) ← readWord [wDirectory, wFile] 60 bs
  let bs ← expect cIdx2 bs
  let branch := Escape.startsWith bs cIdx3
  let bs ← if branch then expect cIdx3 bs else some bs
  let bs ← expect cIdx4 bs
  let (rows, bs) ← readIdxRows branch bs.length bs
  let bs ← expect (60 :: cIdx5) bs
  let date ← readTail bs
  pure ⟨title, bulma, s, kind, branch, rows, date⟩

/-! ## The element / attribute skeleton of a document -/

/-- tokenizer state: in character data, inside a tag, inside a double-quoted attribute value -/
inductive SkSt where
  | text | tag | val
deriving DecidableEq, Repr

/-- the next state, and whether the byte belongs to the skeleton -/
def skStep : SkSt → Nat → SkSt × Bool
  | .text, b => if b = 60 then (.tag, true) else (.text, false)
  | .tag, b => if b = 62 then (.text, true) else if b = 34 then (.val, true) else (.tag, true)
  | .val, b => if b = 34 then (.tag, true) else (.val, false)

/-- the state after reading `bs` -/
def skEnd : SkSt → Bytes → SkSt
  | s, [] => s
  | s, b :: bs => skEnd (skStep s b).1 bs

/-- the markup of `bs` read from state `s`: tags with their attribute names, `=""` for every
attribute value; character data and the content of attribute values dropped -/
def skel : SkSt → Bytes → Bytes
  | _, [] => []
  | s, b :: bs => if (skStep s b).2 then b :: skel (skStep s b).1 bs else skel (skStep s b).1 bs

/-- the skeleton of a whole document -/
def skeleton (bs : Bytes) : Bytes := skel .text bs

end Grcov.Writers.HtmlBytes
