/-
HtmlF64 — the floating-point figures of the HTML report, bit for bit.

The templates print three kinds of figures that go through `f64`:
* `percent(num, den)` = `get_percentage_of_covered_lines` (html.rs 237-245):
  `covered as f64 / total as f64 * 100.0`, or `100.0` when `total = 0`;
* `per | round(precision=p)` (Tera 1.20 builtins/filters/number.rs 51-73, method "common"):
  `(multiplier * per).round() / multiplier` with `multiplier = 10.0_f64.powi(p)` (1.0 for p = 0);
* `per | severity(kind)` (html.rs 168-195): comparisons of `per` with the limits.
A float is printed by `write!(w, "{}", v)` (Tera context.rs 152): Rust's `Display` for `f64`, i.e.
the shortest decimal string that reads back as the same `f64` (core::num::flt2dec, `format_shortest`:
Grisu with the Dragon fallback; both produce the digits of the Dragon algorithm below) laid out
positionally, never with an exponent (`digits_to_dec_str` with `frac_digits = 0`).

Model. A non-negative finite double is `m · 2^e` with `m = 0` or `2^52 ≤ m < 2^53` (`F64`); every
IEEE operation is "the exact rational result, rounded to nearest, ties to even" (`roundQ`). All
values that occur are 0 or lie in [2^-64·100, 2^64·10^22·100], far inside the normal range, so
subnormals, overflow, NaN and the sign never arise (for `precision ≤ 22`, where `10^p` is exactly
representable and `powi` is exact; grcov's C13 quantifier is 0..4).
Core Lean only (linked into the native driver).
-/
namespace Grcov.Writers.HtmlF64

/-- `m · 2^e`; `m = 0` (then `e = 0`) or `2^52 ≤ m < 2^53` -/
structure F64 where
  m : Nat
  e : Int
deriving DecidableEq, Repr

def F64.zero : F64 := ⟨0, 0⟩

/-- numerator / denominator of the exact value -/
def F64.num (x : F64) : Nat := if 0 ≤ x.e then x.m * 2 ^ x.e.toNat else x.m
def F64.den (x : F64) : Nat := if 0 ≤ x.e then 1 else 2 ^ (-x.e).toNat

/-- floor(log2 n) for n ≥ 1 (0 for n = 0); `fuel ≥ log2 n` -/
def log2F : Nat → Nat → Nat
  | 0, _ => 0
  | f + 1, n => if n < 2 then 0 else log2F f (n / 2) + 1

def log2 (n : Nat) : Nat := log2F n n

/-- `n / d / 2^e` as a fraction -/
def scaled (n d : Nat) (e : Int) : Nat × Nat :=
  if 0 ≤ e then (n, d * 2 ^ e.toNat) else (n * 2 ^ (-e).toNat, d)

/-- round to nearest, ties to even: the quotient `a / b` as an integer -/
def rne (a b : Nat) : Nat :=
  let q := a / b
  let r := a % b
  if 2 * r < b then q else if b < 2 * r then q + 1 else if q % 2 = 0 then q else q + 1

/-- the double nearest to `n / d` (`d ≠ 0`), ties to even; exponent range unbounded -/
def roundQ (n d : Nat) : F64 :=
  if n = 0 ∨ d = 0 then F64.zero else
  -- n/d ∈ (2^(ln-ld-1), 2^(ln-ld+1)), so n/d/2^e0 ∈ (2^52, 2^54)
  let e0 : Int := (log2 n : Int) - (log2 d : Int) - 53
  let ab := scaled n d e0
  let e : Int := if ab.1 / ab.2 < 2 ^ 53 then e0 else e0 + 1
  let ab := scaled n d e
  let m := rne ab.1 ab.2
  if m = 2 ^ 53 then ⟨2 ^ 52, e + 1⟩ else ⟨m, e⟩

/-- `n as f64` -/
def ofNat (n : Nat) : F64 := roundQ n 1

def mul (x y : F64) : F64 := roundQ (x.num * y.num) (x.den * y.den)
def div (x y : F64) : F64 := roundQ (x.num * y.den) (x.den * y.num)

/-- `f64::round`: nearest integer, halves away from zero; the result is an integer below 2^53 or
the (already integral) argument, so it is representable -/
def roundHalfAway (x : F64) : F64 := roundQ ((2 * x.num + x.den) / (2 * x.den)) 1

/-- `x ≤ n` and `n ≤ x` for a natural `n` (exact) -/
def leNat (x : F64) (n : Nat) : Bool := decide (x.num ≤ n * x.den)
def natLe (n : Nat) (x : F64) : Bool := decide (n * x.den ≤ x.num)
def ltNat (x : F64) (n : Nat) : Bool := decide (x.num < n * x.den)

/-- `get_percentage_of_covered_lines` -/
def percent (covered total : Nat) : F64 :=
  if total ≠ 0 then mul (div (ofNat covered) (ofNat total)) (ofNat 100) else ofNat 100

/-- Tera's `round(precision=p)`, method "common" -/
def teraRound (p : Nat) (x : F64) : F64 :=
  let mult := if p = 0 then ofNat 1 else ofNat (10 ^ p)
  div (roundHalfAway (mul mult x)) mult

/-! ## `Display`: the shortest digits (Dragon4 as in core::num::flt2dec::strategy::dragon) -/

/-- the state of `format_shortest` as fractions over one `scale`: `v = mant/scale`,
`low = (mant - minus)/scale`, `high = (mant + plus)/scale` -/
structure Dec where
  mant : Nat
  minus : Nat
  plus : Nat
  scale : Nat
  incl : Bool

/-- `decode` (flt2dec/decoder.rs): the neighbours are half as far below a power of two -/
def decode (x : F64) : Dec :=
  let (mant, minus, plus, exp) : Nat × Nat × Nat × Int :=
    if x.m = 2 ^ 52 then (4 * x.m, 1, 2, x.e - 2) else (2 * x.m, 1, 1, x.e - 1)
  let incl := x.m % 2 = 0
  if 0 ≤ exp then ⟨mant * 2 ^ exp.toNat, minus * 2 ^ exp.toNat, plus * 2 ^ exp.toNat, 1, incl⟩
  else ⟨mant, minus, plus, 2 ^ (-exp).toNat, incl⟩

/-- `scale.cmp(mant + plus) < rounding`: `high ≥ 1` (inclusive) / `high > 1` -/
def Dec.up (d : Dec) : Bool := if d.incl then decide (d.scale ≤ d.mant + d.plus) else decide (d.scale < d.mant + d.plus)
/-- `mant.cmp(minus) < rounding` -/
def Dec.down (d : Dec) : Bool := if d.incl then decide (d.mant ≤ d.minus) else decide (d.mant < d.minus)

def Dec.times10 (d : Dec) : Dec := { d with mant := d.mant * 10, minus := d.minus * 10, plus := d.plus * 10 }
def Dec.scale10 (d : Dec) : Dec := { d with scale := d.scale * 10 }

/-- the tight `k` with `10^(k-1) < high ≤ 10^k` (`<` / `≤` swapped when inclusive): the state is
rescaled so that `v = mant/scale · 10^k` and `¬ up`. First upwards … -/
def scaleUp : Nat → Dec → Int → Dec × Int
  | 0, d, k => (d, k)
  | f + 1, d, k => if d.up then scaleUp f d.scale10 (k + 1) else (d, k)

/-- … then downwards while the next smaller `k` still bounds `high` -/
def scaleDown : Nat → Dec → Int → Dec × Int
  | 0, d, k => (d, k)
  | f + 1, d, k => if d.times10.up then (d, k) else scaleDown f d.times10 (k - 1)

/-- digit generation: the state has been multiplied by ten; returns the digits (most significant
first), and the final remainder state with the two stop conditions -/
def genDigits : Nat → Dec → List Nat → List Nat × Dec
  | 0, d, acc => (acc, d)
  | f + 1, d, acc =>
    let dig := d.mant / d.scale
    let d' := { d with mant := d.mant % d.scale }
    -- the digit is below 10 by the invariant `(mant + plus)/scale ≤ 10`; `% 10` only makes the
    -- alphabet of the output independent of that invariant
    let acc' := acc ++ [dig % 10]
    if d'.down || d'.up then (acc', d') else genDigits f d'.times10 acc'

/-- `round_up`: add one unit in the last place; `none` when every digit was 9 -/
def roundUp : List Nat → Option (List Nat)
  | [] => none
  | d :: ds =>
    match roundUp ds with
    | some ds' => some (d :: ds')
    | none => if d = 9 then none else some ((d + 1) % 10 :: ds.map fun _ => 0)

/-- `format_shortest`: digits `d1 d2 …` and `k` with value `0.d1d2… · 10^k` -/
def shortest (x : F64) : List Nat × Int :=
  let d0 := decode x
  let (d1, k1) := scaleUp 400 d0 0
  let (d2, k) := scaleDown 400 d1 k1
  let (ds, r) := genDigits 40 d2.times10 []
  if r.up && (!r.down || decide (r.scale ≤ 2 * r.mant)) then
    match roundUp ds with
    | some ds' => (ds', k)
    | none => (1 :: ds.map (fun _ => 0), k + 1)
  else (ds, k)

def digitBytes (ds : List Nat) : List Nat := ds.map fun d => 48 + d

/-- `digits_to_dec_str` with `frac_digits = 0` -/
def layout (ds : List Nat) (k : Int) : List Nat :=
  if k ≤ 0 then [48, 46] ++ List.replicate (-k).toNat 48 ++ digitBytes ds
  else if k.toNat < ds.length then digitBytes (ds.take k.toNat) ++ [46] ++ digitBytes (ds.drop k.toNat)
  else digitBytes ds ++ List.replicate (k.toNat - ds.length) 48

/-- `format!("{}", x)` -/
def display (x : F64) : List Nat :=
  if x.m = 0 then [48] else
  let (ds, k) := shortest x
  layout ds k

end Grcov.Writers.HtmlF64
