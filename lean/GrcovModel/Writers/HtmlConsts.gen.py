#!/usr/bin/python3
"""Generator of Writers/HtmlConsts.lean and Lemmas/WritersHtmlConsts.lean (C03/C18 part Html).
Run from anywhere: python3 HtmlConsts.gen.py   (rewrites the two files under /verif/lean/GrcovModel).
Edit the table `C` when a template of /repo/src/templates changes, regenerate, rebuild; the
correspondence run (harness/c03/src/htmlbytes.rs) tells whether the cut is right."""
# name, text, comment. A constant that follows a hole (a value that is read back by the strict
# reader) does not carry its first byte: the model writes that delimiter explicitly
# (`… ++ [60] ++ cX`), so that the reader lemmas see it. The comment names the stripped byte.
C = [
 ("cDoc1", '<!DOCTYPE html>\n<html lang="en-us">\n    <head><meta charset="utf-8">\n        <meta name="viewport" content="width=device-width, initial-scale=1">\n        <title>Grcov report - ', "base.html 1-7 (`{%- block head -%}` trims after `<head>`), file.html / index.html 4"),
 ("cDoc2", '/title>\n        <link rel="stylesheet" href="', "base.html 7-8, after ` <`"),
 ("cDoc3", '></head>\n    <body>\n        <div class="container">', "base.html 8-12 after the closing quote of href (`{%- endblock head -%}`, `{%- block content -%}`)"),
 ("cDoc4", '</div>\n        <footer class="footer">\n            ', "base.html 14-16"),
 ("cDate1", '\n                <div class="content has-text-centered">\n                    <p class="heading">Date: ', "base.html 16-18"),
 ("cDate2", '/p>\n                </div>\n            ', "base.html 18-20 after `<`"),
 ("cDoc5", '\n        </footer>\n    </body>\n</html>\n', "base.html 20-23"),
 ("cSum1", '\n    <nav class="breadcrumb is-right" aria-label="breadcrumbs">\n        <ul>', "macros.html 12-14"),
 ("cCrumb1", '<li><a href="', "macros.html 16"),
 ("cCrumb2", '>', "macros.html 16 after the closing quote of href"),
 ("cCrumb3", '/a></li>', "macros.html 16 after `<`"),
 ("cCur1", '<li class="is-active"><a href="#">', "macros.html 18"),
 ("cSum2", '\n        </ul>\n    </nav>\n    <nav class="level">\n        ', "macros.html 18-22"),
 ("cSum3", '\n        ', "macros.html 22-23, 23-24"),
 ("cSum5", '\n\t    ', "macros.html 24-25"),
 ("cSum6", '\n\t', "macros.html 25-26"),
 ("cSum7", '\n    </nav>\n', "macros.html 26-28"),
 ("cSl1", '<div class="level-item has-text-centered">\n        <div>\n            <p class="heading">', "macros.html 3-5"),
 ("cSl2", '/p>\n            <p class="title has-text-', "macros.html 5-6 after `<`"),
 ("cSl3", '>\n                <abbr title="', "macros.html 6-7 after the closing quote of class"),
 ("cSlash", '/ ', "`/ ` between covered and total, after the blank"),
 ("cSl4", '>', "macros.html 7 after the closing quote of title"),
 ("cSl5", '%</abbr></p>\n        </div>\n    </div>\n', "macros.html 7-10 after the blank"),
 ("cFile1", '\n    <div role="table" aria-label="Coverage report">', "file.html 7-8"),
 ("cFile2", '/div>\n', "file.html 44-45 after `<`"),
 ("cRow1", 'div class="columns p-0 m-0" role="row">\n            <div\n                class="column is-1 is-narrow p-0 has-text-centered"\n                id="', "file.html 26-29 after `<`"),
 ("cRow2", '\n                role="cell">\n                <a href="#', "file.html 29-31 after the closing quote of id"),
 ("cRow3", '>', "file.html 31 after the closing quote of href"),
 ("cRow4", '/a>\n            </div>\n            <div\n                class="column is-1 is-narrow p-0 has-text-centered has-text-', "file.html 31-34 after `<`"),
 ("cRow5", 'has-background-', "file.html 34 after the blank"),
 ("cRow6", '\n                role="cell" aria-label="', "file.html 34-35 after the closing quote of class"),
 ("cRow7", '>\n                ', "file.html 35-36 after the closing quote of aria-label"),
 ("cRow8", '            </div>\n            <div class="column has-background-', "file.html 36-38 after the line feed"),
 ("cRow9", 'p-0"\n                 role="cell">\n                <pre class="has-background-', "file.html 38-40 after the blank"),
 ("cRow10", 'py-0 px-2">', "file.html 40 after the blank"),
 ("cRow11", '/pre>\n            </div>\n        </div>', "file.html 40-42 after `<`"),
 ("cIdx1", '\n    <table class="table is-fullwidth">\n        <thead>\n            <tr>\n                <th>', "index.html 7-11"),
 ("cIdx2", '/th>\n                <th class="has-text-centered" colspan="3">Line Coverage</th>\n                <th class="has-text-centered" colspan="2">Functions</th>\n                ', "index.html 11-14 after `<`"),
 ("cIdx3", '\n                    <th class="has-text-centered" colspan="2">Branches</th>\n                ', "index.html 14-16"),
 ("cIdx4", '\n            </tr>\n        </thead>\n        <tbody>', "index.html 16-19"),
 ("cIdxPre", '\n                    \n    <tr>\n        <th><a href="', "index.html 22-23 (and 24-25, 30-31, 32-33), macros.html 39-41"),
 ("cSt1", '>', "macros.html 41 after the closing quote of href"),
 ("cSt2", '/a></th>\n        <!-- -->\n        <td class="p-2">\n            <progress\n                class="progress is-', "macros.html 41-45 after `<`"),
 ("cSt3", 'is-large"\n                value="', "macros.html 45-46 after the blank"),
 ("cSt4", '\n                max="100">\n                ', "macros.html 46-48 after the closing quote of value"),
 ("cSt5", '\n            </progress>\n        </td>\n        <td class="has-text-centered has-background-', "macros.html 48-51 after `%`"),
 ("cSt6", 'p-2">\n            ', "macros.html 51-52, 54-55 after the blank"),
 ("cSt7", '\n        </td>\n        <td class="has-text-centered has-background-', "macros.html 52-54 after `%`"),
 ("cSt8", '        </td>\n        <!-- -->\n        <td class="has-text-centered has-background-', "macros.html 55-58 after the line feed"),
 ("cSt9", 'p-2">', "macros.html 58, 59, 62, 63 after the blank"),
 ("cSt10", '</td>\n        <td class="has-text-centered has-background-', "macros.html 58-59 after `%`"),
 ("cSt11", '</td>\n        <!-- -->\n        ', "macros.html 59-61 after the blank"),
 ("cSt12", '\n            <td class="has-text-centered has-background-', "macros.html 61-62"),
 ("cSt13", '</td>\n            <td class="has-text-centered has-background-', "macros.html 62-63 after `%`"),
 ("cSt14", '/td>\n        ', "macros.html 63-64 after `<`"),
 ("cSt15", '\n    </tr>\n\n                  ', "macros.html 64-66, index.html 23-24 (and 25-26, 31-32, 33-34)"),
 ("cIdx5", '/tbody>\n    </table>', "index.html 38-39 after `<`"),
 # words
 ("wSuccess", 'success', ""), ("wWarning", 'warning', ""), ("wDanger", 'danger', ""), ("wWhite", 'white', ""),
 ("wSuccessLight", 'success-light', ""), ("wDangerLight", 'danger-light', ""), ("wNoCoverage", 'no coverage', ""),
 ("wZero", '0', ""),
 ("wLines", 'Lines', "`\"lines\" | capitalize`"), ("wFunctions", 'Functions', ""), ("wBranches", 'Branches', ""),
 ("wDirectory", 'Directory', ""), ("wFile", 'File', ""), ("wTopLevel", 'top_level', ""),
 ("cBulmaCdn", 'https://cdn.jsdelivr.net/npm/bulma@0.9.1/css/bulma.min.css', "html.rs 312 with BULMA_CDN_VERSION"),
 ("cBulmaFile", '/bulma.min.css', "html.rs 308"),
 ("cUp", '../', ""),
]


# ---- Writers/HtmlConsts.lean ----
def blist(t):
    bs = list(t.encode('utf-8'))
    lines = []
    cur = "  ["
    for i, b in enumerate(bs):
        tok = str(b) + (", " if i + 1 < len(bs) else "")
        if len(cur) + len(tok) > 100:
            lines.append(cur.rstrip())
            cur = "   "
        cur += tok
    lines.append(cur + "]")
    return "\n".join(lines)
out = ['''/-
HtmlConsts — the literal text of grcov's Tera templates (src/templates/{base,file,index,macros}.html
as of /repo HEAD), cut at the places where a value is interpolated, as UTF-8 byte lists.
GENERATED by Writers/HtmlConsts.gen.py from a table of (name, text) pairs; each constant carries its text as a comment. A constant
that follows an interpolated value which the strict reader of `Writers/HtmlBytes.lean` reads back
does not carry its first byte: the page model writes that delimiter explicitly. Whitespace control
(`{%-`, `-%}`) has been applied: what is listed is what Tera emits.
Core Lean only.
-/
namespace Grcov.Writers.HtmlConsts

abbrev Bytes := List Nat
''']
for name, text, com in C:
    shown = text.replace('\\', '\\\\').replace('\n', '\\n').replace('\t', '\\t')
    doc = f"`{shown}`" + (f" — {com}" if com else "")
    out.append(f"/-- {doc} -/\ndef {name} : Bytes :=\n{blist(text)}\n")
out.append("end Grcov.Writers.HtmlConsts\n")
open('/verif/lean/GrcovModel/Writers/HtmlConsts.lean', 'w').write("\n".join(out))
print(len(C), "constants")

# ---- Lemmas/WritersHtmlConsts.lean ----
def step(s, b):
    if s == 'text': return ('tag', True) if b == 60 else ('text', False)
    if s == 'tag':
        if b == 62: return ('text', True)
        if b == 34: return ('val', True)
        return ('tag', True)
    return ('tag', True) if b == 34 else ('val', False)
def run(s, bs):
    out = []
    for b in bs:
        s2, keep = step(s, b)
        if keep: out.append(b)
        s = s2
    return s, out
def lst(xs): return "[" + ", ".join(map(str, xs)) + "]"
out = ['''/-
Per-constant facts for `Writers/HtmlConsts.lean` (GENERATED together with it by Writers/HtmlConsts.gen.py): where the skeleton
reader stands after each piece of template text and what it keeps of it (`skEnd`, `skel` from each
of the three states), the markup characters of the piece (`metaOf`), and that no piece contains `&`.
All by evaluation.
-/
import GrcovModel.Writers.HtmlBytes
namespace Grcov.Writers.HtmlBytes
open Grcov.Escape Grcov.Writers.HtmlConsts
''']
for name, text, _ in C:
    bs = list(text.encode())
    assert 38 not in bs, name
    for st in ['text', 'tag', 'val']:
        e, o = run(st, bs)
        out.append(f"@[simp] theorem skEnd_{st}_{name} : skEnd .{st} {name} = .{e} := by decide +kernel")
        out.append(f"@[simp] theorem skel_{st}_{name} : skel .{st} {name} = {lst(o)} := by decide +kernel")
    meta = [b for b in bs if b in (60, 62, 34, 39)]
    out.append(f"@[simp] theorem metaOf_{name} : metaOf {name} = {lst(meta)} := by decide +kernel")
    out.append(f"theorem noAmp_{name} : 38 ∉ {name} := by decide +kernel")
    out.append("")
out.append("end Grcov.Writers.HtmlBytes\n")
open('/verif/lean/GrcovModel/Lemmas/WritersHtmlConsts.lean', 'w').write("\n".join(out))
