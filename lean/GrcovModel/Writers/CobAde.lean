/-
C03, part CobAde — the DOCUMENT STRUCTURE of the Cobertura writer and the records of the
ActiveData-ETL writer.

* cobertura  `get_coverage`, `output_cobertura`, `write_lines`     src/cobertura.rs 234-329, 331-563
* ade        `output_activedata_etl`                               src/output.rs 74-182

What is modelled
----------------
`get_coverage`: one `Package` per result tuple (in the order of the slice), exactly one `Class` per
package; package name = class `filename` = `rel_path.to_str()`; class name =
`rel_path.file_stem()` (unix `Path` semantics, modelled on bytes below); class lines = one `Line`
per key of `result.lines` in key order, built by the closure `line_from_number` (hits from
`lines`, `Line::Branch` with one `Condition` per element of the branch vector when
`result.branches` has the line); one `Method` per entry of `result.functions` (the model takes the
function list in the order it is LISTED – `sorted_functions`, name order, demangled names: supplied
by `Writers/FnOrder.lean`, whose `FnOrder.cobertura dm` / `FnOrder.ade dm` apply this model to
`listed dm c`), whose lines are the keys `x` of `result.lines` with
`function.start <= x < func_end`, `func_end` = the first element of the sorted start list that is
`> function.start`, else `last line key + 1`.

The per-line pieces (`lineFromNumber`, `funcEnd`, `linesInFunction`, `cobClass`) already exist in
`GrcovModel/Stats.lean` (C13 uses them for the summary figures) and are REUSED here, not
duplicated; the loop of the Rust code (`sort_unstable` + `for start in &start_indexes { if *start >
function.start { func_end = *start; break } }`) is written out below as `funcEndLoop` and proved
equal to `Stats.funcEnd` in `Lemmas/WritersCobAde.lean`.

`output_cobertura` + `write_lines`: the element tree that is handed to quick-xml, as a generic
`Xml` value (`toXml`): element names, attribute names in the order they are pushed, attribute
values (numbers in decimal, names as bytes), `branch="true"` + `<conditions>` for branch lines,
`signature=""`, `complexity`, `version`. The float-valued attributes (`line-rate`, `branch-rate`)
and `timestamp` are `masked`: the figures are property C13's subject (`Stats.cobReport`).
`lines-covered`, `lines-valid`, `branches-covered`, `branches-valid` are integer-valued `f64`s whose
`to_string()` is the decimal integer (below 2^53): taken from `Stats.cobPackage`.

`output_activedata_etl`: per file the `covered` / `uncovered` lists, one record per function with
the same start-line range rule, the orphan sets (a `BTreeSet` from which every claimed line is
removed), the file-level record, the `total_*` fields (lengths). `percentage_covered` (f32) is not
modelled (C13).

Both writers compute `last + 1` in `u32`: a last line key of 2^32-1 panics (overflow checks on).
Core Lean only: linked into the native driver `gmodel`.
-/
import GrcovModel.Writers
import GrcovModel.Stats
namespace Grcov.Writers.CobAde
open Grcov AList Grcov.Stats Grcov.Writers

deriving instance DecidableEq for Grcov.Stats.CMethod
deriving instance DecidableEq for Grcov.Stats.CClass

/-! ## `Path::file_stem` on unix, on bytes -/

/-- split at every byte `sep` (always at least one piece) -/
def splitBytes (sep : Nat) (bs : List Nat) : List (List Nat) :=
  bs.foldr (fun b acc => if b = sep then [] :: acc else
    match acc with
    | [] => [[b]]
    | h :: t => (b :: h) :: t) [[]]

/-- the `Normal`/`ParentDir` components of a unix path: pieces between `/`, without the empty
ones (repeated or trailing slashes, the root) and without `.` (skipped by `components()`; a leading
`.` is a `CurDir` component, which is not a file name either) -/
def components (p : Name) : List Name :=
  (splitBytes 47 p).filter fun c => !(c == [] || c == [46])

/-- `Path::file_name`: the last component unless it is `..` -/
def fileName (p : Name) : Option Name :=
  match (components p).getLast? with
  | none => none
  | some c => if c = [46, 46] then none else some c

/-- `rsplit_file_at_dot(..).0`: up to the LAST dot; the whole name when there is no dot or the
only dot is the first byte -/
def stemOf (n : Name) : Name :=
  let r := n.reverse
  match r.dropWhile (fun b => b != 46) with
  | [] => n                               -- no dot
  | _ :: before => if before = [] then n else before.reverse

/-- `rel_path.file_stem().map(|x| x.to_str().unwrap()).unwrap_or_default()` -/
def className (p : Name) : Name :=
  match fileName p with
  | none => []
  | some n => stemOf n

/-! ## `func_end`, the loop as written -/

def insertSorted (x : Nat) : List Nat → List Nat
  | [] => [x]
  | y :: ys => if x ≤ y then x :: y :: ys else y :: insertSorted x ys

/-- `start_indexes.sort_unstable()` (the result of sorting numbers does not depend on stability) -/
def isort : List Nat → List Nat
  | [] => []
  | x :: xs => insertSorted x (isort xs)

/-- `for start in &start_indexes { if *start > s { func_end = *start; break; } }` -/
def firstAbove (s : Nat) : List Nat → Option Nat
  | [] => none
  | x :: xs => if s < x then some x else firstAbove s xs

/-- `func_end` computed the way the code does -/
def funcEndLoop (c : Cov) (s : Nat) : Nat :=
  (firstAbove s (isort (c.functions.map fun nf => nf.2.start))).getD (maxKey c.lines + 1)

/-! ## cobertura: the `Coverage` value built by `get_coverage` -/

structure DocClass where
  name : Name
  filename : Name
  lines : List CLine
  methods : List CMethod
deriving DecidableEq, Repr

structure DocPackage where
  name : Name
  classes : List DocClass
deriving DecidableEq, Repr

structure Doc where
  sources : List Name
  packages : List DocPackage
deriving DecidableEq, Repr

/-- the body of the `map` closure of `get_coverage` for one `(_, rel_path, result)` -/
def docClass (rel : Name) (c : Cov) : DocClass :=
  let k := cobClass c
  { name := className rel, filename := rel, lines := k.lines, methods := k.methods }

def docPackage (rel : Name) (c : Cov) : DocPackage :=
  { name := rel, classes := [docClass rel c] }

/-- `get_coverage(results, sources, ..)` on records whose function tables are in listing order
(`Writers.listed dm`: sorted by mangled name, printed demangled) -/
def coberturaPackages (rs : List (Name × Cov)) : List DocPackage :=
  rs.map fun r => docPackage r.1 r.2

/-- `source_dir.unwrap_or_else(|| Path::new(".")).display().to_string()` -/
def sourcesOf (srcDir : Option Name) : List Name := [srcDir.getD [46]]

def coberturaDoc (srcDir : Option Name) (rs : List (Name × Cov)) : Doc :=
  { sources := sourcesOf srcDir, packages := coberturaPackages rs }

/-- `end = last + 1` in `u32` -/
def lastPlusOnePanics (rs : List (Name × Cov)) : Bool :=
  rs.any fun r => decide (U32MAX ≤ maxKey r.2.lines)

def cobertura (srcDir : Option Name) (rs : List (Name × Cov)) : Run Doc :=
  if lastPlusOnePanics rs then .panic "cobertura.rs:245 last + 1" else .ok (coberturaDoc srcDir rs)

/-! ## the element tree written by `output_cobertura` / `write_lines` -/

inductive AttrV where
  /-- a name / path, as bytes -/
  | bytes (v : Name)
  /-- a number printed in decimal -/
  | nat (n : Nat)
  /-- a literal of the source text -/
  | lit (s : String)
  /-- a float or the timestamp: not modelled here (C13) -/
  | masked
deriving DecidableEq, Repr

inductive Xml where
  | elem (tag : String) (attrs : List (String × AttrV)) (children : List Xml)
  | text (v : Name)
deriving Repr

/-- one `<condition number=i type="jump" coverage=0|1/>` per branch slot, numbered from 0 -/
def condsXml : Nat → List Bool → List Xml
  | _, [] => []
  | i, b :: bs =>
    .elem "condition" [("number", .nat i), ("type", .lit "jump"),
      ("coverage", .nat (if b then 1 else 0))] [] :: condsXml (i + 1) bs

/-- the body of the `for line in lines` loop of `write_lines` -/
def lineXml : CLine → Xml
  | .plain n h => .elem "line" [("number", .nat n), ("hits", .nat h)] []
  | .branch n h v =>
    .elem "line" [("number", .nat n), ("hits", .nat h), ("branch", .lit "true")]
      [.elem "conditions" [] (condsXml 0 v)]

/-- `write_lines` -/
def linesXml (ls : List CLine) : Xml := .elem "lines" [] (ls.map lineXml)

def rateAttrs : List (String × AttrV) :=
  [("line-rate", .masked), ("branch-rate", .masked), ("complexity", .lit "0")]

def methodXml (m : CMethod) : Xml :=
  .elem "method" ([("name", .bytes m.name), ("signature", .lit "")] ++ rateAttrs) [linesXml m.lines]

def classXml (k : DocClass) : Xml :=
  .elem "class" ([("name", .bytes k.name), ("filename", .bytes k.filename)] ++ rateAttrs)
    [.elem "methods" [] (k.methods.map methodXml), linesXml k.lines]

def packageXml (p : DocPackage) : Xml :=
  .elem "package" (("name", .bytes p.name) :: rateAttrs) [.elem "classes" [] (p.classes.map classXml)]

/-- `Class::get_stats` of a document class (through `Stats.classLines`: class lines extended by the
method lines in a map keyed by line number) -/
def classStats (k : DocClass) : CobStats := fromLines (classLines ⟨k.lines, k.methods⟩)

/-- `Package::get_stats`: the classes' maps merged into one map (`Vec<Class>::get_lines`) -/
def packageStats (p : DocPackage) : CobStats :=
  fromLines (p.classes.foldl (fun m k => extendMap m (classLines ⟨k.lines, k.methods⟩)) [])

/-- `Coverage::get_stats`: the packages' stats folded with `+` -/
def docStats (d : Doc) : CobStats := d.packages.foldl (fun acc p => acc.add (packageStats p)) .zero

def toXml (d : Doc) : Xml :=
  let s := docStats d
  .elem "coverage"
    [("lines-covered", .nat s.linesCovered), ("lines-valid", .nat s.linesValid),
     ("line-rate", .masked), ("branches-covered", .nat s.branchesCovered),
     ("branches-valid", .nat s.branchesValid), ("branch-rate", .masked),
     ("complexity", .lit "0"), ("version", .lit "1.9"), ("timestamp", .masked)]
    [.elem "sources" [] (d.sources.map fun p => .elem "source" [] [.text p]),
     .elem "packages" [] (d.packages.map packageXml)]

/-! ## an independent reader of the document: what a consumer of the report recovers -/

/-- per file: instrumented lines with hits, branch vectors, function names -/
structure CobInfo where
  lines : List (Nat × Nat)
  branches : List (Nat × List Bool)
  fnNames : List Name
deriving DecidableEq, Repr

def CLine.hits : CLine → Nat
  | .plain _ h => h
  | .branch _ h _ => h

def CLine.conds : CLine → Option (List Bool)
  | .plain _ _ => none
  | .branch _ _ v => some v

def decodeLines (ls : List CLine) : List (Nat × Nat) := ls.map fun l => (l.number, CLine.hits l)

def decodeBranches (ls : List CLine) : List (Nat × List Bool) :=
  ls.filterMap fun l => (CLine.conds l).map fun v => (l.number, v)

def decodeClass (k : DocClass) : Name × CobInfo :=
  (k.filename, { lines := decodeLines k.lines, branches := decodeBranches k.lines,
                 fnNames := k.methods.map (·.name) })

/-- every `<class>` of every `<package>`, in document order -/
def decodeCobertura (ps : List DocPackage) : List (Name × CobInfo) :=
  ps.flatMap fun p => p.classes.map decodeClass

/-- the projection of a result that the cobertura format carries: lines with hits, the branch
vectors of lines that have a line entry, the function names -/
def cobProj (c : Cov) : CobInfo :=
  { lines := c.lines
    branches := c.lines.filterMap fun lh => (get? c.branches lh.1).map fun v => (lh.1, v)
    fnNames := keys c.functions }

/-! ## ActiveData-ETL -/

/-- the `covered`/`uncovered`/`total_covered`/`total_uncovered` fields of a `"method"` or `"file"`
object -/
structure AdeLists where
  covered : List Nat
  uncovered : List Nat
  totalCovered : Nat
  totalUncovered : Nat
deriving DecidableEq, Repr

/-- `json!({.. "covered": c, "uncovered": u, "total_covered": c.len(), "total_uncovered": u.len()})` -/
def AdeLists.mk' (c u : List Nat) : AdeLists := ⟨c, u, c.length, u.length⟩

inductive AdeRecord where
  /-- `{"language","file":{"name"},"method":{"name",lists}}` -/
  | method (file : Name) (name : Name) (m : AdeLists)
  /-- `{"language","is_file":true,"file":{"name",lists},"method":{lists of the orphan lines}}` -/
  | file (file : Name) (f : AdeLists) (orphan : AdeLists)
deriving DecidableEq, Repr

/-- `for line in … { orphan.remove(line) }` on a `BTreeSet` held as a duplicate-free list -/
def removeAll (orphan : List Nat) (ls : List Nat) : List Nat :=
  ls.foldl (fun o l => o.erase l) orphan

structure AdeState where
  recs : List AdeRecord
  orphanCovered : List Nat
  orphanUncovered : List Nat
deriving Repr

/-- one iteration of `for (name, function) in &result.functions` -/
def adeStep (file : Name) (c : Cov) (covered uncovered : List Nat) (st : AdeState)
    (nf : Name × Fn) : AdeState :=
  let lc := covered.filter (inFn c nf.2)
  let lu := uncovered.filter (inFn c nf.2)
  { recs := st.recs ++ [.method file nf.1 (.mk' lc lu)]
    orphanCovered := removeAll st.orphanCovered lc
    orphanUncovered := removeAll st.orphanUncovered lu }

def adeLoop (file : Name) (c : Cov) : AdeState :=
  let covered := adeCovered c.lines
  let uncovered := adeUncovered c.lines
  c.functions.foldl (adeStep file c covered uncovered) ⟨[], covered, uncovered⟩

/-- the records written for one `(_, rel_path, result)`: one per function, then the file record -/
def adeRecords (r : Name × Cov) : List AdeRecord :=
  let st := adeLoop r.1 r.2
  st.recs ++ [.file r.1 (.mk' (adeCovered r.2.lines) (adeUncovered r.2.lines))
                        (.mk' st.orphanCovered st.orphanUncovered)]

def adeDoc (rs : List (Name × Cov)) : List AdeRecord := rs.flatMap adeRecords

def ade (rs : List (Name × Cov)) : Run (List AdeRecord) :=
  if lastPlusOnePanics rs then .panic "output.rs:97 last + 1" else .ok (adeDoc rs)

/-- is line `x` claimed by some function of the file -/
def claimed (c : Cov) (x : Nat) : Bool := c.functions.any fun nf => inFn c nf.2 x

/-! ### independent reader of the ade records -/

def AdeRecord.fileName : AdeRecord → Name
  | .method f _ _ => f
  | .file f _ _ => f

/-- the file-level records: (file, covered, uncovered) -/
def decodeAdeFiles (rs : List AdeRecord) : List (Name × List Nat × List Nat) :=
  rs.filterMap fun
    | .file f l _ => some (f, l.covered, l.uncovered)
    | .method .. => none

/-- the function records: (file, function name) -/
def decodeAdeFns (rs : List AdeRecord) : List (Name × Name) :=
  rs.filterMap fun
    | .method f n _ => some (f, n)
    | .file .. => none

/-! ## an independent reader of the element tree (back to the `Coverage` value) -/

def lookupAttr (as : List (String × AttrV)) (k : String) : Option AttrV :=
  (as.find? fun a => a.1 == k).map (·.2)

def natAttr (as : List (String × AttrV)) (k : String) : Option Nat :=
  match lookupAttr as k with
  | some (.nat n) => some n
  | _ => none

def bytesAttr (as : List (String × AttrV)) (k : String) : Option Name :=
  match lookupAttr as k with
  | some (.bytes v) => some v
  | _ => none

def condOfXml : Xml → Option Bool
  | .elem t as [] =>
    if t = "condition" then
      match natAttr as "coverage" with
      | some 1 => some true
      | some 0 => some false
      | _ => none
    else none
  | _ => none

def lineOfXml : Xml → Option CLine
  | .elem t as [] =>
    if t = "line" then do pure (.plain (← natAttr as "number") (← natAttr as "hits")) else none
  | .elem t as [.elem t' _ cs] =>
    if t = "line" ∧ t' = "conditions" then do
      pure (.branch (← natAttr as "number") (← natAttr as "hits") (← cs.mapM condOfXml))
    else none
  | _ => none

def linesOfXml : Xml → Option (List CLine)
  | .elem t _ ls => if t = "lines" then ls.mapM lineOfXml else none
  | _ => none

def methodOfXml : Xml → Option CMethod
  | .elem t as [ls] =>
    if t = "method" then do pure ⟨← bytesAttr as "name", ← linesOfXml ls⟩ else none
  | _ => none

def classOfXml : Xml → Option DocClass
  | .elem t as [.elem t' _ ms, ls] =>
    if t = "class" ∧ t' = "methods" then do
      pure { name := ← bytesAttr as "name", filename := ← bytesAttr as "filename",
             methods := ← ms.mapM methodOfXml, lines := ← linesOfXml ls }
    else none
  | _ => none

def packageOfXml : Xml → Option DocPackage
  | .elem t as [.elem t' _ ks] =>
    if t = "package" ∧ t' = "classes" then do
      pure { name := ← bytesAttr as "name", classes := ← ks.mapM classOfXml }
    else none
  | _ => none

def sourceOfXml : Xml → Option Name
  | .elem t _ [.text p] => if t = "source" then some p else none
  | _ => none

def docOfXml : Xml → Option Doc
  | .elem t _ [.elem t1 _ ss, .elem t2 _ ps] =>
    if t = "coverage" ∧ t1 = "sources" ∧ t2 = "packages" then do
      pure { sources := ← ss.mapM sourceOfXml, packages := ← ps.mapM packageOfXml }
    else none
  | _ => none

end Grcov.Writers.CobAde
