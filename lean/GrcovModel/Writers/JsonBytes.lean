/-
C03 / C18, part JsonBytes — the BYTE layer of the JSON reports (covdir, coveralls, coveralls+,
ActiveData-ETL): what `serde_json::to_writer` / `Value: Display` (compact formatter) emits for the
`Value`s the writers build with `json!`, and a reader of that dialect.

Writer (`jsonSerialize`), byte for byte (serde_json 1.0, `CompactFormatter`):
* `null`, `true`, `false`; integers (`u32`, `u64`, `usize`, `i128`) in decimal by `itoa`, `-` for
  negatives; floats (`f32`/`f64`) by `ryu` – NOT modelled: a float is an opaque pre-rendered token
  (`Json.tok`) passed in by the harness (C13's subject); a non-finite float is `null`;
* strings: `"` + `Grcov.Escape.jsonStr` + `"` (`\" \\ \b \t \n \f \r`, `\u00XX` for the other bytes
  below 32, every other byte copied);
* arrays `[a,b]`, objects `{"k":v,…}` without any white space;
* object keys in the order of serde_json's `Map`: /repo does not enable `preserve_order`, so the
  map is a `BTreeMap<String, Value>`: keys ascending by bytes, a repeated `insert` replaces
  (`mkObj`).
Reader (`jsonParse`): the same dialect (no white space); strings by `Grcov.Escape.scanJson`
(`\uXXXX` of non-surrogates resolved to UTF-8, other bytes ≥ 32 copied, raw control bytes
rejected), numbers as the maximal run of `0-9 - + . e E`: an integer literal becomes `int`,
anything else `tok`; objects keep their fields in document order (duplicates are kept: a checker
on top can reject them).
Documents: `covdirJson` (from `Docs.Tree`, figures recomputed from the coverage arrays the way
`set_stats` does: ALL files and sub-directories of the vectors, `coveragePercent` from `fill`),
`coverallsJson`, `adeJson`.
Core Lean only: linked into the native driver `gmodel`.
-/
import GrcovModel.Writers.Docs
import GrcovModel.Writers.CobBytes
import GrcovModel.Escape
namespace Grcov.Writers.JsonBytes
open Grcov AList Grcov.Escape Grcov.Writers Grcov.Writers.Docs
open Grcov.Writers.CobBytes (decBytes decVal? strBytes)

inductive Json where
  | null
  | bool (b : Bool)
  | int (i : Int)
  /-- a pre-rendered float -/
  | tok (t : Bytes)
  | str (s : Bytes)
  | arr (xs : List Json)
  | obj (fs : List (Bytes × Json))
deriving Repr

/-! ## writer -/

def serInt (i : Int) : Bytes := if i < 0 then 45 :: decBytes i.natAbs else decBytes i.natAbs

def serStr (s : Bytes) : Bytes := 34 :: jsonStr s ++ [34]

mutual
def ser : Json → Bytes
  | .null => [110, 117, 108, 108]
  | .bool true => [116, 114, 117, 101]
  | .bool false => [102, 97, 108, 115, 101]
  | .int i => serInt i
  | .tok t => t
  | .str s => serStr s
  | .arr [] => [91, 93]
  | .arr (x :: xs) => 91 :: ser x ++ serTail xs
  | .obj [] => [123, 125]
  | .obj (kv :: fs) => 123 :: serStr kv.1 ++ 58 :: ser kv.2 ++ serFields fs
/-- the rest of an array after an element: `,x` … `]` -/
def serTail : List Json → Bytes
  | [] => [93]
  | x :: xs => 44 :: ser x ++ serTail xs
/-- the rest of an object after a field: `,"k":v` … `}` -/
def serFields : List (Bytes × Json) → Bytes
  | [] => [125]
  | kv :: fs => 44 :: serStr kv.1 ++ 58 :: ser kv.2 ++ serFields fs
end

def jsonSerialize (j : Json) : Bytes := ser j

/-! ## reader -/

def isNumChar (b : Nat) : Bool :=
  (48 ≤ b && b ≤ 57) || b == 45 || b == 43 || b == 46 || b == 101 || b == 69

def isDigitB (b : Nat) : Bool := 48 ≤ b && b ≤ 57

/-- the value of a number token: an integer literal (`-`? digits) is an `int`, the rest a float -/
def numOfTok (t : Bytes) : Json :=
  match t with
  | 45 :: ds =>
    if ds ≠ [] ∧ ds.all isDigitB then
      match decVal? ds with
      | some n => .int (-(n : Int))
      | none => .tok t
    else .tok t
  | ds =>
    if ds ≠ [] ∧ ds.all isDigitB then
      match decVal? ds with
      | some n => .int n
      | none => .tok t
    else .tok t

mutual
def parseVal : Nat → Bytes → Option (Json × Bytes)
  | 0, _ => none
  | _ + 1, [] => none
  | f + 1, b :: r =>
    if isDigitB b || b == 45 then
      some (numOfTok ((b :: r).takeWhile isNumChar), (b :: r).dropWhile isNumChar)
    else if b = 34 then
      match scanJson [] r with
      | some (s, r1) => some (.str s, r1)
      | none => none
    else if b = 91 then
      match r with
      | 93 :: r1 => some (.arr [], r1)
      | _ =>
        match parseVal f r with
        | some (x, r1) =>
          match parseTail f r1 with
          | some (xs, r2) => some (.arr (x :: xs), r2)
          | none => none
        | none => none
    else if b = 123 then
      match r with
      | 125 :: r1 => some (.obj [], r1)
      | _ =>
        match parseField f r with
        | some (kv, r1) =>
          match parseFields f r1 with
          | some (fs, r2) => some (.obj (kv :: fs), r2)
          | none => none
        | none => none
    else
      match b :: r with
      | 110 :: 117 :: 108 :: 108 :: r1 => some (.null, r1)
      | 116 :: 114 :: 117 :: 101 :: r1 => some (.bool true, r1)
      | 102 :: 97 :: 108 :: 115 :: 101 :: r1 => some (.bool false, r1)
      | _ => none
/-- after an element of an array -/
def parseTail : Nat → Bytes → Option (List Json × Bytes)
  | 0, _ => none
  | f + 1, bs =>
    match bs with
    | 93 :: r => some ([], r)
    | 44 :: r =>
      match parseVal f r with
      | some (x, r1) =>
        match parseTail f r1 with
        | some (xs, r2) => some (x :: xs, r2)
        | none => none
      | none => none
    | _ => none
/-- `"key":value` -/
def parseField : Nat → Bytes → Option ((Bytes × Json) × Bytes)
  | 0, _ => none
  | f + 1, bs =>
    match bs with
    | 34 :: r =>
      match scanJson [] r with
      | some (k, 58 :: r1) =>
        match parseVal f r1 with
        | some (v, r2) => some ((k, v), r2)
        | none => none
      | _ => none
    | _ => none
/-- after a field of an object -/
def parseFields : Nat → Bytes → Option (List (Bytes × Json) × Bytes)
  | 0, _ => none
  | f + 1, bs =>
    match bs with
    | 125 :: r => some ([], r)
    | 44 :: r =>
      match parseField f r with
      | some (kv, r1) =>
        match parseFields f r1 with
        | some (fs, r2) => some (kv :: fs, r2)
        | none => none
      | none => none
    | _ => none
end

/-- a complete document -/
def jsonParse (bs : Bytes) : Option Json :=
  match parseVal (2 * bs.length + 2) bs with
  | some (j, []) => some j
  | _ => none

/-! ## what the round trip needs: float tokens look like floats -/

/-- a float token as `ryu` prints it: number characters only, starts with a digit or `-`, and is
not an integer literal (has a `.` or an exponent) -/
def tokOk (t : Bytes) : Bool :=
  t.all isNumChar && (match t with | b :: _ => isDigitB b || b == 45 | [] => false) &&
    (t.contains 46 || t.contains 101 || t.contains 69)

mutual
def wf : Json → Bool
  | .tok t => tokOk t
  | .arr xs => wfs xs
  | .obj fs => wfFields fs
  | _ => true
def wfs : List Json → Bool
  | [] => true
  | x :: xs => wf x && wfs xs
def wfFields : List (Bytes × Json) → Bool
  | [] => true
  | kv :: fs => wf kv.2 && wfFields fs
end

/-! ## shape: what does not depend on names and figures -/

mutual
/-- number of objects of a document -/
def countObjs : Json → Nat
  | .arr xs => countObjsL xs
  | .obj fs => 1 + countObjsF fs
  | _ => 0
def countObjsL : List Json → Nat
  | [] => 0
  | x :: xs => countObjs x + countObjsL xs
def countObjsF : List (Bytes × Json) → Nat
  | [] => 0
  | kv :: fs => countObjs kv.2 + countObjsF fs
end

mutual
/-- number of keys of a document -/
def countKeys : Json → Nat
  | .arr xs => countKeysL xs
  | .obj fs => countKeysF fs
  | _ => 0
def countKeysL : List Json → Nat
  | [] => 0
  | x :: xs => countKeys x + countKeysL xs
def countKeysF : List (Bytes × Json) → Nat
  | [] => 0
  | kv :: fs => 1 + countKeys kv.2 + countKeysF fs
end

/-! ## `serde_json::Map` (a `BTreeMap<String, Value>`) -/

def bLt : Bytes → Bytes → Bool
  | [], [] => false
  | [], _ :: _ => true
  | _ :: _, [] => false
  | a :: as, b :: bs => if a < b then true else if b < a then false else bLt as bs

/-- `Map::insert` into the key-ordered list: a new key at its place, an existing key replaced -/
def mapInsert (m : List (Bytes × Json)) (k : Bytes) (v : Json) : List (Bytes × Json) :=
  match m with
  | [] => [(k, v)]
  | (k', v') :: rest =>
    if k = k' then (k, v) :: rest
    else if bLt k k' then (k, v) :: (k', v') :: rest
    else (k', v') :: mapInsert rest k v

/-- `json!({ … })` / repeated `insert`: the object with these fields -/
def mkObj (fields : List (Bytes × Json)) : Json :=
  .obj (fields.foldl (fun m kv => mapInsert m kv.1 kv.2) [])

def key (s : String) : Bytes := strBytes s
def nat (n : Nat) : Json := .int n

/-! ## coveralls (output.rs 417-513) -/

structure CvTop where
  git : Json
  parallel : Bool
  repoToken : Option Bytes
  serviceName : Option Bytes
  serviceNumber : Bytes
  serviceJobId : Option Bytes
  servicePullRequest : Bytes
  flagName : Option Bytes

def optField (k : String) (v : Option Bytes) : List (Bytes × Json) :=
  match v with
  | some s => [(key k, .str s)]
  | none => []

def cvFnJson (f : CvFn) : Json :=
  mkObj [(key "name", .str f.name), (key "start", nat f.start), (key "exec", .bool f.exec)]

def covEntryJson : Option Nat → Json
  | some n => nat n
  | none => .null

def cvFileJson (digest : Bytes) (f : CvFile) : Json :=
  mkObj ([(key "name", .str f.name), (key "source_digest", .str digest),
          (key "coverage", .arr (f.coverage.map covEntryJson)),
          (key "branches", .arr (f.branches.map nat))] ++
         (match f.functions with
          | some fs => [(key "functions", .arr (fs.map cvFnJson))]
          | none => []))

def zipDigests (digests : List Bytes) (d : List CvFile) : List Json :=
  match d, digests with
  | f :: d', g :: gs => cvFileJson g f :: zipDigests gs d'
  | f :: d', [] => cvFileJson [] f :: zipDigests [] d'
  | [], _ => []

def coverallsJson (top : CvTop) (digests : List Bytes) (d : List CvFile) : Json :=
  mkObj ([(key "git", top.git), (key "source_files", .arr (zipDigests digests d)),
          (key "service_number", .str top.serviceNumber),
          (key "service_pull_request", .str top.servicePullRequest),
          (key "parallel", .bool top.parallel)] ++
         optField "repo_token" top.repoToken ++ optField "service_name" top.serviceName ++
         optField "flag_name" top.flagName ++ optField "service_job_id" top.serviceJobId)

/-! ## covdir (covdir.rs `to_json`, `into_json`) -/

structure CdFig where
  total : Nat
  covered : Nat
deriving DecidableEq, Repr

def arrFig (a : List Int) : CdFig := ⟨a.countP (fun x => decide (x ≠ -1)), a.countP (fun x => decide (0 < x))⟩
def CdFig.add (a b : CdFig) : CdFig := ⟨a.total + b.total, a.covered + b.covered⟩

def filesFig (fs : List (Name × List Int)) : CdFig := fs.foldl (fun a f => a.add (arrFig f.2)) ⟨0, 0⟩

mutual
/-- `set_stats`: all files of the vector, then all sub-directories -/
def treeFig : Docs.Tree → CdFig
  | .mk _ fs ds => (filesFig fs).add (treesFig ds)
def treesFig : List Docs.Tree → CdFig
  | [] => ⟨0, 0⟩
  | t :: ts => (treeFig t).add (treesFig ts)
end

/-- the printed `coveragePercent` of the node at a path (names from the top node) -/
abbrev Fill := List Name → Bytes

def figFields (fill : Fill) (path : List Name) (name : Name) (g : CdFig) : List (Bytes × Json) :=
  [(key "name", .str name), (key "linesTotal", nat g.total), (key "linesCovered", nat g.covered),
   (key "linesMissed", nat (g.total - g.covered)), (key "coveragePercent", .tok (fill path))]

def fileJson (fill : Fill) (path : List Name) (f : Name × List Int) : Json :=
  mkObj (figFields fill (path ++ [f.1]) f.1 (arrFig f.2) ++ [(key "coverage", .arr (f.2.map .int))])

mutual
def treeJson (fill : Fill) (path : List Name) : Docs.Tree → Json
  | .mk n fs ds =>
    mkObj (figFields fill path n ((filesFig fs).add (treesFig ds)) ++
      [(key "children", mkObj (fs.map (fun f => (f.1, fileJson fill path f)) ++ dirsJson fill path ds))])
/-- the `children.insert(dir.name, dir.into_json())` of the sub-directories, in vector order -/
def dirsJson (fill : Fill) (path : List Name) : List Docs.Tree → List (Bytes × Json)
  | [] => []
  | t :: ts => (t.name, treeJson fill (path ++ [t.name]) t) :: dirsJson fill path ts
end

def covdirJson (fill : Fill) (t : Docs.Tree) : Json := treeJson fill [] t

/-! ## ActiveData-ETL (output.rs 74-182): one document per line -/

def adeLists (pct : Json) (l : CobAde.AdeLists) : List (Bytes × Json) :=
  [(key "covered", .arr (l.covered.map nat)), (key "uncovered", .arr (l.uncovered.map nat)),
   (key "total_covered", nat l.totalCovered), (key "total_uncovered", nat l.totalUncovered),
   (key "percentage_covered", pct)]

/-- `pcts`: the printed `percentage_covered` values of the record, in document order -/
def adeRecordJson (pcts : List Json) (r : CobAde.AdeRecord) : Json :=
  match r with
  | .method file name m =>
    mkObj [(key "language", .str (key "c/c++")), (key "file", mkObj [(key "name", .str file)]),
           (key "method", mkObj ((key "name", .str name) :: adeLists (pcts.getD 0 .null) m))]
  | .file file f orphan =>
    mkObj [(key "language", .str (key "c/c++")), (key "is_file", .bool true),
           (key "file", mkObj ((key "name", .str file) :: adeLists (pcts.getD 0 .null) f)),
           (key "method", mkObj (adeLists (pcts.getD 1 .null) orphan))]

def adeSlots : CobAde.AdeRecord → Nat
  | .method .. => 1
  | .file .. => 2

/-- the lines of the report: each record serialised, then `\n` -/
def adeBytes : List Json → List CobAde.AdeRecord → Bytes
  | _, [] => []
  | pcts, r :: rs => ser (adeRecordJson (pcts.take (adeSlots r)) r) ++ 10 :: adeBytes (pcts.drop (adeSlots r)) rs

/-! ## reading a Coveralls document back (on the value tree) -/

def objGet (j : Json) (k : Bytes) : Option Json :=
  match j with
  | .obj fs => AList.get? fs k
  | _ => none

def asStr : Json → Option Bytes
  | .str s => some s
  | _ => none
def asNat : Json → Option Nat
  | .int i => if 0 ≤ i then some i.toNat else none
  | _ => none
def asBool : Json → Option Bool
  | .bool b => some b
  | _ => none
def asArr : Json → Option (List Json)
  | .arr xs => some xs
  | _ => none
def decCovEntry : Json → Option (Option Nat)
  | .null => some none
  | .int i => if 0 ≤ i then some (some i.toNat) else none
  | _ => none

def decFn (j : Json) : Option CvFn :=
  match (objGet j (key "name")).bind asStr, (objGet j (key "start")).bind asNat, (objGet j (key "exec")).bind asBool with
  | some n, some s, some e => some ⟨n, s, e⟩
  | _, _, _ => none

def decFile (j : Json) : Option CvFile :=
  match (objGet j (key "name")).bind asStr, ((objGet j (key "coverage")).bind asArr).bind (·.mapM decCovEntry),
        ((objGet j (key "branches")).bind asArr).bind (·.mapM asNat) with
  | some n, some c, some b =>
    match objGet j (key "functions") with
    | none => some ⟨n, c, b, none⟩
    | some a => ((asArr a).bind (·.mapM decFn)).map fun fs => ⟨n, c, b, some fs⟩
  | _, _, _ => none

def decodeCoverallsJson (j : Json) : Option (List CvFile) :=
  ((objGet j (key "source_files")).bind asArr).bind (·.mapM decFile)

end Grcov.Writers.JsonBytes
