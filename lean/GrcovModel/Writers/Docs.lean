/-
Docs — the *document structure* of the Coveralls(+), covdir, files, Markdown and HTML writers
(C03): which file ends up where in the document, with which lines / branches / functions.
Followed program point by program point from

* src/output.rs `output_coveralls` (417-513): per result one `source_files[]` object, in the order
  of the results: `name` = rel path, `coverage` = for line in 1..end (end = last key + 1 as u32:
  the `+ 1` overflows at 2^32-1: panic with overflow checks, `end = 0` without), `branches` = the
  flat (line, 0, n, taken) quadruples, and for coveralls+ `functions` = [{name,start,exec}] in the
  order the table is given: the writer walks `sorted_functions` (name order, 73c9152) and prints
  demangled names – `Writers/FnOrder.lean` (`FnOrder.coveralls dm`) applies this model to the listed record. `source_digest` is md5 of the file content or a random
  UUID, `git`/`repo_token`/`service_*` are parameters passed through: not modelled (opaque).
  The demangler is the parameter `dm` of `Writers/FnOrder.lean`.
* src/output.rs `output_covdir` (184-239) + src/covdir.rs: every result is filed under the
  directory chain of `path` = rel path if relative, else abs path. `relative` maps a directory
  path (compared *component-wise*, `PathBuf: Eq`) to its node; missing ancestors are created from
  the root downwards, named by `file_name()` (or "/" for the root directory: both `unwrap`s panic
  on `.`/`..` components), the file is pushed to the `files` of the last one.
  `CDDirStats::into_json` then inserts the files and after them the directories of a node into ONE
  `serde_json::Map` keyed by name: a later insert REPLACES an earlier one, so of two files with the
  same name the last survives, and a directory replaces a file of the same name.
  The functional tree `Tree` below is that node structure; `Tree.child` is what the JSON object of
  a node carries under a key. (Directories of one node have distinct names because they are created
  through the `relative` map, so "first directory with that name" = "the directory with that name".)
  `CDFileStats::get_coverage`: `lines[(line - 1) as usize]`: line 0 underflows (panic with overflow
  checks; skipped without).
* src/output.rs `output_files` (515-520): one rel path per line.
* src/output.rs `output_markdown` (621-694): `format_lines` (with its `start == 0` sentinel),
  `format_pair`, one table row per result: file, covered / total, missed ranges. Percentages are
  C13's (`Stats`), not repeated here.
* src/html.rs `gen_html`, `get_dirs_result`, `add_html_ext`, `gen_index`, `gen_dir_index`:
  a result gets a page iff its rel path is relative and its source can be opened; the page is
  written to `output.join(add_html_ext(rel))`, rows = one per source line (`htmlCounts`); the
  global stats map `dirs` is keyed by the parent *string* of the rel path, its `files` by file name
  (both BTreeMaps: set semantics); `gen_index` lists the keys of `dirs`, `gen_dir_index` the keys
  of `files`.

Lists of (key, value) pairs stand for the maps in their iteration order (`BTreeMap`: ascending
keys; the function table: in listing order, see `Writers/FnOrder.lean`).
`none` is "the writer panics". Core Lean only.
-/
import GrcovModel.Writers
import GrcovModel.UPath
import GrcovModel.Lcov
namespace Grcov.Writers.Docs
open Grcov AList Grcov.Writers Grcov.UPath

abbrev Path := List Nat

/-- one `ResultTuple` -/
structure Res where
  abs : Path
  rel : Path
  cov : Cov
deriving DecidableEq, Repr

/-! ## Coveralls -/

structure CvFn where
  name : Name
  start : Nat
  exec : Bool
deriving DecidableEq, Repr

/-- one element of `source_files` (without `source_digest`) -/
structure CvFile where
  name : Path
  coverage : List (Option Nat)
  branches : List Nat
  functions : Option (List CvFn)
deriving DecidableEq, Repr

/-- output.rs 450-455: the quadruples of one branch vector, slots numbered from `n` -/
def slotQuads (l : Nat) : Nat → List Bool → List Nat
  | _, [] => []
  | n, t :: v => l :: 0 :: n :: (if t then 1 else 0) :: slotQuads l (n + 1) v

def quads (bs : List (Nat × List Bool)) : List Nat := bs.flatMap fun lv => slotQuads lv.1 0 lv.2

/-- output.rs 436: `let end: u32 = last + 1`; `oc` = overflow checks on -/
def cvEnd (oc : Bool) (lines : List (Nat × Nat)) : Option Nat :=
  if lastKey lines + 1 ≤ U32MAX then some (lastKey lines + 1)
  else if oc then none else some 0

/-- output.rs 438-446: `for line in 1..end` -/
def cvCoverage (e : Nat) (lines : List (Nat × Nat)) : List (Option Nat) :=
  (List.range (e - 1)).map fun i => get? lines (i + 1)

def cvFns (fs : List (Name × Fn)) : List CvFn := fs.map fun nf => ⟨nf.1, nf.2.start, nf.2.executed⟩

def cvFile (oc plus : Bool) (r : Res) : Option CvFile :=
  (cvEnd oc r.cov.lines).map fun e =>
    { name := r.rel
      coverage := cvCoverage e r.cov.lines
      branches := quads r.cov.branches
      functions := if plus then some (cvFns r.cov.functions) else none }

/-- the `source_files` array: one object per result, in the order given -/
def coverallsDoc (oc plus : Bool) (rs : List Res) : Option (List CvFile) := rs.mapM (cvFile oc plus)

/-! independent reading of a Coveralls document -/

/-- coverage array → (line, count) list: position `i` (from 0) of an array read from `k` is line `k+i` -/
def decodeFrom : Nat → List (Option Nat) → List (Nat × Nat)
  | _, [] => []
  | k, none :: t => decodeFrom (k + 1) t
  | k, some c :: t => (k, c) :: decodeFrom (k + 1) t

/-- flat array → (line, branch number, taken) records; `none` unless it is a list of quadruples
with block 0 and taken ∈ {0,1} -/
def unquads : List Nat → Option (List (Nat × Nat × Bool))
  | [] => some []
  | l :: b :: n :: t :: rest =>
    if b = 0 ∧ t ≤ 1 then (unquads rest).map fun rs => (l, n, decide (t = 1)) :: rs else none
  | _ => none

def uncvFns (fs : List CvFn) : List (Name × Fn) := fs.map fun f => (f.name, ⟨f.start, f.exec⟩)

/-! ## covdir -/

/-- the name a directory node gets (output.rs 213-217); `none` = `file_name().unwrap()` panics -/
def compName : Comp → Option Name
  | .root => some [47]
  | .normal n => some n
  | _ => none

/-- output.rs 191-195 -/
def cdPath (r : Res) : Path := if isRelative r.rel then r.rel else r.abs

/-- where a path is filed: the names of its directory chain from the top node, and its file name.
`none` = one of `parent().unwrap()` (no components / only the root), `file_name().unwrap()` (last
component is `.` or `..`; a directory component is `.` or `..`) panics. -/
def cdPlace (p : Path) : Option (List Name × Name) :=
  match (components p).reverse with
  | .normal f :: revDirs => (revDirs.reverse.mapM compName).map fun ds => (ds, f)
  | _ => none

inductive Tree where
  | mk (name : Name) (files : List (Name × List Int)) (dirs : List Tree)

def Tree.name : Tree → Name | .mk n _ _ => n
def Tree.files : Tree → List (Name × List Int) | .mk _ f _ => f
def Tree.dirs : Tree → List Tree | .mk _ _ d => d

/-- the node of directory `d` among `ds` is replaced by `g` of it; a missing one is created at the
end (output.rs 209-225) -/
def updDir (ds : List Tree) (d : Name) (g : Tree → Tree) : List Tree :=
  match ds with
  | [] => [g (.mk d [] [])]
  | t :: ts => if t.name = d then g t :: ts else t :: updDir ts d g

/-- file `f` pushed to the node reached through the directory names `ds` -/
def Tree.insert : List Name → Name × List Int → Tree → Tree
  | [], f, t => .mk t.name (t.files ++ [f]) t.dirs
  | d :: rest, f, t => .mk t.name t.files (updDir t.dirs d (Tree.insert rest f))

def Tree.root : Tree := .mk [] [] []

/-- placed files → the node structure -/
def build (ps : List ((List Name × Name) × List Int)) : Tree :=
  ps.foldl (fun t p => t.insert p.1.1 (p.1.2, p.2)) Tree.root

/-- one result, placed; `oc` = overflow checks on (`line_num - 1` at line 0) -/
def cdPlaced (oc : Bool) (r : Res) : Option ((List Name × Name) × List Int) :=
  match cdPlace (cdPath r) with
  | none => none
  | some pl => if oc && (get? r.cov.lines 0).isSome then none else some (pl, covdirArray r.cov.lines)

def covdirTree (oc : Bool) (rs : List Res) : Option Tree := (rs.mapM (cdPlaced oc)).map build

/-! the JSON document of a node: `children` is ONE map, files inserted first, then directories -/

inductive Node where
  | file (coverage : List Int)
  | dir (t : Tree)

/-- the last file of that name (later `Map::insert`s replace earlier ones) -/
def lastFile (fs : List (Name × List Int)) (n : Name) : Option (List Int) := get? fs.reverse n

/-- what `children[n]` is in the JSON object of node `t` -/
def Tree.child (t : Tree) (n : Name) : Option Node :=
  match t.dirs.find? (fun d => d.name = n) with
  | some d => some (.dir d)
  | none => (lastFile t.files n).map .file

/-- follow the names from a node through `children` -/
def Tree.lookup : List Name → Tree → Option Node
  | [], t => some (.dir t)
  | n :: rest, t =>
    match t.child n with
    | some (.dir d) => Tree.lookup rest d
    | some (.file a) => if rest = [] then some (.file a) else none
    | none => none

/-- what is found: `some (some a)` a file leaf with coverage `a`, `some none` a directory -/
def Node.kind : Node → Option (List Int)
  | .file a => some a
  | .dir _ => none

def Tree.lookupK (q : List Name) (t : Tree) : Option (Option (List Int)) := (t.lookup q).map Node.kind

/-- the keys of `children` -/
def Tree.childNames (t : Tree) : List Name := t.files.map (·.1) ++ t.dirs.map Tree.name

/-! ## files -/

/-- output.rs 515-520: `writeln!("{}", rel_path.display())` -/
def filesBytes (rs : List Res) : List Nat := rs.flatMap fun r => r.rel ++ [10]

/-- an independent line reader: the segments ended by '\n' (a trailing unterminated one is kept) -/
def splitLines : List Nat → List (List Nat)
  | [] => []
  | b :: bs =>
    if b = 10 then [] :: splitLines bs
    else match splitLines bs with
      | [] => [[b]]
      | l :: ls => (b :: l) :: ls

/-! ## Markdown -/

structure MdState where
  totalMissed : Nat
  missed : List (Nat × Nat)
  start : Nat
  stop : Nat
deriving DecidableEq, Repr

/-- one iteration of the loop of `format_lines` (output.rs 643-654) -/
def mdStep (st : MdState) (lh : Nat × Nat) : MdState :=
  if lh.2 = 0 then
    { st with totalMissed := st.totalMissed + 1
              start := if st.start = 0 then lh.1 else st.start
              stop := lh.1 }
  else if st.start ≠ 0 then
    { st with missed := st.missed ++ [(st.start, st.stop)], start := 0 }
  else st

/-- `format_lines`: number of missed lines and the (start, end) pairs given to `format_pair` -/
def formatLines (lines : List (Nat × Nat)) : Nat × List (Nat × Nat) :=
  let st := lines.foldl mdStep ⟨0, [], 0, 0⟩
  (st.totalMissed, if st.start ≠ 0 then st.missed ++ [(st.start, st.stop)] else st.missed)

/-- `format_pair` + `join(", ")` -/
def fmtPair (r : Nat × Nat) : String := if r.1 = r.2 then toString r.1 else s!"{r.1}-{r.2}"
def fmtRanges (rs : List (Nat × Nat)) : String := ", ".intercalate (rs.map fmtPair)

structure MdRow where
  file : Path
  covered : Nat
  total : Nat
  ranges : List (Nat × Nat)
deriving DecidableEq, Repr

/-- output.rs 673-684; `lines.len() - missed` cannot underflow (`missed ≤ len`) -/
def markdownRow (r : Res) : MdRow :=
  let (missed, ranges) := formatLines r.cov.lines
  { file := r.rel, covered := r.cov.lines.length - missed, total := r.cov.lines.length, ranges }

def markdownRows (rs : List Res) : List MdRow := rs.map markdownRow

/-- the structural form of `format_lines` when no line is 0: `cur` is the open range -/
def runs : List (Nat × Nat) → Option (Nat × Nat) → List (Nat × Nat)
  | [], none => []
  | [], some r => [r]
  | (l, h) :: t, cur =>
    if h = 0 then runs t (some (match cur with | none => (l, l) | some (s, _) => (s, l)))
    else match cur with
      | none => runs t none
      | some r => r :: runs t none

/-! ## HTML -/

/-- `Path::file_name` -/
def fileNameOf (p : Path) : Option Name :=
  match (components p).reverse with
  | .normal f :: _ => some f
  | _ => none

/-- `Path::extension` is `Some`: there is a '.' that is not the first byte of the name -/
def hasExt (n : Name) : Bool := n.tail.contains 46

def dotHtml : Name := [46, 104, 116, 109, 108]

/-- `add_html_ext` on the file name (html.rs 204-212, after the fix /repo b1b2416):
* `extension()` is `Some(e)` (`e` may be empty, as in "a."): `with_extension(e + ".html")` =
  stem + "." + e + ".html" ("f.rs" ↦ "f.rs.html", "a." ↦ "a..html");
* `None` ("f", ".hidden"): `with_extension("html")` = name + "." + "html" ("f" ↦ "f.html";
  before the fix the argument was ".html" and the page went to "f..html", where no index linked).
Either way ".html" is appended to the whole name (`htmlDestName_eq`). -/
def htmlDestName (n : Name) : Name :=
  if hasExt n then n ++ dotHtml else n ++ 46 :: [104, 116, 109, 108]

/-- the names of the directory chain of a relative path, `.` dropped (`output.join` + the file
system); paths with `..` are C19's subject -/
def normalNames : List Comp → List Name
  | [] => []
  | .normal n :: cs => n :: normalNames cs
  | _ :: cs => normalNames cs

/-- where the page of `rel` is written, as names below the output directory -/
def htmlDest (rel : Path) : Option (List Name) :=
  match (components rel).reverse with
  | .normal f :: revDirs => some (normalNames revDirs.reverse ++ [htmlDestName f])
  | _ => none

structure HtmlEntry where
  dest : List Name
  parent : Path
  fname : Name
  rows : List Int
deriving DecidableEq, Repr

/-- `gen_html` for one result; `src abs` = number of lines of the source, `none` if it cannot be
opened. Outer `none` = no page (absolute rel path / unreadable source); `some none` = a consumer
thread panics (`rel_path.parent().unwrap()` on "", `file_name().unwrap()` on `..`) -/
def htmlEntry (src : Path → Option Nat) (r : Res) : Option (Option HtmlEntry) :=
  if !isRelative r.rel then none
  else match src r.abs with
    | none => none
    | some n =>
      some (match UPath.parent r.rel, fileNameOf r.rel, htmlDest r.rel with
        | some par, some f, some d => some ⟨d, par, f, htmlCounts r.cov.lines n⟩
        | _, _, _ => none)

/-- first occurrences -/
def dedup {α : Type} [DecidableEq α] : List α → List α
  | [] => []
  | x :: xs => x :: (dedup xs).filter (· ≠ x)

structure HtmlSite where
  /-- page files: destination ↦ rows (a later page written to the same destination replaces) -/
  pages : List (List Name × List Int)
  /-- `global.dirs`: parent string ↦ the keys of its `files` -/
  dirs : List (Path × List Name)

def sitePages (es : List HtmlEntry) : List (List Name × List Int) :=
  es.foldl (fun m e => set m e.dest e.rows) []

def siteDirs (es : List HtmlEntry) : List (Path × List Name) :=
  (dedup (es.map (·.parent))).map fun d => (d, dedup ((es.filter (·.parent = d)).map (·.fname)))

def entriesOf (src : Path → Option Nat) (rs : List Res) : Option (List HtmlEntry) :=
  (rs.filterMap (htmlEntry src)).mapM id

/-- the pages, the rows of every directory index (`gen_dir_index`: keys of `files`) and of the
global index (`gen_index`: keys of `dirs`) -/
def htmlPages (src : Path → Option Nat) (rs : List Res) : Option HtmlSite :=
  (entriesOf src rs).map fun es => ⟨sitePages es, siteDirs es⟩

def HtmlSite.globalIndex (s : HtmlSite) : List Path := s.dirs.map (·.1)
def HtmlSite.dirIndex (s : HtmlSite) (d : Path) : List Name := (get? s.dirs d).getD []

/-- where the index of directory key `d` is written: `output.join(Path::new(d).join("index.html"))` -/
def dirLoc (d : Path) : List Name := normalNames (components d)

/-- the `index.html` files on disk: location ↦ (`none` = the global index with the directory keys
| `some d` = the index of directory `d` with its file names). `gen_index` writes the global index
to the output directory first and then every directory index; the index of the directory key ""
(results at the root) goes to the SAME file `index.html` and replaces it. -/
def HtmlSite.indexFiles (s : HtmlSite) : List (List Name × (Option Path × List Name)) :=
  s.dirs.foldl (fun m df => set m (dirLoc df.1) (some df.1, df.2)) [([], (none, s.globalIndex))]

def indexHtml : Name := [105, 110, 100, 101, 120, 46, 104, 116, 109, 108]
def indexName : Name := [105, 110, 100, 101, 120]

/-- `d` is the location of one of the `index.html` files -/
def HtmlSite.isIndexFile (s : HtmlSite) (d : List Name) : Bool :=
  s.indexFiles.any fun ix => decide (ix.1 ++ [indexHtml] = d)

/-- the page file found at `d` once `output_html` has returned: the pages are written by the
consumer threads first, `gen_index` writes the index files afterwards, so a page whose destination
is `<directory>/index.html` (since the fix b1b2416: the page of a source file named `index`) is
replaced by that directory's index -/
def HtmlSite.pageAt (s : HtmlSite) (d : List Name) : Option (List Int) :=
  if s.isIndexFile d then none else get? s.pages d

def HtmlSite.pageFiles (s : HtmlSite) : List (List Name × List Int) :=
  s.pages.filter fun p => !s.isIndexFile p.1

/-! ## the rows of a file page, for arbitrary source BYTES (html.rs 460-488)

`f.read_to_end(&mut buf)`, `String::from_utf8_lossy(&buf)`, `.lines().enumerate()`: the source is
decoded lossily (every maximal ill-formed byte sequence becomes U+FFFD: `Lcov.utf8Lossy`, nothing is
cut off) and split the way `str::lines` does it: at every `\n`; a `\r` directly before that `\n` is
dropped with it; a last line without `\n` counts (unless it is empty) and keeps everything,
a trailing `\r` included; a lone `\r` does not split. -/

def stripCR (l : List Nat) : List Nat := if l.getLast? = some 13 then l.dropLast else l

/-- `cur`: the bytes of the line being read -/
def linesAux (cur : List Nat) : List Nat → List (List Nat)
  | [] => if cur = [] then [] else [cur]
  | b :: bs => if b = 10 then stripCR cur :: linesAux [] bs else linesAux (cur ++ [b]) bs

/-- `str::lines` -/
def strLines (bs : List Nat) : List (List Nat) := linesAux [] bs

/-- the lines `gen_html` sees -/
def lossyLines (src : List Nat) : List (List Nat) := strLines (Lcov.utf8Lossy src)

structure HtmlRow where
  no : Nat
  count : Int
  text : List Nat
deriving DecidableEq, Repr

def rowsFrom (lines : List (Nat × Nat)) : Nat → List (List Nat) → List HtmlRow
  | _, [] => []
  | k, t :: ts => ⟨k, entry lines k, t⟩ :: rowsFrom lines (k + 1) ts

/-- the `items` of the page: (line number, count or -1, text) for every line of the source -/
def htmlRows (src : List Nat) (lines : List (Nat × Nat)) : List HtmlRow := rowsFrom lines 1 (lossyLines src)

/-- the `src` parameter of `htmlEntry` from the source bytes -/
def srcLineCount (bytes : Path → Option (List Nat)) : Path → Option Nat :=
  fun p => (bytes p).map fun b => (lossyLines b).length

end Grcov.Writers.Docs
