/-
Model of grcov's producer/consumer pipeline (src/main.rs 392-480, src/lib.rs `consumer`,
src/producer.rs send sites) as a transition system.

Threads: one producer (sends every work item, then exits), `n` consumers (recv → parse →
lock the result map → write the batch entry by entry → unlock, exit on a stop marker), the main thread (join producer → send `n` stop markers →
join consumers → exit code). The bounded crossbeam channel is a FIFO list of capacity `2n` whose
contract is a parameter of the model: `send` blocks iff full, fails iff no receiver handle is
left; `recv` blocks iff empty. Faults are part of the environment: `fate x` says whether
processing item `x` succeeds, is rejected by the parser (logged, skipped), or kills the worker.

`rxMain` says whether `main` keeps its own `Receiver` alive while it waits (it did before the
fix: commit that drops it; with `rxMain = true` a dead set of workers leaves the producer blocked
forever – `Props/C07.lean` proves that witness).
-/
import GrcovModel.Base
namespace Grcov.Pipeline

abbrev Item := Nat

inductive Fate where
  | ok | reject | die
deriving DecidableEq, Repr

/-- a consumer thread: blocked in / about to call `recv` (`idle`, also: not yet in its loop);
parsing item `x` (`holding`); holding the parsed batch of `x` and about to take the result-map
mutex (`batch`); inside `add_results` with the mutex, `j` entries of the batch written
(`merging`); returned after a stop marker (`exited`); panicked (`dead`) -/
inductive W where
  | idle | holding (x : Item) | batch (x : Item) | merging (x : Item) (j : Nat) | exited | dead
deriving DecidableEq, Repr

inductive MainPc where
  | joinProd
  | stops (k : Nat)          -- k stop markers sent so far
  | joinWorkers (i : Nat)    -- workers 0..i-1 joined
  | done (code : Nat)
deriving DecidableEq, Repr

structure State where
  n : Nat
  rxMain : Bool
  todo : List Item
  prodDone : Bool := false
  prodDead : Bool := false
  queue : List (Option Item) := []
  workers : List W
  mainPc : MainPc := .joinProd
  /-- items whose worker ACQUIRED the result-map mutex, in the order of the acquisitions (an item is
  listed before its first entry is written; what has been written is `log`. Unless a worker dies
  inside `add_results` the two agree: `C02_merged_written_unless_poisoned`) -/
  merged : List Item := []
  rejected : List Item := []
  lost : List Item := []
  /-- the worker inside `add_results` (holder of the `Mutex<CovResultMap>`) -/
  owner : Option Nat := none
  /-- a worker panicked while it held the mutex: every later `lock().unwrap()` panics -/
  poisoned : Bool := false
  /-- the writes to the result map in the order they happened: (item, index in its batch) -/
  log : List (Item × Nat) := []
deriving DecidableEq, Repr

def init (n : Nat) (rxMain : Bool) (items : List Item) : State :=
  { n := n, rxMain := rxMain, todo := items, workers := List.replicate n .idle }

/-- `prodDies` and `workerDies` are faults the environment may inject at any time: a panic of the
producer thread that is not a failed send (the "No input files found" assert, an unreadable
path-mapping file, …) and a panic of a consumer thread wherever it is (before its loop –
`fs::create_dir(..).expect(..)` runs in the consumer thread –, in a parser, inside
`add_results`). `parsed w` with `fate x = die` is the special case "the parser of `x` panics". -/
inductive Step where
  | prodSend | prodExit | prodDies
  | recv (w : Nat) | parsed (w : Nat) | lock (w : Nat) | mergeEntry (w : Nat) | unlock (w : Nat)
  | workerDies (w : Nat)
  | main
deriving DecidableEq, Repr

def Step.isFault : Step → Bool
  | .prodDies | .workerDies _ => true
  | _ => false

def W.alive : W → Bool
  | .idle | .holding _ | .batch _ | .merging _ _ => true
  | _ => false

def cap (s : State) : Nat := 2 * s.n

/-- some `Receiver` handle still exists -/
def receiversAlive (s : State) : Bool := s.rxMain || s.workers.any W.alive

def terminal (s : State) : Bool :=
  match s.mainPc with
  | .done _ => true
  | _ => false

/-- `size x` = number of entries of the batch the parser of `x` returns -/
def enabled (size : Item → Nat) (s : State) : Step → Bool
  | .prodSend =>
    !terminal s && !s.prodDone && !s.prodDead && !s.todo.isEmpty &&
      (decide (s.queue.length < cap s) || !receiversAlive s)
  | .prodExit => !terminal s && !s.prodDone && !s.prodDead && s.todo.isEmpty
  | .prodDies => !terminal s && !s.prodDone && !s.prodDead
  | .recv w => !terminal s && s.workers.getD w .exited == .idle && !s.queue.isEmpty
  | .parsed w =>
    !terminal s && (match s.workers.getD w .exited with | .holding _ => true | _ => false)
  | .lock w =>
    !terminal s && s.owner.isNone && (match s.workers.getD w .exited with | .batch _ => true | _ => false)
  | .mergeEntry w =>
    !terminal s && (match s.workers.getD w .exited with | .merging x j => decide (j < size x) | _ => false)
  | .unlock w =>
    !terminal s && (match s.workers.getD w .exited with | .merging x j => decide (size x ≤ j) | _ => false)
  | .workerDies w => !terminal s && (s.workers.getD w .exited).alive
  | .main =>
    match s.mainPc with
    | .joinProd => s.prodDone || s.prodDead
    | .stops k => decide (k ≥ s.n) || decide (s.queue.length < cap s) || !receiversAlive s
    | .joinWorkers i => decide (i ≥ s.n) || !(s.workers.getD i .exited).alive
    | .done _ => false

def step (fate : Item → Fate) (s : State) : Step → State
  | .prodSend =>
    match s.todo with
    | [] => s
    | x :: rest =>
      if receiversAlive s then { s with todo := rest, queue := s.queue ++ [some x] }
      else { s with prodDead := true }      -- `send(..).unwrap()` panics in the producer thread
  | .prodExit => { s with prodDone := true }
  | .prodDies => { s with prodDead := true }
  | .recv w =>
    match s.queue with
    | [] => s
    | some x :: q => { s with queue := q, workers := s.workers.set w (.holding x) }
    | none :: q => { s with queue := q, workers := s.workers.set w .exited }
  | .parsed w =>
    match s.workers.getD w .exited with
    | .holding x =>
      match fate x with
      | .ok => { s with workers := s.workers.set w (.batch x) }
      | .reject => { s with workers := s.workers.set w .idle, rejected := s.rejected ++ [x] }
      | .die => { s with workers := s.workers.set w .dead, lost := s.lost ++ [x] }
    | _ => s
  | .lock w =>
    match s.workers.getD w .exited with
    | .batch x =>
      if s.poisoned then { s with workers := s.workers.set w .dead, lost := s.lost ++ [x] }
      else { s with workers := s.workers.set w (.merging x 0), owner := some w, merged := s.merged ++ [x] }
    | _ => s
  | .mergeEntry w =>
    match s.workers.getD w .exited with
    | .merging x j => { s with workers := s.workers.set w (.merging x (j + 1)), log := s.log ++ [(x, j)] }
    | _ => s
  | .unlock w =>
    match s.workers.getD w .exited with
    | .merging _ _ => { s with workers := s.workers.set w .idle, owner := none }
    | _ => s
  | .workerDies w =>
    match s.workers.getD w .exited with
    | .idle => { s with workers := s.workers.set w .dead }
    | .holding x => { s with workers := s.workers.set w .dead, lost := s.lost ++ [x] }
    | .batch x => { s with workers := s.workers.set w .dead, lost := s.lost ++ [x] }
    | .merging _ _ => { s with workers := s.workers.set w .dead, owner := none, poisoned := true }
    | _ => s
  | .main =>
    match s.mainPc with
    | .joinProd => if s.prodDead then { s with mainPc := .done 1 } else { s with mainPc := .stops 0 }
    | .stops k =>
      if k ≥ s.n then { s with mainPc := .joinWorkers 0 }
      else if receiversAlive s then { s with mainPc := .stops (k + 1), queue := s.queue ++ [none] }
      else { s with mainPc := .joinWorkers 0 }   -- a failed send means every worker is gone
    | .joinWorkers i =>
      if i ≥ s.n then { s with mainPc := .done 0 }
      else match s.workers.getD i .exited with
        | .dead => { s with mainPc := .done 1 }
        | _ => { s with mainPc := .joinWorkers (i + 1) }
    | .done _ => s

/-- a run: every step enabled in turn -/
inductive Run (fate : Item → Fate) (size : Item → Nat) : State → List Step → State → Prop where
  | nil (s) : Run fate size s [] s
  | cons {s st tr s'} : enabled size s st = true → Run fate size (step fate s st) tr s' →
      Run fate size s (st :: tr) s'

/-- executable replay of a schedule; `none` when some step is not enabled -/
def replay (fate : Item → Fate) (size : Item → Nat) (s : State) : List Step → Option State
  | [] => some s
  | st :: tr => if enabled size s st then replay fate size (step fate s st) tr else none

theorem replay_run {fate : Item → Fate} {size : Item → Nat} {s : State} {tr : List Step} {s' : State}
    (h : replay fate size s tr = some s') : Run fate size s tr s' := by
  induction tr generalizing s with
  | nil => simp [replay] at h; subst h; exact .nil s
  | cons st tr ih =>
    simp only [replay] at h
    split at h
    · rename_i he; exact .cons he (ih h)
    · simp at h

/-- items a worker has taken from the queue and not yet handed to the result map -/
def held (ws : List W) : List Item :=
  ws.filterMap fun w => match w with | .holding x => some x | .batch x => some x | _ => none

def queueItems (s : State) : List Item := s.queue.filterMap id

/-- every place an item can be -/
def everywhere (s : State) : List Item :=
  s.todo ++ queueItems s ++ held s.workers ++ s.merged ++ s.rejected ++ s.lost

/-- all NON-FAULT steps a scheduler may choose from (for the progress statements and the trace
replayer); the fault steps `prodDies` / `workerDies w` are the environment's -/
def allSteps (s : State) : List Step :=
  [.prodSend, .prodExit, .main] ++
    (List.range s.n).flatMap fun w => [.recv w, .parsed w, .lock w, .mergeEntry w, .unlock w]

def stuck (size : Item → Nat) (s : State) : Bool :=
  !terminal s && (allSteps s).all fun st => !enabled size s st

end Grcov.Pipeline
