/-
Regex/Syntax — the pattern language of the `regex` crate (regex 1.11.1 / regex-syntax 0.8.5 /
regex-automata 0.4.8, the versions locked in /repo/Cargo.lock) as far as the six `--excl-*` options
of grcov use it: main.rs 278-297 declares them `Option<Regex>`, so clap parses each value with
`Regex::from_str` = `Regex::new` – DEFAULT flags: Unicode ON (`u`), case sensitive, NOT multi-line
(`^` / `$` are the two ends of the haystack), `.` does not match `\n`, no `x`, no CRLF mode, nest
limit 250, compiled-size limit 10 MiB.

`parseAst` follows regex-syntax-0.8.5/src/ast/parse.rs program point by program point
(`ParserI::parse_with_comments`, `push_group` / `parse_group`, `pop_group`, `push_alternate`,
`pop_group_end`, `parse_uncounted_repetition`, `parse_counted_repetition`, `parse_decimal`,
`parse_primitive`, `parse_escape`, `maybe_parse_special_word_boundary`, `parse_set_class`,
`parse_set_class_open`, `parse_set_class_range`, `parse_set_class_item`), with the explicit group
stack of the crate; `parse` adds `NestLimiter` (`heightIn`) and the size check.

THE SUBSET. Inside the model: literals (any scalar value), `.`; bracketed classes with literals,
ranges, `^` negation, the leading `]` / `-` rules, Perl classes and POSIX classes `[:alpha:]` /
`[:^alpha:]` inside; `\d \s \w \D \S \W` (Unicode: Tables.lean); every single-char escape (`\.`, `\/`,
…, `\a \f \t \n \r \v`) and the hex escapes `\xNN \uNNNN \UNNNNNNNN \x{N…} \u{N…} \U{N…}`; groups `( )`
and `(?: )`; alternation; `? * + {n} {n,} {n,m}` each with an optional lazy `?` (irrelevant for
`is_match`) and with the white space `parse_decimal` skips; every assertion: `^ $ \A \z \b \B \< \>
\b{start} \b{end} \b{start-half} \b{end-half}`.
Every error the crate answers on the way is an error kind here (`RegexErr`, the names of
`ast::ErrorKind`). VALID OR INVALID SYNTAX OUTSIDE THE SUBSET IS NEVER GUESSED: the parser answers
`unsupported` at the first char where it would have to leave the subset – flags `(?i)` `(?i:…)`,
named groups, `\p \P`, a nested class `[a[b]]`, the class operators `&& -- ~~` – and, after a
successful parse, for a pattern whose compiled size MIGHT exceed the 10 MiB limit (`cost`, a deliberately generous upper
estimate of regex-automata's NFA memory: measured per construct on the real crate, doubled, against
less than half the limit). An `unsupported` answer is "no claim"; every other answer is compared with
the real crate by harness/c16/src/regexsyn.rs.
Core Lean only.
-/
import GrcovModel.Regex.Tables
namespace Grcov.Regex

/-- a pattern (a Rust `&str`) as `str::chars()` yields it: Unicode scalar values -/
abbrev Chars := List Nat
abbrev Bytes := List Nat

/-- `regex_syntax::ast::ErrorKind` as far as the subset can meet it, plus `unsupported` (outside the
subset: no claim) and `fuel` (the loop counter of this model ran out: unreachable:
Lemmas/RegexTotal.lean) -/
inductive RegexErr where
  | groupUnclosed                  -- "unclosed group"
  | groupUnopened                  -- "unopened group"
  | unsupportedLookAround          -- "look-around, including look-ahead and look-behind, is not supported"
  | classUnclosed                  -- "unclosed character class"
  | classEscapeInvalid             -- "invalid escape sequence found in character class"
  | classRangeInvalid              -- "invalid character class range, the start must be <= the end"
  | classRangeLiteral              -- "invalid range boundary, must be a literal"
  | repetitionMissing              -- "repetition operator missing expression"
  | repetitionCountUnclosed        -- "unclosed counted repetition"
  | repetitionCountInvalid         -- "invalid repetition count range, the start must be <= the end"
  | repetitionCountDecimalEmpty    -- "repetition quantifier expects a valid decimal"
  | decimalInvalid                 -- "decimal literal invalid"
  | escapeUnexpectedEof            -- "incomplete escape sequence, reached end of pattern prematurely"
  | escapeUnrecognized             -- "unrecognized escape sequence"
  | escapeHexEmpty                 -- "hexadecimal literal empty"
  | escapeHexInvalid               -- "hexadecimal literal is not a Unicode scalar value"
  | escapeHexInvalidDigit          -- "invalid hexadecimal digit"
  | unsupportedBackreference       -- "backreferences are not supported"
  | specialWordBoundaryUnclosed    -- "special word boundary assertion is either unclosed or contains an invalid character"
  | specialWordBoundaryUnrecognized -- "unrecognized special word boundary assertion, valid choices are: start, end, start-half or end-half"
  | specialWordOrRepUnexpectedEof  -- "found either the beginning of a special word boundary or a bounded repetition on a \b with an opening brace, but no closing brace"
  | nestLimitExceeded              -- "exceed the maximum number of nested parentheses/brackets (250)"
  | unsupported
  | fuel
deriving DecidableEq, Repr

inductive PerlKind where
  | digit | space | word
deriving DecidableEq, Repr

/-- `ast::ClassSetItem` in the subset: a literal is the range `c-c` -/
inductive ClassItem where
  | range (lo hi : Nat)
  | perl (k : PerlKind) (neg : Bool)
  | ascii (ranges : List (Nat × Nat)) (neg : Bool)     -- `[:alpha:]` / `[:^alpha:]`: `hir::translate::ascii_class`
deriving DecidableEq, Repr

/-- `hir::Look` in the subset. `^` and `$` are `Start` / `End` because the multi-line flag is off
(hir/translate.rs: `AssertionKind::StartLine` ↦ `Look::Start` unless `m`) -/
inductive Look where
  | startText | endText | wordB | notWordB
  | wordStart | wordEnd | wordStartHalf | wordEndHalf   -- `\b{start}` = `\<`, `\b{end}` = `\>`, `\b{start-half}`, `\b{end-half}`
deriving DecidableEq, Repr

/-- `ast::Ast` in the subset. `Concat` / `Alternation` of n ≥ 2 items are right-nested `cat` /
`alt` (an item of a concatenation is never itself a bare concatenation, nor an alternative a bare
alternation: those only arise inside a `group`); greediness is dropped (`is_match` cannot see it);
capturing and non-capturing groups are both `group`. -/
inductive Ast where
  | empty
  | lit (c : Nat)
  | dot
  | cls (neg : Bool) (items : List ClassItem)
  | perl (k : PerlKind) (neg : Bool)
  | look (l : Look)
  | group (a : Ast)
  | cat (a b : Ast)
  | alt (a b : Ast)
  | rep (lo : Nat) (hi : Option Nat) (a : Ast)
deriving DecidableEq, Repr

/-- equality of parser answers is decidable (for closed examples) -/
instance : DecidableEq (Except RegexErr Ast) := fun x y =>
  match x, y with
  | .ok a, .ok b => if h : a = b then isTrue (by rw [h]) else isFalse (fun e => h (by cases e; rfl))
  | .error a, .error b => if h : a = b then isTrue (by rw [h]) else isFalse (fun e => h (by cases e; rfl))
  | .ok _, .error _ => isFalse (fun e => by cases e)
  | .error _, .ok _ => isFalse (fun e => by cases e)

/-- `Primitive`: what `parse_escape` / `parse_set_class_item` return -/
inductive Prim where
  | lit (c : Nat)
  | look (l : Look)
  | perl (k : PerlKind) (neg : Bool)
deriving DecidableEq, Repr

def Prim.toAst : Prim → Ast
  | .lit c => .lit c
  | .look l => .look l
  | .perl k n => .perl k n

/-! ### character tests -/

/-- `regex_syntax::is_meta_character`: `\ . + * ? ( ) | [ ] { } ^ $ # & - ~` -/
def isMeta (c : Nat) : Bool :=
  c = 92 || c = 46 || c = 43 || c = 42 || c = 63 || c = 40 || c = 41 || c = 124 || c = 91 ||
  c = 93 || c = 123 || c = 125 || c = 94 || c = 36 || c = 35 || c = 38 || c = 45 || c = 126

def isAsciiAlnum (c : Nat) : Bool := (48 ≤ c && c ≤ 57) || (65 ≤ c && c ≤ 90) || (97 ≤ c && c ≤ 122)

/-- `regex_syntax::is_escapeable_character` -/
def isEscapeable (c : Nat) : Bool := isMeta c || (c < 128 && !isAsciiAlnum c && c != 60 && c != 62)

def inTable (t : List (Nat × Nat)) (c : Nat) : Bool := t.any fun r => r.1 ≤ c && c ≤ r.2

/-- `char::is_whitespace` (White_Space): what `parse_decimal` skips around a number -/
def isSpace (c : Nat) : Bool := inTable spaceTable c

def isDigit (c : Nat) : Bool := 48 ≤ c && c ≤ 57

/-- `is_hex` -/
def isHex (c : Nat) : Bool := isDigit c || (97 ≤ c && c ≤ 102) || (65 ≤ c && c ≤ 70)

def hexDigitVal (c : Nat) : Nat := if isDigit c then c - 48 else if 97 ≤ c then c - 87 else c - 55

/-- `u32::from_str_radix(hex, 16)` (as a natural number: too large is "not a scalar value" anyway) -/
def hexValue (ds : Chars) : Nat := ds.foldl (fun n d => n * 16 + hexDigitVal d) 0

/-- a Unicode scalar value (`char::from_u32` succeeds) -/
def isScalar (c : Nat) : Bool := c < 55296 || (57344 ≤ c && c < 1114112)

/-- `is_valid_char` of `maybe_parse_special_word_boundary`: `[-A-Za-z]` -/
def isWbNameChar (c : Nat) : Bool := (65 ≤ c && c ≤ 90) || (97 ≤ c && c ≤ 122) || c = 45

/-! ### escapes (`parse_escape`) -/

/-- `parse_escape` after the backslash, on the char `c`: the one-char escapes -/
def escapePrim (c : Nat) : Except RegexErr Prim :=
  if isDigit c then .error .unsupportedBackreference          -- octal is off: `\0` … `\9`
  else if c = 112 || c = 80 then .error .unsupported             -- \p \P
  else if c = 100 then .ok (.perl .digit false)
  else if c = 68 then .ok (.perl .digit true)
  else if c = 115 then .ok (.perl .space false)
  else if c = 83 then .ok (.perl .space true)
  else if c = 119 then .ok (.perl .word false)
  else if c = 87 then .ok (.perl .word true)
  else if isMeta c then .ok (.lit c)
  else if isEscapeable c then .ok (.lit c)
  else if c = 97 then .ok (.lit 7)                            -- \a
  else if c = 102 then .ok (.lit 12)                          -- \f
  else if c = 116 then .ok (.lit 9)                           -- \t
  else if c = 110 then .ok (.lit 10)                          -- \n
  else if c = 114 then .ok (.lit 13)                          -- \r
  else if c = 118 then .ok (.lit 11)                          -- \v
  else if c = 65 then .ok (.look .startText)                  -- \A
  else if c = 122 then .ok (.look .endText)                   -- \z
  else if c = 66 then .ok (.look .notWordB)                   -- \B
  else if c = 60 then .ok (.look .wordStart)                  -- \<
  else if c = 62 then .ok (.look .wordEnd)                    -- \>
  else .error .escapeUnrecognized

/-- `parse_hex_digits`: exactly `n` hex digits (2 after `\x`, 4 after `\u`, 8 after `\U`) -/
def takeHexN : Nat → Chars → Except RegexErr (Chars × Chars)
  | 0, r => .ok ([], r)
  | _ + 1, [] => .error .escapeUnexpectedEof
  | n + 1, c :: r =>
    if isHex c then
      match takeHexN n r with
      | .ok (ds, r') => .ok (c :: ds, r')
      | .error e => .error e
    else .error .escapeHexInvalidDigit

/-- `parse_hex_brace`, standing right after the `{`: the digits up to the `}` -/
def takeHexBrace : Chars → Except RegexErr (Chars × Chars)
  | [] => .error .escapeUnexpectedEof
  | c :: r =>
    if c = 125 then .ok ([], r)
    else if isHex c then
      match takeHexBrace r with
      | .ok (ds, r') => .ok (c :: ds, r')
      | .error e => .error e
    else .error .escapeHexInvalidDigit

/-- the digits name a scalar value, or `EscapeHexInvalid` -/
def hexLit (ds : Chars) (r : Chars) : Except RegexErr (Prim × Chars) :=
  if isScalar (hexValue ds) then .ok (.lit (hexValue ds), r) else .error .escapeHexInvalid

/-- `parse_hex`, standing right after the `x` / `u` / `U`: `\xNN` `\uNNNN` `\UNNNNNNNN` or `\x{N…}` -/
def parseHex (n : Nat) : Chars → Except RegexErr (Prim × Chars)
  | [] => .error .escapeUnexpectedEof
  | c :: r =>
    if c = 123 then
      match takeHexBrace r with
      | .error e => .error e
      | .ok (ds, r') => if ds.isEmpty then .error .escapeHexEmpty else hexLit ds r'
    else
      match takeHexN n (c :: r) with
      | .error e => .error e
      | .ok (ds, r') => hexLit ds r'

/-- the leading chars of `[-A-Za-z]` and the rest -/
def takeWbName : Chars → Chars × Chars
  | [] => ([], [])
  | c :: r => if isWbNameChar c then ((takeWbName r).1.cons c, (takeWbName r).2) else ([], c :: r)

/-- `\b` and `maybe_parse_special_word_boundary`, standing right after the `b`: `\b{start}` `\b{end}`
`\b{start-half}` `\b{end-half}`; a `{` that is not followed by a char of `[-A-Za-z]` is left for the
counted repetition (`\b{2}`) -/
def wordBoundary (r : Chars) : Except RegexErr (Prim × Chars) :=
  match r with
  | 123 :: [] => .error .specialWordOrRepUnexpectedEof
  | 123 :: d :: t =>
    if isWbNameChar d then
      match (takeWbName (d :: t)).2 with
      | 125 :: r' =>
        let name := (takeWbName (d :: t)).1
        if name = [115, 116, 97, 114, 116] then .ok (.look .wordStart, r')                                  -- start
        else if name = [101, 110, 100] then .ok (.look .wordEnd, r')                                         -- end
        else if name = [115, 116, 97, 114, 116, 45, 104, 97, 108, 102] then .ok (.look .wordStartHalf, r')  -- start-half
        else if name = [101, 110, 100, 45, 104, 97, 108, 102] then .ok (.look .wordEndHalf, r')             -- end-half
        else .error .specialWordBoundaryUnrecognized
      | _ => .error .specialWordBoundaryUnclosed
    else .ok (.look .wordB, r)
  | _ => .ok (.look .wordB, r)

/-- `parse_escape`, the parser standing right AFTER the backslash: the primitive and the rest -/
def parseEscape : Chars → Except RegexErr (Prim × Chars)
  | [] => .error .escapeUnexpectedEof
  | c :: r =>
    if c = 120 then parseHex 2 r                                  -- \x
    else if c = 117 then parseHex 4 r                             -- \u
    else if c = 85 then parseHex 8 r                              -- \U
    else if c = 98 then wordBoundary r                            -- \b …
    else
      match escapePrim c with
      | .ok p => .ok (p, r)
      | .error e => .error e

/-! ### counted repetition (`parse_counted_repetition`, `parse_decimal`) -/

def dropSpaces : Chars → Chars
  | [] => []
  | c :: r => if isSpace c then dropSpaces r else c :: r

/-- the leading ASCII digits and the rest -/
def takeDigits : Chars → Chars × Chars
  | [] => ([], [])
  | c :: r => if isDigit c then ((takeDigits r).1.cons c, (takeDigits r).2) else ([], c :: r)

def decimalValue (ds : Chars) : Nat := ds.foldl (fun n d => n * 10 + (d - 48)) 0

/-- `parse_decimal`: skip white space, digits, skip white space. The error (`DecimalEmpty`, already
specialised to `RepetitionCountDecimalEmpty`, or `DecimalInvalid`: not a `u32`) is a VALUE: the
caller looks at it later -/
def parseDecimal (s : Chars) : Except RegexErr Nat × Chars :=
  let (ds, r) := takeDigits (dropSpaces s)
  let r := dropSpaces r
  if ds.isEmpty then (.error .repetitionCountDecimalEmpty, r)
  else if decimalValue ds > 4294967295 then (.error .decimalInvalid, r)
  else (.ok (decimalValue ds), r)

/-- an optional `?` after a repetition operator (lazy: same `is_match`) -/
def dropLazy : Chars → Chars
  | 63 :: r => r
  | r => r

/-- the end of `parse_counted_repetition`: the closing brace, an optional `?`, then the validity of
the range (`RepetitionRange::is_valid`) -/
def closeCount (lo : Nat) (hi : Option Nat) (r : Chars) : Except RegexErr ((Nat × Option Nat) × Chars) :=
  match r with
  | 125 :: t =>
    if (match hi with | some m => decide (lo ≤ m) | none => true) then .ok ((lo, hi), dropLazy t)
    else .error .repetitionCountInvalid
  | _ => .error .repetitionCountUnclosed

/-- `parse_counted_repetition`, the parser standing right AFTER the `{` (the operand was already
popped): bounds and the rest -/
def parseCounted (s : Chars) : Except RegexErr ((Nat × Option Nat) × Chars) :=
  if s.isEmpty then .error .repetitionCountUnclosed
  else
    match (parseDecimal s).2 with
    | [] => .error .repetitionCountUnclosed
    | c1 :: t1 =>
      if c1 = 44 then
        match t1 with
        | [] => .error .repetitionCountUnclosed
        | c2 :: _ =>
          if c2 ≠ 125 then
            match (parseDecimal s).1 with
            | .error e => .error e
            | .ok lo =>
              match (parseDecimal t1).1 with
              | .error e => .error e
              | .ok hi => closeCount lo (some hi) (parseDecimal t1).2
          else
            match (parseDecimal s).1 with
            | .error e => .error e
            | .ok lo => closeCount lo none t1
      else
        match (parseDecimal s).1 with
        | .error e => .error e
        | .ok n => closeCount n (some n) (c1 :: t1)

/-! ### bracketed classes (`parse_set_class` …) -/

/-- `parse_set_class_item` on a non-empty input -/
def classPrim : Chars → Except RegexErr (Prim × Chars)
  | [] => .error .classUnclosed
  | c :: r => if c = 92 then parseEscape r else .ok (.lit c, r)

/-- `Primitive::into_class_set_item` -/
def Prim.toItem : Prim → Except RegexErr ClassItem
  | .lit c => .ok (.range c c)
  | .perl k n => .ok (.perl k n)
  | .look _ => .error .classEscapeInvalid

/-- `Primitive::into_class_literal` -/
def Prim.toLit : Prim → Except RegexErr Nat
  | .lit c => .ok c
  | _ => .error .classRangeLiteral

/-- `parse_set_class_range` on a non-empty input -/
def classRange (s : Chars) : Except RegexErr (ClassItem × Chars) :=
  match classPrim s with
  | .error e => .error e
  | .ok (p1, r1) =>
    match r1 with
    | [] => .error .classUnclosed
    | c :: t =>
      if c ≠ 45 || t.head? = some 93 || t.head? = some 45 then
        match p1.toItem with
        | .error e => .error e
        | .ok it => .ok (it, r1)
      else if t.isEmpty then .error .classUnclosed
      else
        match classPrim t with
        | .error e => .error e
        | .ok (p2, r3) =>
          match p1.toLit with
          | .error e => .error e
          | .ok lo =>
            match p2.toLit with
            | .error e => .error e
            | .ok hi => if lo ≤ hi then .ok (.range lo hi, r3) else .error .classRangeInvalid

/-- `ClassAsciiKind::from_name` and `hir::translate::ascii_class`: the ranges of a POSIX class name -/
def asciiClassRanges (name : Chars) : Option (List (Nat × Nat)) :=
  if name = [97, 108, 110, 117, 109] then some [(48, 57), (65, 90), (97, 122)]                 -- alnum
  else if name = [97, 108, 112, 104, 97] then some [(65, 90), (97, 122)]                      -- alpha
  else if name = [97, 115, 99, 105, 105] then some [(0, 127)]                                 -- ascii
  else if name = [98, 108, 97, 110, 107] then some [(9, 9), (32, 32)]                         -- blank
  else if name = [99, 110, 116, 114, 108] then some [(0, 31), (127, 127)]                     -- cntrl
  else if name = [100, 105, 103, 105, 116] then some [(48, 57)]                               -- digit
  else if name = [103, 114, 97, 112, 104] then some [(33, 126)]                               -- graph
  else if name = [108, 111, 119, 101, 114] then some [(97, 122)]                              -- lower
  else if name = [112, 114, 105, 110, 116] then some [(32, 126)]                              -- print
  else if name = [112, 117, 110, 99, 116] then some [(33, 47), (58, 64), (91, 96), (123, 126)] -- punct
  else if name = [115, 112, 97, 99, 101] then some [(9, 9), (10, 10), (11, 11), (12, 12), (13, 13), (32, 32)]  -- space
  else if name = [117, 112, 112, 101, 114] then some [(65, 90)]                               -- upper
  else if name = [119, 111, 114, 100] then some [(48, 57), (65, 90), (95, 95), (97, 122)]     -- word
  else if name = [120, 100, 105, 103, 105, 116] then some [(48, 57), (65, 70), (97, 102)]     -- xdigit
  else none

/-- the chars before the first `:` and the rest (from that `:` on) -/
def takeUntilColon : Chars → Chars × Chars
  | [] => ([], [])
  | c :: r => if c = 58 then ([], c :: r) else ((takeUntilColon r).1.cons c, (takeUntilColon r).2)

/-- an optional leading `^` -/
def stripCaret : Chars → Bool × Chars
  | 94 :: u => (true, u)
  | u => (false, u)

/-- `maybe_parse_ascii_class`, standing right after a `[` INSIDE a class: `:name:]` / `:^name:]` with one
of the fourteen names. Everything else is a nested class (or the text the crate then re-reads as
one): outside the subset. -/
def asciiClass (s : Chars) : Except RegexErr (ClassItem × Chars) :=
  match s with
  | 58 :: t =>
    match (takeUntilColon (stripCaret t).2).2 with
    | 58 :: 93 :: r =>
      match asciiClassRanges (takeUntilColon (stripCaret t).2).1 with
      | some rs => .ok (.ascii rs (stripCaret t).1, r)
      | none => .error .unsupported
    | _ => .error .unsupported
  | _ => .error .unsupported

/-- the loop of `parse_set_class` after the opening; `items` reversed -/
def classLoop : Nat → List ClassItem → Chars → Except RegexErr (List ClassItem × Chars)
  | 0, _, _ => .error .fuel
  | _ + 1, _, [] => .error .classUnclosed
  | f + 1, items, c :: r =>
    if c = 91 then                                                    -- `[:name:]`; a nested class is outside the subset
      match asciiClass r with
      | .error e => .error e
      | .ok (it, r') => classLoop f (it :: items) r'
    else if c = 93 then .ok (items.reverse, r)
    else if c = 38 && r.head? = some 38 then .error .unsupported      -- &&
    else if c = 45 && r.head? = some 45 then .error .unsupported      -- --
    else if c = 126 && r.head? = some 126 then .error .unsupported    -- ~~
    else
      match classRange (c :: r) with
      | .error e => .error e
      | .ok (it, r') => classLoop f (it :: items) r'

/-- the literal `-`s `parse_set_class_open` accepts right after `[` / `[^` -/
def leadingDashes : Chars → List ClassItem × Chars
  | 45 :: r => ((leadingDashes r).1.cons (.range 45 45), (leadingDashes r).2)
  | r => ([], r)

/-- `parse_set_class`, the parser standing right AFTER the `[`: the class and the rest -/
def parseClass (s : Chars) : Except RegexErr (Ast × Chars) :=
  match s with
  | [] => .error .classUnclosed
  | c :: t =>
    let (neg, r1) := if c = 94 then (true, t) else (false, s)
    if r1.isEmpty then .error .classUnclosed
    else
      let (dashes, r2) := leadingDashes r1
      match r2 with
      | [] => .error .classUnclosed
      | d :: t2 =>
        let (first, r3) : List ClassItem × Chars :=
          if dashes.isEmpty && d = 93 then ([.range 93 93], t2) else (dashes, r2)
        if r3.isEmpty then .error .classUnclosed
        else
          match classLoop (r3.length + 1) first.reverse r3 with
          | .error e => .error e
          | .ok (items, r4) => .ok (.cls neg items, r4)

/-! ### groups and the main loop -/

/-- `GroupState` -/
inductive GState where
  | group (prior : List Ast)    -- the concatenation before the `(`, reversed
  | alt (alts : List Ast)       -- the alternatives before the last `|`, reversed
deriving Repr

structure PState where
  stack : List GState := []
  /-- the concatenation being built, reversed -/
  concat : List Ast := []
deriving Repr

/-- `Concat::into_ast` on the items in order -/
def catOf : List Ast → Ast
  | [] => .empty
  | [a] => a
  | a :: b :: r => .cat a (catOf (b :: r))

/-- `Alternation::into_ast` on the alternatives in order -/
def altOf : List Ast → Ast
  | [] => .empty
  | [a] => a
  | a :: b :: r => .alt a (altOf (b :: r))

/-- `parse_group`, the parser standing right AFTER the `(`: the rest at the start of the
sub-expression (capture index and kind are not kept) -/
def groupOpen : Chars → Except RegexErr Chars
  | 63 :: 61 :: _ => .error .unsupportedLookAround            -- (?=
  | 63 :: 33 :: _ => .error .unsupportedLookAround            -- (?!
  | 63 :: 60 :: 61 :: _ => .error .unsupportedLookAround      -- (?<=
  | 63 :: 60 :: 33 :: _ => .error .unsupportedLookAround      -- (?<!
  | 63 :: 80 :: 60 :: _ => .error .unsupported                -- (?P<name>
  | 63 :: 60 :: _ => .error .unsupported                      -- (?<name>
  | 63 :: [] => .error .groupUnclosed                         -- `(?` at the end
  | 63 :: 58 :: r => .ok r                                    -- (?:  (no flags)
  | 63 :: 41 :: _ => .error .repetitionMissing                -- (?)
  | 63 :: _ => .error .unsupported                            -- flags
  | r => .ok r

/-- `push_alternate` (`push_or_add_alternation`) -/
def pushAlt (st : PState) : PState :=
  match st.stack with
  | .alt alts :: rest => { stack := .alt (catOf st.concat.reverse :: alts) :: rest, concat := [] }
  | stack => { stack := .alt [catOf st.concat.reverse] :: stack, concat := [] }

/-- `pop_group` -/
def popGroup (st : PState) : Except RegexErr PState :=
  match st.stack with
  | .group prior :: rest =>
    .ok { stack := rest, concat := .group (catOf st.concat.reverse) :: prior }
  | .alt alts :: .group prior :: rest =>
    .ok { stack := rest, concat := .group (altOf (catOf st.concat.reverse :: alts).reverse) :: prior }
  | _ => .error .groupUnopened

/-- `pop_group_end` -/
def popGroupEnd (st : PState) : Except RegexErr Ast :=
  match st.stack with
  | [] => .ok (catOf st.concat.reverse)
  | [.alt alts] => .ok (altOf (catOf st.concat.reverse :: alts).reverse)
  | _ => .error .groupUnclosed

/-- the repetition operators pop the last item of the concatenation -/
def applyRep (st : PState) (lo : Nat) (hi : Option Nat) : PState :=
  match st.concat with
  | a :: r => { st with concat := .rep lo hi a :: r }
  | [] => st

/-- the loop of `parse_with_comments`; every turn consumes at least one char -/
def loop : Nat → PState → Chars → Except RegexErr Ast
  | 0, _, _ => .error .fuel
  | _ + 1, st, [] => popGroupEnd st
  | f + 1, st, c :: r =>
    if c = 40 then                                                     -- (
      match groupOpen r with
      | .error e => .error e
      | .ok r' => loop f { stack := .group st.concat :: st.stack, concat := [] } r'
    else if c = 41 then                                                -- )
      match popGroup st with
      | .error e => .error e
      | .ok st' => loop f st' r
    else if c = 124 then loop f (pushAlt st) r                         -- |
    else if c = 91 then                                                -- [
      match parseClass r with
      | .error e => .error e
      | .ok (a, r') => loop f { st with concat := a :: st.concat } r'
    else if c = 63 || c = 42 || c = 43 then                            -- ? * +
      if st.concat.isEmpty then .error .repetitionMissing
      else
        let (lo, hi) : Nat × Option Nat := if c = 63 then (0, some 1) else if c = 42 then (0, none) else (1, none)
        loop f (applyRep st lo hi) (dropLazy r)
    else if c = 123 then                                               -- {
      if st.concat.isEmpty then .error .repetitionMissing
      else
        match parseCounted r with
        | .error e => .error e
        | .ok ((lo, hi), r') => loop f (applyRep st lo hi) r'
    else if c = 92 then                                                -- \
      match parseEscape r with
      | .error e => .error e
      | .ok (p, r') => loop f { st with concat := p.toAst :: st.concat } r'
    else if c = 46 then loop f { st with concat := .dot :: st.concat } r
    else if c = 94 then loop f { st with concat := .look .startText :: st.concat } r
    else if c = 36 then loop f { st with concat := .look .endText :: st.concat } r
    else loop f { st with concat := .lit c :: st.concat } r

/-- `ast::parse::Parser::parse` without the nest check -/
def parseAst (p : Chars) : Except RegexErr Ast := loop (p.length + 1) {} p

/-! ### `NestLimiter` and the size limit -/

inductive Ctx where
  | top | inCat | inAlt
deriving DecidableEq, Repr

/-- the deepest nesting `NestLimiter` reaches on the crate's tree: `ClassBracketed`, `Repetition`,
`Group`, `Alternation`, `Concat` count one each (an n-ary node once: `inCat` / `inAlt` say "the
right-nested tail of the same node"); a class with two or more items counts two
(`ClassSetItem::Union`) -/
def heightIn : Ctx → Ast → Nat
  | _, .empty => 0
  | _, .lit _ => 0
  | _, .dot => 0
  | _, .perl _ _ => 0
  | _, .look _ => 0
  | _, .cls _ items => if items.length ≤ 1 then 1 else 2
  | _, .group a => heightIn .top a + 1
  | _, .rep _ _ a => heightIn .top a + 1
  | ctx, .cat a b => max (heightIn .top a) (heightIn .inCat b) + (if ctx = .inCat then 0 else 1)
  | ctx, .alt a b => max (heightIn .top a) (heightIn .inAlt b) + (if ctx = .inAlt then 0 else 1)

def height (a : Ast) : Nat := heightIn .top a

/-- the default `nest_limit` -/
def nestLimit : Nat := 250

def perlCost : PerlKind → Nat
  | .digit => 30000
  | .space => 6000
  | .word => 120000

def itemCost : ClassItem → Nat
  | .range _ _ => 4000
  | .perl k _ => perlCost k
  | .ascii rs _ => 4000 * (rs.length + 1)

/-- a generous upper estimate, in bytes, of what the construct adds to the two Thompson NFAs that
`Regex::new` compiles (forward and reverse; `e{n}` / `e{m,n}` / `e{n,}` compile `e` max(n,1)
times). Measured on the real crate per construct (bytes per copy when the 10 MiB limit is hit):
ASCII literal ≤ 72, 4-byte literal ≤ 168, `.` 1040, `\d` 5200, `\D` 12800, `\s` 720, `\S` 1970,
`\w` 50200, `\W` 46600, a class of k arbitrary ranges ≤ 1600·k, a look 3. -/
def cost : Ast → Nat
  | .empty => 50
  | .lit _ => 200
  | .dot => 2500
  | .cls _ items => 2000 + (items.map itemCost).sum
  | .perl k _ => perlCost k
  | .look _ => 50
  | .group a => cost a + 100
  | .cat a b => cost a + cost b
  | .alt a b => cost a + cost b + 100
  | .rep lo hi a => (match hi with | some m => max m 1 | none => max lo 1) * (cost a + 100) + 100

/-- patterns costlier than this are `unsupported` (the real limit is 10 485 760 bytes) -/
def costLimit : Nat := 4000000

/-- `Regex::new(p)`: the tree, the error kind, or `unsupported` -/
def parse (p : Chars) : Except RegexErr Ast :=
  match parseAst p with
  | .error e => .error e
  | .ok a =>
    if height a > nestLimit then .error .nestLimitExceeded
    else if cost a > costLimit then .error .unsupported
    else .ok a

end Grcov.Regex

