/-
Regex/Match — what a parsed pattern MEANS and an executable matcher.

* `M h a i j` — THE SPECIFICATION: pattern `a` matches the haystack `h` (a list of Unicode scalar
  values: `Regex::new` matches `&str` per scalar value, the `u` flag is on) from position `i` to
  position `j`. Plain structural recursion on the pattern, nothing operational: concatenation is a
  split point, alternation a disjunction, `e{lo,hi}` "some `n` in the bounds and `n` consecutive
  matches of `e`" (`Iter`), the assertions `^ $ \A \z \b \B` predicates on the position (`lookHolds`).
  `Matches a h` = some `i ≤ j` with `M h a i j` — `Regex::is_match`.
* `adv` / `isMatch` — the executable matcher: the SET of positions reachable through the pattern
  from a set of positions (all start positions at once), structural recursion on the pattern,
  repetition by iterating the set transformer (`exactly`, `upTo`: until a round adds no position);
  `e*` needs at most `|h|` rounds.
  No fuel, no backtracking: the work is polynomial in `|h|`, the counts of the pattern and its size.
  Lemmas/RegexMatch.lean proves `isMatch a h = true ↔ Matches a h` for ALL patterns and haystacks.
* UTF-8: `decode` (strict, what `read_to_string` / `str::from_utf8` accept), `enc`; `isMatchText`
  is `Regex::new(pattern).is_match(line)` on the byte level, the shape `Cli.RunAll.Opts.isMatch` has.
Core Lean only.
-/
import GrcovModel.Regex.Syntax
namespace Grcov.Regex

/-! ### one char -/

def perlMatch : PerlKind → Nat → Bool
  | .digit, c => inTable digitTable c
  | .space, c => inTable spaceTable c
  | .word, c => inTable wordTable c

def itemMatch : ClassItem → Nat → Bool
  | .range lo hi, c => lo ≤ c && c ≤ hi
  | .perl k neg, c => perlMatch k c != neg
  | .ascii rs neg, c => inTable rs c != neg

/-- `[…]` / `[^…]` on one scalar value (negation is the complement within ALL scalar values: a
negated class matches `\n` – irrelevant for a line – and every non-ASCII char) -/
def clsMatch (neg : Bool) (items : List ClassItem) (c : Nat) : Bool :=
  (items.any fun it => itemMatch it c) != neg

/-- the char at position `i` is a word char (`\w`); false outside the haystack -/
def wordAt (h : Chars) (i : Nat) : Bool :=
  match h[i]? with
  | some c => perlMatch .word c
  | none => false

/-- the char BEFORE position `i` is a word char -/
def wordBefore (h : Chars) (i : Nat) : Bool :=
  match i with
  | 0 => false
  | k + 1 => wordAt h k

/-- `Look::{Start, End, WordUnicode, WordUnicodeNegate, WordStartUnicode, WordEndUnicode,
WordStartHalfUnicode, WordEndHalfUnicode}` at position `i` -/
def lookHolds (h : Chars) : Look → Nat → Bool
  | .startText, i => i = 0
  | .endText, i => i = h.length
  | .wordB, i => wordBefore h i != wordAt h i
  | .notWordB, i => wordBefore h i == wordAt h i
  | .wordStart, i => !wordBefore h i && wordAt h i
  | .wordEnd, i => wordBefore h i && !wordAt h i
  | .wordStartHalf, i => !wordBefore h i
  | .wordEndHalf, i => !wordAt h i

/-! ### the specification -/

/-- `n` consecutive steps of `R` lead from `i` to `j` -/
def Iter (R : Nat → Nat → Prop) : Nat → Nat → Nat → Prop
  | 0, i, j => j = i
  | n + 1, i, j => ∃ k, R i k ∧ Iter R n k j

/-- pattern `a` matches `h` from position `i` to position `j` -/
def M (h : Chars) : Ast → Nat → Nat → Prop
  | .empty, i, j => j = i
  | .lit c, i, j => h[i]? = some c ∧ j = i + 1
  | .dot, i, j => ∃ c, h[i]? = some c ∧ c ≠ 10 ∧ j = i + 1
  | .cls neg items, i, j => ∃ c, h[i]? = some c ∧ clsMatch neg items c = true ∧ j = i + 1
  | .perl k neg, i, j => ∃ c, h[i]? = some c ∧ (perlMatch k c != neg) = true ∧ j = i + 1
  | .look l, i, j => lookHolds h l i = true ∧ j = i
  | .group a, i, j => M h a i j
  | .cat a b, i, j => ∃ k, M h a i k ∧ M h b k j
  | .alt a b, i, j => M h a i j ∨ M h b i j
  | .rep lo hi a, i, j => ∃ n, lo ≤ n ∧ (∀ m, hi = some m → n ≤ m) ∧ Iter (M h a) n i j

/-- `Regex::is_match`: the pattern matches somewhere in the haystack -/
def Matches (a : Ast) (h : Chars) : Prop := ∃ i j, i ≤ h.length ∧ M h a i j

/-! ### the executable matcher -/

/-- set union on lists (keeps the lists duplicate-free when they were) -/
def unionL (xs ys : List Nat) : List Nat := xs ++ ys.filter fun y => !xs.contains y

/-- every position of `S` whose char satisfies `p`, advanced by one -/
def stepChar (h : Chars) (p : Nat → Bool) (S : List Nat) : List Nat :=
  S.filterMap fun i =>
    match h[i]? with
    | some c => if p c then some (i + 1) else none
    | none => none

/-- exactly `n` applications (nothing is reachable from the empty set: stop) -/
def exactly (f : List Nat → List Nat) : Nat → List Nat → List Nat
  | 0, S => S
  | n + 1, S => if S.isEmpty then [] else exactly f n (f S)

/-- at most `n` applications: `S ∪ f S ∪ f (f S) ∪ …`, stopping as soon as a round adds nothing -/
def upTo (f : List Nat → List Nat) : Nat → List Nat → List Nat
  | 0, S => S
  | n + 1, S =>
    let T := f S
    if T.all (fun y => S.contains y) then S else upTo f n (unionL S T)

/-- the positions reachable from some position of `S` through pattern `a` -/
def adv (h : Chars) : Ast → List Nat → List Nat
  | .empty, S => S
  | .lit c, S => stepChar h (fun x => x == c) S
  | .dot, S => stepChar h (fun x => x != 10) S
  | .cls neg items, S => stepChar h (clsMatch neg items) S
  | .perl k neg, S => stepChar h (fun x => perlMatch k x != neg) S
  | .look l, S => S.filter (lookHolds h l)
  | .group a, S => adv h a S
  | .cat a b, S => adv h b (adv h a S)
  | .alt a b, S => unionL (adv h a S) (adv h b S)
  | .rep lo hi a, S =>
    match hi with
    | some m => if m < lo then [] else upTo (fun T => adv h a T) (m - lo) (exactly (fun T => adv h a T) lo S)
    | none => upTo (fun T => adv h a T) h.length (exactly (fun T => adv h a T) lo S)

/-- `Regex::is_match` -/
def isMatch (a : Ast) (h : Chars) : Bool := !(adv h a (List.range (h.length + 1))).isEmpty

/-! ### UTF-8 -/

/-- `char::encode_utf8` -/
def enc (c : Nat) : Bytes :=
  if c < 128 then [c]
  else if c < 2048 then [192 + c / 64, 128 + c % 64]
  else if c < 65536 then [224 + c / 4096, 128 + c / 64 % 64, 128 + c % 64]
  else [240 + c / 262144, 128 + c / 4096 % 64, 128 + c / 64 % 64, 128 + c % 64]

def encAll (cs : Chars) : Bytes := cs.flatMap enc

def isCont (b : Nat) : Bool := 128 ≤ b && b ≤ 191

/-- strict UTF-8 decoding (`str::from_utf8`): shortest form only, no surrogates, ≤ U+10FFFF -/
def decode : Bytes → Option Chars
  | [] => some []
  | b0 :: r =>
    if b0 < 128 then (decode r).map (List.cons b0)
    else if 194 ≤ b0 && b0 ≤ 223 then
      match r with
      | b1 :: r1 => if isCont b1 then (decode r1).map (List.cons ((b0 - 192) * 64 + (b1 - 128))) else none
      | _ => none
    else if 224 ≤ b0 && b0 ≤ 239 then
      match r with
      | b1 :: b2 :: r2 =>
        if isCont b1 && isCont b2 && (b0 != 224 || 160 ≤ b1) && (b0 != 237 || b1 ≤ 159) then
          (decode r2).map (List.cons ((b0 - 224) * 4096 + (b1 - 128) * 64 + (b2 - 128)))
        else none
      | _ => none
    else if 240 ≤ b0 && b0 ≤ 244 then
      match r with
      | b1 :: b2 :: b3 :: r3 =>
        if isCont b1 && isCont b2 && isCont b3 && (b0 != 240 || 144 ≤ b1) && (b0 != 244 || b1 ≤ 143) then
          (decode r3).map (List.cons ((b0 - 240) * 262144 + (b1 - 128) * 4096 + (b2 - 128) * 64 + (b3 - 128)))
        else none
      | _ => none
    else none

/-- what `Regex::from_str` answers for the bytes of a command-line value -/
inductive Compiled where
  | ok (a : Ast)
  | err (e : RegexErr)       -- `regex::Error::Syntax` of that kind (or `unsupported`: no claim)
  | notUtf8                  -- clap's own error: the value is not UTF-8
deriving DecidableEq, Repr

def compile (pat : Bytes) : Compiled :=
  match decode pat with
  | none => .notUtf8
  | some p =>
    match parse p with
    | .ok a => .ok a
    | .error e => .err e

/-- `Regex::new(pat).unwrap().is_match(line)` on bytes; `false` when the pattern does not compile
(grcov never gets that far: clap rejects the command line) or the line is not UTF-8
(`read_to_string` fails for the whole file: there are no lines) -/
def isMatchText (pat line : Bytes) : Bool :=
  match compile pat, decode line with
  | .ok a, some l => isMatch a l
  | _, _ => false

end Grcov.Regex
