-- driver gm_c12: path components (UPath / Glob / Rewrite), see GrcovModel/Drv/C11.lean; the ops
-- `c12.*` are in GrcovModel/Drv/C12.lean
import GrcovModel.Drv.C12
open Grcov.Drv.C12

partial def loop (h : IO.FS.Stream) (out : IO.FS.Stream) : IO Unit := do
  let line ← h.getLine
  if line.isEmpty then return ()
  out.putStrLn (dispatch line)
  loop h out

def main : IO Unit := do
  let out ← IO.getStdout
  loop (← IO.getStdin) out
  out.flush
