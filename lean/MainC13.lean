-- driver for C13: summary figures of the report writers (see GrcovModel/Drv/C13.lean)
import GrcovModel.Drv.C13
import GrcovModel.Drv.C13Md
import GrcovModel.Drv.C13Html

/-- part drivers first, then the property's own ops -/
def dispatch (line : String) : String :=
  match (line.trimAscii.toString.splitOn " ").filter (· ≠ "") with
  | "c13.md.markdown" :: args => Grcov.Drv.C13Md.handleMarkdown args
  | "c13.md.parse" :: args => Grcov.Drv.C13Md.handleParse args
  | "c13.md.badge" :: args => Grcov.Drv.C13Md.handleBadge args
  | "c13.md.badgeparse" :: args => Grcov.Drv.C13Md.handleBadgeParse args
  | "c13.md.json" :: args => Grcov.Drv.C13Md.handleJson args
  | "c13.md.jsonparse" :: args => Grcov.Drv.C13Md.handleJsonParse args
  | "c13.md.html" :: args => Grcov.Drv.C13Md.handleHtml args
  | "c13.md.fig" :: args => Grcov.Drv.C13Md.handleFig args
  | "c13.md.files" :: args => Grcov.Drv.C13Md.handleFiles args
  | "c13.html.printed2" :: args => Grcov.Drv.C13Html.handlePrinted2 args
  | "c13.html.rows" :: args => Grcov.Drv.C13Html.handleRows args
  | _ => Grcov.Drv.C13.step line

partial def loop (h : IO.FS.Stream) (out : IO.FS.Stream) : IO Unit := do
  let line ← h.getLine
  if line.isEmpty then return ()
  out.putStrLn (dispatch line)
  loop h out

def main : IO Unit := do
  let out ← IO.getStdout
  loop (← IO.getStdin) out
  out.flush
