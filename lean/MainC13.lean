-- driver for C13: summary figures of the report writers (see GrcovModel/Drv/C13.lean)
import GrcovModel.Drv.C13

partial def loop (h : IO.FS.Stream) (out : IO.FS.Stream) : IO Unit := do
  let line ← h.getLine
  if line.isEmpty then return ()
  out.putStrLn (Grcov.Drv.C13.step line)
  loop h out

def main : IO Unit := do
  let out ← IO.getStdout
  loop (← IO.getStdin) out
  out.flush
