import GrcovModel.Base
import GrcovModel.Merge
import GrcovModel.Props.C01
