import GrcovModel.Drv.C18
-- native driver for C18 (`gm_c18`): one request per line, one answer per line
partial def loop (h : IO.FS.Stream) (out : IO.FS.Stream) : IO Unit := do
  let line ← h.getLine
  if line.isEmpty then return ()
  out.putStrLn (Grcov.Drv.C18.step line)
  loop h out

def main : IO Unit := do
  let out ← IO.getStdout
  loop (← IO.getStdin) out
  out.flush
