-- driver for C17 (Producer model): see GrcovModel/Drv/C17.lean for the protocol
import GrcovModel.Drv.C17
open Grcov.Drv.C17

def step (line : String) : String :=
  match line.trimAscii.toString.splitOn " " with
  | "c17.run" :: args => handleRun args
  | "c17.spec" :: args => handleSpec args
  | "c17.argclass" :: args => handleArgClass args
  | "c17.canon" :: args => handleCanon args
  | "c17.ziplist" :: args => handleZipList false args
  | "c17.zipfirst" :: args => handleZipList true args
  | _ => "bad-op"

partial def loop (h : IO.FS.Stream) (out : IO.FS.Stream) : IO Unit := do
  let line ← h.getLine
  if line.isEmpty then return ()
  out.putStrLn (step line)
  loop h out

def main : IO Unit := do
  let out ← IO.getStdout
  loop (← IO.getStdin) out
  out.flush
