import GrcovModel.Drv.C16
import GrcovModel.Drv.C16Regex
open Grcov.Drv

def step (line : String) : String :=
  match line.trimAscii.toString.splitOn " " with
  | "ffilter" :: args => handleFFilter args
  | "ffapply" :: args => handleFFApply args
  | "ffselect" :: args => handleFFSelect args
  | "fflines" :: args => handleFFLines args
  | "ffsrc" :: args => handleFFSrc args
  | "c16.rx.parse" :: args => C16Regex.handleParse args
  | "c16.rx.match" :: args => C16Regex.handleMatch args
  | "c16.rx.table" :: args => C16Regex.handleTable args
  | "c16.rx.create" :: args => C16Regex.handleCreate args
  | _ => "bad-op"

partial def loop (h : IO.FS.Stream) (out : IO.FS.Stream) : IO Unit := do
  let line ← h.getLine
  if line.isEmpty then return ()
  out.putStrLn (step line)
  loop h out

def main : IO Unit := do
  let out ← IO.getStdout
  loop (← IO.getStdin) out
  out.flush
