import GrcovModel.Drv.Merge
import GrcovModel.Drv.Lcov
import GrcovModel.Drv.Pipeline
import GrcovModel.Drv.Confine
import GrcovModel.Drv.C19Dest
import GrcovModel.Drv.C20FindBin
import GrcovModel.Drv.LlvmTools
import GrcovModel.Drv.Writers
import GrcovModel.Drv.C03CobAde
import GrcovModel.Drv.C03CobBytes
import GrcovModel.Drv.C20Consumer
import GrcovModel.Drv.C03Docs
import GrcovModel.Drv.C14Gcno
import GrcovModel.Drv.MainGlue
import GrcovModel.Drv.C03JsonBytes
import GrcovModel.Drv.C05Cli
import GrcovModel.Drv.C02Run
import GrcovModel.Drv.C03Html
import GrcovModel.Drv.C14Text
import GrcovModel.Drv.C20WorkDirs
open Grcov.Drv

def step (line : String) : String :=
  match line.trimAscii.toString.splitOn " " with
  | "merge" :: args => handleMerge args
  | "addresults" :: args => handleAddResults args
  | "lcov.parse" :: args => handleLcovParse args
  | "utf8lossy" :: args => handleUtf8Lossy args
  | "utf8valid" :: args => handleUtf8Valid args
  | "lcov.print" :: args => handleLcovPrint args
  | "pipe.replay" :: args => handlePipeReplay args
  | "pipe.stuck" :: args => handlePipeStuck args
  | "confine.enclosed" :: args => handleEnclosed args
  | "confine.plain" :: args => handlePlain args
  | "confine.dest.ext" :: args => handleDestExt args
  | "confine.dest.html" :: args => handleDestHtml args
  | "confine.dest.run" :: args => handleDestRun args
  | "confine.dest.gcov" :: args => handleDestGcov args
  | "confine.dest.outfile" :: args => handleDestOutFile args
  | "confine.dest.profdata" :: args => handleDestProfdata args
  | "llvm.model" :: args => handleLlvmModel args
  | "c03.covdir" :: args => handleCovdirArray args
  | "c03.html" :: args => handleHtmlCounts args
  | "c03.cob.tree" :: args => Grcov.Drv.CobAde.handleCobTree args
  | "c03.cob.stem" :: args => Grcov.Drv.CobAde.handleCobStem args
  | "c03.ade" :: args => Grcov.Drv.CobAde.handleAde args
  | "c03.cobbytes.ser" :: args => Grcov.Drv.CobBytes.handleSer args
  | "c03.cobbytes.parse" :: args => Grcov.Drv.CobBytes.handleParse args
  | "c20.cons.run" :: args => handleConsRun args
  | "c20.cons.version" :: args => handleConsVersion args
  | "c20.cons.argv" :: args => handleConsArgv args
  | "c20.cons.findbin" :: args => handleConsFindBin args
  | "c03.docs.coveralls" :: args => handleDocsCoveralls args
  | "c03.docs.covdir" :: args => handleDocsCovdir args
  | "c03.docs.markdown" :: args => handleDocsMarkdown args
  | "c03.docs.files" :: args => handleDocsFiles args
  | "c03.docs.html" :: args => handleDocsHtml args
  | "c03.docs.lossylines" :: args => handleDocsLossyLines args
  | "c14.gcno.computeb" :: args => Grcov.Drv.C14Gcno.handleComputeB args
  | "c14.gcno.gcdarecs" :: args => Grcov.Drv.C14Gcno.handleGcdaRecs args
  | "c14.gcno.crashsite" :: args => Grcov.Drv.C14Gcno.handleCrashSite args
  | "main.plan" :: args => Grcov.Drv.MainGlue.handlePlan args
  | "main.sort" :: args => Grcov.Drv.MainGlue.handleSort args
  | "c03.json.coveralls" :: args => handleJsonCoveralls args
  | "c03.json.covdir" :: args => handleJsonCovdir args
  | "c03.json.ade" :: args => handleJsonAde args
  | "c20.llvmtree.find" :: args => handleLlvmTreeFind args
  | "c20.llvm.list" :: args => handleLlvmList args
  | "c20.llvm.stdin" :: args => handleLlvmStdin args
  | "c20.llvm.run" :: args => handleLlvmRun args
  | "c20.wd.layout" :: args => handleWdLayout args
  | "cli.run" :: args => handleCliRun args
  | "cli.runj" :: args => handleCliRunJ args
  | "c05.output_lcov" :: args => handleOutputLcov args
  | "c05.output_lcov_dm" :: args => handleOutputLcovDm args
  | "run.all" :: args => Grcov.Drv.RunAll.handleRunAll args
  | "run.html" :: args => Grcov.Drv.RunAll.handleRunHtml args
  | "run.multi" :: args => Grcov.Drv.RunAll.handleRunMulti args
  | "c03.htmlb" :: args => Grcov.Drv.C03Html.handle args
  | "c03.lcov" :: args => Grcov.Drv.FnOrder.handleLcov args
  | "c14.text.lcov" :: args => Grcov.Drv.C14Text.handleLcov args
  | "c14.text.gcov" :: args => Grcov.Drv.C14Text.handleGcov args
  | "c14.text.gcovjson" :: args => Grcov.Drv.C14Text.handleGcovJson args
  | "c14.text.jacoco" :: args => Grcov.Drv.C14Text.handleJacoco args
  | _ => "bad-op"

partial def loop (h : IO.FS.Stream) (out : IO.FS.Stream) : IO Unit := do
  let line ← h.getLine
  if line.isEmpty then return ()
  out.putStrLn (step line)
  loop h out

def main : IO Unit := do
  let out ← IO.getStdout
  loop (← IO.getStdin) out
  out.flush
