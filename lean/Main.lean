import GrcovModel.Drv.Merge
import GrcovModel.Drv.Lcov
import GrcovModel.Drv.Pipeline
import GrcovModel.Drv.Confine
import GrcovModel.Drv.LlvmTools
import GrcovModel.Drv.Writers
open Grcov.Drv

def step (line : String) : String :=
  match line.trimAscii.toString.splitOn " " with
  | "merge" :: args => handleMerge args
  | "addresults" :: args => handleAddResults args
  | "lcov.parse" :: args => handleLcovParse args
  | "utf8lossy" :: args => handleUtf8Lossy args
  | "lcov.print" :: args => handleLcovPrint args
  | "pipe.replay" :: args => handlePipeReplay args
  | "pipe.stuck" :: args => handlePipeStuck args
  | "confine.enclosed" :: args => handleEnclosed args
  | "confine.plain" :: args => handlePlain args
  | "llvm.model" :: args => handleLlvmModel args
  | "c03.covdir" :: args => handleCovdirArray args
  | "c03.html" :: args => handleHtmlCounts args
  | _ => "bad-op"

partial def loop (h : IO.FS.Stream) (out : IO.FS.Stream) : IO Unit := do
  let line ← h.getLine
  if line.isEmpty then return ()
  out.putStrLn (step line)
  loop h out

def main : IO Unit := do
  let out ← IO.getStdout
  loop (← IO.getStdin) out
  out.flush
