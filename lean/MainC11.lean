-- driver gm_c11: path components (UPath / Glob / Rewrite), see GrcovModel/Drv/C11.lean
import GrcovModel.Drv.C11
open Grcov.Drv.C11

partial def loop (h : IO.FS.Stream) (out : IO.FS.Stream) : IO Unit := do
  let line ← h.getLine
  if line.isEmpty then return ()
  out.putStrLn (step line)
  loop h out

def main : IO Unit := do
  let out ← IO.getStdout
  loop (← IO.getStdin) out
  out.flush
