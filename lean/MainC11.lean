-- driver gm_c11: path components (UPath / Glob / Rewrite), see GrcovModel/Drv/C11.lean
import GrcovModel.Drv.C11
import GrcovModel.Drv.C11Partial
import GrcovModel.Drv.C11Idem
import GrcovModel.Drv.C11Glob
import GrcovModel.Drv.C11Filter
open Grcov.Drv.C11

/-- part drivers first, then the property's own ops -/
def dispatch (line : String) : String :=
  match line.trimAscii.toString.splitOn " " with
  | "c11.partial.ext" :: args => Grcov.Drv.C11Partial.handleExt args
  | "c11.partial.lastseg" :: args => Grcov.Drv.C11Partial.handleLastSeg args
  | "c11.partial.rewrite" :: args => Grcov.Drv.C11Partial.handleRewrite args
  | "c11.partial.info" :: args => Grcov.Drv.C11Partial.handleInfo args
  | "c11.partial.cands" :: args => Grcov.Drv.C11Partial.handleCands args
  | "c11.idem.twice" :: args => Grcov.Drv.C11Idem.handleTwice args
  | "c11.glob.parse" :: args => Grcov.Drv.C11Glob.handleParse args
  | "c11.glob.match" :: args => Grcov.Drv.C11Glob.handleMatch args
  | "c11.glob.set" :: args => Grcov.Drv.C11Glob.handleSet args
  | "c11.glob.rewrite" :: args => Grcov.Drv.C11Glob.handleRewrite args
  | "c11.filter.rewrite" :: args => Grcov.Drv.C11Filter.handleRewrite args
  | _ => step line

partial def loop (h : IO.FS.Stream) (out : IO.FS.Stream) : IO Unit := do
  let line ← h.getLine
  if line.isEmpty then return ()
  out.putStrLn (dispatch line)
  loop h out

def main : IO Unit := do
  let out ← IO.getStdout
  loop (← IO.getStdin) out
  out.flush
