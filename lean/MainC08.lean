-- driver for C08: gcno/gcda model (same handler as gm_c15)
import GrcovModel.Drv.C08
import GrcovModel.Drv.C08MultiBlock
import GrcovModel.Drv.C08Records
open Grcov.Drv

def step (line : String) : String :=
  match (line.trimAscii.toString.splitOn " ").filter (· ≠ "") with
  | "c08.mb" :: args => handleC08MultiBlock args
  | "c08.listed" :: args => handleC08Listed args
  | "c15.stamp" :: args => handleC15Stamp args
  | _ => stepC08 line

partial def loop (h : IO.FS.Stream) (out : IO.FS.Stream) : IO Unit := do
  let line ← h.getLine
  if line.isEmpty then return ()
  out.putStrLn (step line)
  loop h out

def main : IO Unit := do
  let out ← IO.getStdout
  loop (← IO.getStdin) out
  out.flush
